LEVEL = "proof"
MANIFEST = {
    "engine": "symrun",
    "category": "proof",
    "text": "For the real SRF/Fourier code path: field(x + period_d * main_axis_d) = field(x) for ALL positions, periods, anisotropy ratios, rotation angles, variances, length scales and seeds (symbolic reals), dims 1-3, via the lemma chain isometrised shift (ring normal form over the real matrix_rotate) -> every phase changes by 2 pi * integer (modes proved to lie on the lattice (k - n/2) * 2 pi anis/period) -> cos/sin periodicity instances; also after period / mode_no / model changes through the real update paths. Added after the seeding rounds: period / mode_no lists shorter than the dimension are filled with their last value; updates that pass several settings at once (new period or model together with the unchanged mode numbers)."
            " Round 7: period and mode numbers are owned by the generator (the caller editing its array afterwards changes nothing)."
            " A rejected update (odd mode numbers) leaves the generator unchanged (F48 repaired).",
    "level_note": "even mode counts are enumerated (2 and 4 per axis; the argument is per mode and uses only that the lattice index is an integer) -- reported under proof because values are unbounded and the kernel sum is proved for all sizes in C15, with the enumeration stated; np.arange end-point rounding can change the NUMBER of modes in floating point (T1 residue); ghost RNG and kernel postcondition stubs as in C11; cos/sin(a + 2 pi z) = cos/sin a instantiated as hints (T4).",
    "technique": "contract-based deductive verification: symbolic execution of the real Python methods against sidecar postconditions from the docstrings, VCs discharged by z3/cvc5 with instantiated axiom hints",
}
MODULES = ["contracts.c17"]


def run(rep, tier, seed, only=None):
    from gsvc import contract
    rep.stubs.add("gstools.field.generator.RNG -> ghost RNG (T5: deterministic in seed value and draw count)")
    rep.stubs.add("compiled kernels summate/summate_fourier/summate_incompr -> C15 postconditions as spec functions")
    contract.standard_run(rep, "C17", MODULES, tier, seed, only)


def replay(path):
    from gsvc import contract
    return contract.standard_replay("C17", MODULES, path)
