"""C06 -- kriging interpolates exactly; variance non-negative and bounded (contracts/c06.py on top
of contracts/c05.py and contracts/krige_common.py)."""
LEVEL = "other"
MANIFEST = {
    "engine": "symrun",
    "category": "other",
    "text": "Lemma chain on the real Krige code (all variants: Simple, Ordinary, Universal with uninterpreted or 'linear' drift functions, ExtDrift, Detrended, universal + external drift, biased + drift; generic model class; all values symbolic) for a target that IS conditioning point i with zero measurement error (model without nugget, or exact=True with cond_err='nugget' and a positive nugget): L1 the right-hand side handed to the compiled kernel equals column i of the kriging matrix (distance of a point to itself is 0, covariance at 0 equals the diagonal entry, unbiased / drift / external-drift rows identical, anisometrize(isometrize(x)) = x re-proved for the real matrices); L2 K k = e_i from the assumed inverse contract (K.A)_ri = delta_ri; L3 raw field = cond_i from the kernel postcondition; L4 k^T K k = k_i = A_ii = sill, hence krige_var = max(sill - sill, 0) = 0; L5 the returned field trend + denormalize(mean + cond_i) equals the conditioning VALUE through the mean / trend / normalizer round trip (generic normalizer with the C18 round-trip contract, LogNormal via exp(log y) = y). The same chain holds on an object whose set_condition ran fit_normalizer / fit_variogram with ghost optimisers assigning arbitrary in-bounds parameters incl. the anisotropy ratio (exact mode, dim 2, 2 points). krige_var >= 0 for every variant and error mode, also as stored and as returned with post-processing; krige_var <= sill for simple / detrended kriging (nugget, scalar, per-point error, exact) from the ASSUMED fact k^T K k >= 0. The cond_err setter, set_condition and the constructors reject explicit measurement errors in exact mode (ValueError, value not stored), accept 'nugget', and non-exact objects store explicit errors / reject a wrong count.",
    "level_note": "category 'other': values are unbounded symbolic reals but shapes are enumerated (n <= 3 conditioning points, dim 1-2, dim 3 in the thorough tier; which point i: first and last) -- these obligations are reported BOUNDED, not proved; only the cond_err rejection obligations (no shape dependence beyond the error vector length) count as discharged. Assumed and logged: T5 inverse contract K.A = I for the non-singular system (natively checked per sampled instance); cor(0) = 1 (T8/C03); 'inverse of a positive definite matrix is positive definite: k^T K k >= 0' (T8/C02, natively checked per sampled instance) for the sill bound; denormalize(normalize(y)) = y for the generic normalizer (proved per class in C18). Exactness is stated for IDENTICAL positions (the 1e-8 coincidence window of cov_nugget is not exact interpolation) and, in exact mode, for conditioning points outside each other's window (non-singular system). NOT DECIDABLE with contracts and listed as residue: 'coincident conditioning points solved with the pseudo-inverse act as one point carrying their mean' is a statement about scipy.linalg.pinv (SVD cut-offs) on a singular matrix, for which no contract is available; ONE bounded native obligation (3 layouts, sampled positions / values, real pinv and compiled kernels) stands in and is reported bounded_ok, never as proved. Floats as reals (T1): the actual round-off of the returned value at a conditioning point (about 1e-12 natively) is not modelled.",
    "technique": "contract-based deductive verification: symbolic execution of the real Python methods, contract stubs for the matrix inverse and the compiled kernels, lemma chains with BY clauses and generalisation discharged by ring normal form / z3 / cvc5; native replay of failed obligations; one bounded native probe",
}
MODULES = ["contracts.c06"]


def run(rep, tier, seed, only=None):
    from gsvc import contract
    from props import C05
    C05._common(rep)
    rep.assume("T8/C02 (assumed): A = C + diag(err) positive definite for a positive definite model, hence k^T A^-1 k >= 0 "
               "(simple kriging variance bound); natively checked on every sampled instance")
    rep.assume("C18 round trip denormalize(normalize(y)) = y assumed at the evaluated point for the generic normalizer")
    rep.notes.append("residue: pseudo-inverse on coincident points -- bounded native obligation only "
                     "(Krige(pseudo_inv=True)/coincident-points-act-as-one-point-with-mean-value)")
    contract.standard_run(rep, "C06", MODULES, tier, seed, only)
    if tier == "thorough" and not only:
        from contracts import krige_common as kc
        kc.lean_obligations(rep, "C06")
    for o in rep.obls:
        if o.id.endswith("L2:K.k=e_i[variant=universal+ext,n=3,dim=2,mode=exact,i=0,norm=generic]") or \
                o.id.endswith("returned-field=conditioning-value[variant=simple,n=3,dim=1,mode=exact,i=2,norm=LogNormal]"):
            rep.sample(o.to_json())


def replay(path):
    from gsvc import contract
    return contract.standard_replay("C06", MODULES, path)
