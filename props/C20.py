"""C20 -- operations never modify caller arrays or previously stored results.

Decided by the `frames` engine (gsvc/frames.py): frame conditions (modifies / aliasing contracts,
frozen in contracts/frames.py) checked by a modular dataflow analysis over the real ast of the
current gstools sources; failed facts are replayed natively through the witness table
contracts/frames_witness.py; all native aliasing probes are additionally run on every run as the
stated bounded stand-in for the trusted numpy view/copy table."""
import json
import os
import sys
import time

LEVEL = "proof"
MANIFEST = {
    "engine": "frames",
    "category": "proof",
    "text": "every mutation site (augmented assignment, subscript/.flat/.mask store, out=, in-place "
            "method, np.put/copyto/...) and every call site of every function of the gstools package "
            "(plot front ends excluded) is shown to write only memory that is freshly allocated in "
            "the function or that the function's frozen frame contract allows; public entry points "
            "have the empty write set; stored arrays are never written; unbounded in array sizes, "
            "shapes, values and call sequences. Second clause (a result stored under a new name never "
            "replaces an older one): contract of Field.get_store_config (the single name-resolution "
            "function behind every storing entry point) against its documented table for 1-3 fields and "
            "every {True, False, name} entry combination, and store/transform call histories on the real "
            "Krige.__call__ / Field.__call__ / Field.transform with symbolic field values (symrun)",
    "level_note": "proof relative to the numpy view/copy table (trusted, cross-checked natively on "
                  "the aliasing layout) and to the assumption that user supplied callables and "
                  "external library objects do not write their arguments; kind annotations for a "
                  "handful of parameters are taken from the docstrings; container (dict/list) "
                  "mutations are outside the statement and only reported; the native probes are a "
                  "bounded stand-in and are never counted as discharged",
    "technique": "frame conditions (modifies / aliasing contracts) checked by modular dataflow over "
                 "the real ast; native aliasing probes as bounded stand-in for the numpy view/copy table; "
                 "symbolic execution of the real storing entry points against sidecar postconditions",
}

VERIF = os.path.dirname(os.path.dirname(os.path.abspath(__file__)))
PYTHON = os.path.join(VERIF, ".venv312", "bin", "python")
STORE_MODULES = ["contracts.c20_store"]

CANARY_SRC = '''
import numpy as np


def pub_inplace(x):
    y = np.asarray(x, dtype=np.double)
    y += 1.0
    return y


def _helper(x):
    x *= 2.0


def pub_calls_helper(a):
    b = np.atleast_1d(a)
    _helper(b)


def pub_ok(a):
    b = np.array(a, dtype=np.double)
    b += 1
    _helper(b)
    return b


class Box:
    def put(self, name, arr):
        setattr(self, name, arr)

    def get(self, name):
        return getattr(self, name)


def pub_stored(box):
    d = box.get("f")
    d -= 1.0


def pub_mask(f):
    f = np.ma.array(f, ndmin=1, dtype=np.double)
    f.mask = np.isnan(f)
    return f


def pub_escape(box, n):
    a = np.zeros(n)
    box.put("g", a)
    a[0] = 1.0
'''


def _canaries(rep, frames):
    """synthetic functions with known in-place writes pushed through the same pipeline"""
    from gsvc.frames_pkg import Package

    class Ann:
        PUBLIC = {"canary.py:" + n: "" for n in ("pub_inplace", "pub_calls_helper", "pub_ok",
                                                 "pub_stored", "pub_mask", "pub_escape")}
        KINDS = {}
        PARAM_CLASSES = {"box": "Box"}
        CONTRACTS = {}
    pkg = Package("", sources={"canary.py": CANARY_SRC})
    eng = frames.Engine(pkg, Ann, frozen={})
    eng.infer()
    eng.frozen = dict(eng.summaries)
    obls, _ = eng.check()
    failing = {o["id"] for o in obls if not o["holds"]}
    by_fn = {}
    for o in obls:
        by_fn.setdefault(o["id"].split("/")[0], []).append(o)
    must_fail = ["canary.pub_inplace", "canary.pub_calls_helper", "canary.pub_stored",
                 "canary.pub_mask", "canary.pub_escape"]
    for fn in must_fail:
        rep.canaries += 1
        if any(not o["holds"] for o in by_fn.get(fn, [])):
            rep.canaries_ok += 1
        else:
            rep.notes.append("CANARY PROVED: %s has a known in-place write but no obligation failed" % fn)
    # control: the copying variant must hold, the helper must hold *because of* its contract
    ctrl_ok = all(o["holds"] for o in by_fn.get("canary.pub_ok", [])) and \
        all(o["holds"] for o in by_fn.get("canary._helper", [])) and by_fn.get("canary._helper")
    if not ctrl_ok:
        rep.error("canary control failed: pub_ok / _helper should hold: %s"
                  % sorted(failing))
    # the contract modifies={x} of _helper must be needed: with an empty contract its site fails
    eng2 = frames.Engine(pkg, Ann, frozen={})
    eng2.infer()
    fz = json.loads(json.dumps(eng2.summaries))
    for c in fz["canary.py:_helper"]["cases"]:
        c["modifies"] = {}
    eng2.frozen = fz
    obls2, _ = eng2.check()
    rep.canaries += 1
    if any((not o["holds"]) and o["id"].startswith("canary._helper/") for o in obls2):
        rep.canaries_ok += 1
    else:
        rep.notes.append("CANARY PROVED: _helper without modifies contract still holds")


def _role(var):
    v = var.split("[")[0]
    if v.startswith(("stored_", "returned_")):
        return "<stored>"
    return v


def _load_witness():
    import importlib
    sys.path.insert(0, VERIF)
    W = importlib.import_module("contracts.frames_witness")
    return importlib.reload(W)


def run(rep, tier, seed, only=None):
    from gsvc import core, frames
    from gsvc.core import Obligation, DISCHARGED, FAILED, UNDECIDED, BOUNDED, ERROR
    from gsvc.frames_pkg import Package
    from gsvc.frames_probe import run_probes
    from gsvc import frames_tables as T

    t0 = time.time()
    rep.backend_cmd = "./check C20 --tier %s  (gsvc.frames dataflow fixpoint + native probes via %s)" % (
        tier, PYTHON)
    pkg = Package(core.SRC)
    for e in pkg.parse_errors:
        rep.error("cannot parse " + e)
    ann = frames.load_contract_file()
    for k in ann.PUBLIC:
        if k not in pkg.funcs:
            rep.error("public entry point %s (contracts/frames.py) not found in the current source" % k)
    eng = frames.Engine(pkg, ann)
    eng.infer()
    if not eng.converged:
        rep.error("frames fixpoint did not converge in %d rounds" % eng.rounds)
    obls, notes = eng.check()
    t_df = time.time() - t0
    reach = eng.public_reach()

    # ---------------------------------------------------------------- native probes
    W = _load_witness()
    probes = [p for p in W.PROBES if tier == "thorough" or p.get("tier", "quick") == "quick"]
    if tier == "thorough":
        # second pass over the whole table with another value stream (VERIF_SEED dependent)
        probes = probes + [dict(p, id=p["id"] + "@s2", seed=90001 + 7 * i + int(seed))
                           for i, p in enumerate(probes)]
    probes = probes + list(getattr(W, "TABLE_PROBES", [W.TABLE_PROBE]))
    canary_probe = {"id": "canary-native", "entry": "<canary>", "opts": "", "tier": "quick",
                    "setup": "x = A([1.0, 2.0, 3.0])\nm = np.ma.array(A([1.0, np.nan]), mask=[False, False])\n",
                    "call": "y = np.asarray(x, dtype=np.double); y += 1.0\nm2 = np.ma.array(m); m2.mask = np.isnan(m2)\n"}
    t1 = time.time()
    try:
        results = run_probes(probes + [canary_probe], core.SRC, PYTHON)
    except Exception as e:  # noqa
        rep.error("native probe harness failed: %s" % e)
        results = []
    t_pr = time.time() - t1
    res_by_id = {r["id"]: r for r in results}
    probe_by_id = {p["id"]: p for p in probes}
    rep.canaries += 1
    cn = res_by_id.get("canary-native")
    if cn and set(cn["changed"]) >= {"x", "m"}:
        rep.canaries_ok += 1
    else:
        rep.notes.append("CANARY PROVED: native harness did not see the known in-place write")
    changes = {}       # (entry, role) -> list of (probe id, var, rec)
    for r in results:
        if r["id"] == "canary-native":
            continue
        for var, rec in r["changed"].items():
            changes.setdefault((r["entry"], _role(var)), []).append((r["id"], var, rec))
            changes.setdefault((r["entry"], "*"), []).append((r["id"], var, rec))

    def witness_for(cands):
        for ent, role in cands:
            for key in ((ent, role), (ent, "*") if role in ("args", "kwargs", "*") else None):
                if key and key in changes:
                    pid, var, rec = changes[key][0]
                    p = probe_by_id[pid]
                    return {"entry": ent, "argument": var, "probe": pid, "options": p["opts"],
                            "before": rec["before"], "after": rec["after"],
                            "setup": p["setup"], "call": p["call"]}
        return None

    # ---------------------------------------------------------------- dataflow obligations
    failing = [o for o in obls if not o["holds"]]
    wit = {}
    own = set()
    for o in failing:
        cands = []
        if o["public"]:
            for b in o["bad"]:
                if isinstance(b, (list, tuple)):
                    continue
                if b.startswith("P:"):
                    cands.append((o["fn"], b[2:]))
                elif b.startswith(("S:", "G:")):
                    cands.append((o["fn"], "<stored>"))
        w = witness_for(cands)
        if w is not None:
            own.add(o["id"])
        else:
            more = []
            for r in o["roots"]:
                for ent, p in sorted(reach.get(r, ())):
                    more.append((ent, p))
            w = witness_for(more)
            cands = cands + more
        o["cands"] = cands
        if w is not None:
            wit[o["id"]] = w
    # same root reproduced through another entry point
    root_w = {}
    for o in failing:
        if o["id"] in wit:
            for r in o["roots"]:
                root_w.setdefault(r, wit[o["id"]])
    n_dis = 0
    for o in obls:
        oid = "C20/" + o["id"]
        if only and only not in oid:
            continue
        fns = [o["fn"]]
        if o["holds"]:
            rep.add(Obligation(oid, DISCHARGED, backend="dataflow", time_s=t_df / max(1, len(obls)),
                               functions=fns))
            n_dis += 1
            continue
        wclass = "root=" + ",".join(o["roots"])
        w = wit.get(o["id"])
        via = None
        if w is None:
            for r in o["roots"]:
                if r in root_w:
                    w = dict(root_w[r])
                    via = r
                    break
        if w is not None:
            w = dict(w)
            w["witness_class"] = wclass
            w["origins"] = [frames._pretty(b) for b in o["bad"]]
            w["this_path_reproduced"] = o["id"] in own
            if o["id"] not in own:
                via = via or ",".join(o["roots"])
                w["note"] = ("the write at root site %s is reproduced natively through entry %s; "
                             "this obligation is another dataflow path into the same write" % (via, w["entry"]))
            rep.add(Obligation(oid, FAILED, backend="dataflow", time_s=t_df / max(1, len(obls)),
                               detail=o["detail"], witness=w, functions=fns,
                               replay={"probe": {k: w[k] for k in ("setup", "call")},
                                       "probe_id": w["probe"], "expect_changed": w["argument"]}))
        else:
            rep.add(Obligation(oid, UNDECIDED, backend="dataflow", time_s=t_df / max(1, len(obls)),
                               detail=o["detail"] + " -- no native aliasing probe reproduces a content "
                               "change (candidates: %s)" % sorted(set(o.get("cands", [])))[:6],
                               witness={"witness_class": wclass,
                                        "origins": [frames._pretty(b) for b in o["bad"]]},
                               functions=fns, replay={"probe": None}))

    # ---------------------------------------------------------------- per function frame condition
    # (conjunction of the facts of the function; present for EVERY analysed function so that a
    #  site introduced by an edit is covered by an obligation that is in the ledger)
    per_fn = {}
    for ob in rep.obls:
        parts = ob.id.split("/")
        if len(parts) >= 3 and parts[0] == "C20" and parts[1] != "probe":
            per_fn.setdefault(parts[1], []).append(ob)
    for fi in sorted(pkg.funcs.values(), key=lambda f: f.key):
        if fi.relpath in eng.SKIP or fi.key in eng.SKIP_FN:
            continue
        oid = "C20/%s/frame" % fi.oblname
        if only and only not in oid:
            continue
        facts = per_fn.get(fi.oblname, [])
        bad_f = [x for x in facts if x.status == FAILED]
        und_f = [x for x in facts if x.status == UNDECIDED]
        if bad_f:
            rep.add(Obligation(oid, FAILED, backend="dataflow", detail="%d of %d facts fail: %s; first: %s"
                               % (len(bad_f), len(facts), [x.id for x in bad_f][:6], bad_f[0].detail),
                               witness=bad_f[0].witness, functions=[fi.key], replay=bad_f[0].replay))
        elif und_f:
            rep.add(Obligation(oid, UNDECIDED, backend="dataflow", detail="%d of %d facts fail without native "
                               "witness: %s; first: %s" % (len(und_f), len(facts), [x.id for x in und_f][:6],
                                                            und_f[0].detail),
                               witness=und_f[0].witness, functions=[fi.key], replay={"probe": None}))
        else:
            rep.add(Obligation(oid, DISCHARGED, backend="dataflow", functions=[fi.key],
                               detail="" if facts else "no mutation site, no effectful call"))

    # ---------------------------------------------------------------- vacuous: ledger sites that vanished
    led_path = os.path.join(VERIF, "ledger", "C20.json")
    have = {ob.id for ob in rep.obls}
    vac = 0
    if os.path.exists(led_path) and not only:
        led = json.load(open(led_path))
        by_obl = {f.oblname: f for f in pkg.funcs.values()}
        pub_obl = {k.split(":")[0][:-3].replace("/", ".") + "." + k.split(":")[1] for k in ann.PUBLIC}
        for lid in led.get("discharged", []):
            if lid in have or lid.startswith("C20/probe/"):
                continue
            parts = lid.split("/")
            if len(parts) < 3:
                continue
            fn = parts[1]
            fi = by_obl.get(fn)
            if fi is None and fn in pub_obl:
                continue            # a public entry point disappeared: genuine checker error
            if parts[2] == "frame" and fi is not None:
                continue
            rep.add(Obligation(lid, DISCHARGED, backend="dataflow",
                               detail="vacuous: the mutation / call site of this obligation no longer "
                                      "exists in the current source (%s %s)"
                                      % (fn, "still analysed" if fi is not None else "private helper removed"),
                               functions=[fi.key] if fi is not None else []))
            vac += 1

    # ---------------------------------------------------------------- probes as bounded obligations
    entries = sorted({p["entry"] for p in probes})
    roles = set()
    for r in results:
        for v in r["tracked"]:
            roles.add((r["entry"], _role(v)))
    bound = ("native aliasing probes, %d probes over %d entry points x %d (entry, role) pairs; float64 "
             "C-contiguous target-shape layouts, option combinations of contracts/frames_witness.py"
             % (len(probes), len(entries), len(roles)))
    skipped2 = []
    predicted = set()
    for o in failing:
        for c in o.get("cands", []):
            predicted.add(c[0])
    for p in probes:
        oid = "C20/probe/" + p["id"]
        if only and only not in oid:
            continue
        r = res_by_id.get(p["id"])
        fns = [p["entry"]] if ":" in p["entry"] else []
        if r is None:
            rep.add(Obligation(oid, ERROR, backend="native", detail="probe not executed", functions=fns))
            continue
        if r["error"] and not r["changed"] and p["id"].endswith("@s2"):
            skipped2.append(p["id"])      # value-dependent failure of the call itself (e.g. optimiser)
            continue
        if r["error"] and not r["changed"]:
            st = FAILED if p["entry"] == "<alias-table>" else UNDECIDED
            rep.add(Obligation(oid, st, backend="native", time_s=t_pr / max(1, len(probes)),
                               detail="native probe raised: " + r["error"],
                               witness={"witness_class": "probe-error", "probe": p["id"]},
                               bound=bound, functions=fns, replay={"probe": None}))
            continue
        if r["changed"]:
            var = sorted(r["changed"])[0]
            rec = r["changed"][var]
            roots = sorted({rt for o in failing for rt in o["roots"]
                            if any(c[0] == p["entry"] for c in o.get("cands", []))})
            w = {"entry": p["entry"], "argument": var, "probe": p["id"], "options": p["opts"],
                 "before": rec["before"], "after": rec["after"], "all_changed": sorted(r["changed"]),
                 "setup": p["setup"], "call": p["call"],
                 "witness_class": "root=" + ",".join(roots) if roots else "native-only"}
            det = ("native probe %s: %s of %s changed by the call" % (p["id"], sorted(r["changed"]), p["entry"]))
            if p["entry"] not in predicted:
                det += " -- NOT predicted by any failed dataflow fact (alias table / engine gap)"
                rep.notes.append(det)
            rep.add(Obligation(oid, FAILED, backend="native", time_s=t_pr / max(1, len(probes)),
                               detail=det + "; " + w["witness_class"], witness=w, bound=bound, functions=fns,
                               replay={"probe": {"setup": p["setup"], "call": p["call"]},
                                       "probe_id": p["id"], "expect_changed": var}))
        else:
            rep.add(Obligation(oid, BOUNDED, backend="native", time_s=t_pr / max(1, len(probes)),
                               bound=bound, functions=fns))

    # ---------------------------------------------------------------- canaries, trust, notes
    _canaries(rep, frames)
    from gsvc.frames_selftest import run_micro
    n_mf, n_ok, missed, false_alarms = run_micro(frames)
    rep.canaries += n_mf
    rep.canaries_ok += n_ok
    if missed:
        rep.notes.append("CANARY PROVED (transfer-function self test): %s" % missed)
    if false_alarms:
        rep.error("transfer-function self test: look-alikes that only write fresh memory are flagged: %s"
                  % false_alarms)
    rep.trust("T3b numpy view/copy table %s (gsvc/frames_tables.py): which numpy / scipy operations may "
              "return a view of their argument and which allocate; cross-checked on every run by the "
              "alias-table probe (np.shares_memory on float64 C-contiguous arrays)" % T.TABLE_VERSION)
    rep.trust("python semantics of augmented assignment / subscript store on ndarray and MaskedArray "
              "(in place), MaskedArray.mask setter writes the (possibly shared) mask buffer")
    rep.trust("the frames abstract interpreter itself (gsvc/frames*.py), validated by the must-fail "
              "canaries and the mutation corpus of contracts/frames_validation.md, not proved")
    rep.trust("compiled kernels write only memoryviews not declared const in the .pyx signature "
              "(read from the .pyx on every run): %s" % sorted(eng.kernels))
    for n in eng.kernel_notes:
        rep.notes.append(n)
    rep.assume("user supplied callables (mean / trend / drift functions, transform functions, pseudo "
               "inverse, weights, custom generators / normalizer subclasses outside the package) do not "
               "write their array arguments and return newly allocated arrays")
    rep.assume("methods of external library objects (scipy.optimize / scipy.linalg / scipy.spatial / "
               "hankel / emcee / numpy.random.RandomState / meshio) do not write the arrays passed to them")
    rep.assume("kind annotations of contracts/frames.py:KINDS (documented parameter types): %s"
               % json.dumps(ann.KINDS, sort_keys=True))
    rep.assume("parameter naming convention PARAM_CLASSES for method resolution: %s"
               % json.dumps(ann.PARAM_CLASSES, sort_keys=True))
    rep.assume("dynamically named attributes (setattr(self, name, ...)) do not collide with the fixed "
               "private attributes of the classes (Field.post_field rejects such names)")
    rep.assume("optional rust back end gstools_core (not installed) has the frame contract of the "
               "cython kernels")
    rep.assume("plot / export front ends (field/plot.py, covmodel/plot.py, Field.plot, CovModel.plot, "
               "Field.to_pyvista, Field.vtk_export) are outside the property")
    callsites = sorted({"%s: %s" % (k, t) for k, ts in getattr(eng, "assumed", {}).items() for t in ts})
    rep.inlined.update(sorted(eng.inlined))
    seen = set()
    for n in notes:
        if n not in seen and len(seen) < 80:
            seen.add(n)
            rep.notes.append(n)
    pub_with_probe = {p["entry"] for p in probes} | {e for p in probes for e in p.get("also", ())}
    uncovered = sorted(k for k in ann.PUBLIC if k not in pub_with_probe)
    rep.extra.update({
        "dataflow": {"functions_analysed": len(pkg.funcs), "fixpoint_rounds": eng.rounds,
                     "frozen_contracts": len(eng.frozen), "public_entries": len(ann.PUBLIC),
                     "mutation_or_call_facts": len(obls), "facts_failing": len(failing),
                     "vacuous_ledger_sites": vac, "dataflow_s": round(t_df, 2), "probes_s": round(t_pr, 2)},
        "probes": {"run": len(probes), "entries": len(entries), "entry_role_pairs": len(roles),
                   "with_change": sum(1 for r in results if r["changed"] and r["id"] != "canary-native"),
                   "errors": sum(1 for r in results if r["error"]),
                   "second_pass_skipped_call_raised": skipped2,
                   "public_entries_without_own_probe": uncovered},
        "assumed_pure_callable_sites": callsites,
        "kind_annotations": ann.KINDS,
    })
    rep.explanation = ("frames: %d functions, %d dataflow facts (%d fail), %d native probes"
                       % (len(pkg.funcs), len(obls), len(failing), len(probes)))
    shown = 0
    for o in failing[:2] + [x for x in obls if x["holds"]][:2]:
        rep.sample({"obligation": "C20/" + o["id"], "holds": o["holds"], "function": o["fn"],
                    "line": o["line"], "fact": o["why"], "bad_origins": o["bad"], "roots": o["roots"]})
        shown += 1
    if probes:
        rep.sample({"probe": probes[0]})
    # ---------------------------------------------------------------- name resolution of stored results
    # (second clause of the statement: a result stored under a NEW name never replaces an older one)
    from gsvc import contract
    expl = rep.explanation
    contract.standard_run(rep, "C20", STORE_MODULES, tier, seed, only)
    rep.explanation = expl + "; plus symrun contracts on Field.get_store_config and store/transform histories"


def replay(path):
    """re-run the native witness of a replay file on the current tree: 1 if it still reproduces"""
    sys.path.insert(0, VERIF)
    from gsvc import core
    from gsvc.frames_probe import run_probes
    data = json.load(open(path))
    rp = data.get("replay") or {}
    if "contract" in rp:
        from gsvc import contract
        return contract.standard_replay("C20", STORE_MODULES, path)
    pr = rp.get("probe")
    if not pr:
        print("replay: no native witness recorded for %s (dataflow path only)" % data.get("obligation"))
        return 0
    probe = {"id": rp.get("probe_id", "replay"), "entry": "<replay>", "opts": "",
             "setup": pr["setup"], "call": pr["call"]}
    res = run_probes([probe], core.SRC, PYTHON)[0]
    want = rp.get("expect_changed")
    if res["error"]:
        print("replay: probe raised: " + res["error"])
        return 0
    if res["changed"] and (want in res["changed"] or not want):
        rec = res["changed"].get(want) or list(res["changed"].values())[0]
        print("replay: REPRODUCED %s changed: before=%s after=%s" % (want, rec["before"], rec["after"]))
        return 1
    if res["changed"]:
        print("replay: other arrays changed: %s" % sorted(res["changed"]))
        return 1
    print("replay: not reproduced")
    return 0
