LEVEL = "proof"
MANIFEST = {
    "engine": "symrun+frames",
    "category": "proof",
    "text": "TODO",
    "level_note": "TODO",
    "technique": "contract-based deductive verification: symbolic execution of the real Python methods against sidecar postconditions from the docstrings, VCs discharged by z3/cvc5; write/read-set facts by dataflow over the real ast",
}
MODULES = ["contracts.c07"]


def run(rep, tier, seed, only=None):
    from gsvc import contract
    if only and only.startswith("frames"):      # debug filter: dataflow facts only
        import gstools  # noqa: F401
        from gsvc import symrun
        symrun.install_shims()
    else:
        contract.standard_run(rep, "C07", MODULES, tier, seed, only)
    from contracts import c07
    c07.frame_obligations(rep, only)


def replay(path):
    from gsvc import contract
    return contract.standard_replay("C07", MODULES, path)
