LEVEL = "proof"
MANIFEST = {
    "engine": "symrun+frames",
    "category": "proof",
    "text": "Cache coherence of conditioned random fields as a representation invariant, for ALL values (model parameters, conditioning positions and values, means, trends, target positions, seeds are symbolic reals): for every public mutator of the kriging setup -- a new seed, set_pos / new target positions / another mesh type, Krige.set_condition with new values, new positions, fewer points or a new measurement error, model re-assignment on CondSRF and on its Krige (with and without the documented refresh), in-place model parameter changes followed by the documented refresh set_condition(), mean / trend / normalizer re-assignment on CondSRF and on its Krige, set_drift_functions followed by the refresh, and a direct call of the public Krige object between two generations -- started from a never-called object and from an object with filled caches, with the positions passed again or reused, the REAL CondSRF.__call__ ends in exactly the view a freshly built CondSRF with the resulting settings has after its first call: returned field, every stored field of CondSRF and of its Krige, the inverted kriging matrix, isometrised condition positions, conditions, positions, and the generator state including the position in the random stream. Since the whole view is compared, all finite call histories follow by induction. Complemented by dataflow facts over the real ast (gsvc.frames assigns/reads): every public mutator whose write set meets the read set of Krige.__call__ deletes the stored fields (or only forwards to one that does, or writes only attributes that the documented refresh re-reads). The conditioning formula is proved on the real code: raw = raw_krige + sqrt(krige_var/var) * raw_field for nugget 0 and the nugget split raw_krige + sqrt(max(krige_var-n,0)/var) * raw_field + sqrt(min(krige_var,n)/n) * sqrt(n) * xi otherwise, where raw_krige / krige_var are what the Krige object alone returns, raw_field (+ noise) is the unconditional SRF field of the same seed, the variance of the random part is exactly krige_var, and krige_var = 0 implies field = kriging estimate for every seed; under the assumed inverse contract inv(A).A = I the field equals the conditioning values at the conditioning locations (nugget 0, or exact=True with nugget > 0) for simple, ordinary, universal, detrended and external-drift kriging. Added after the seeding rounds: a refresh keeps an explicit cond_err; data honouring through mean + trend + nonlinear normalizer; mesh-type switch in 2-D; delete_fields removes every selected stored field; native histories 'caller edits its position array in place' (F26 repaired) and 'raw kriging field stored under custom names' (F27 repaired). Also: another external drift passed with a repeated generation is used (F28 repaired) and the kriging object owns copies of its conditions, external drift and measurement errors (F29 repaired).",
    "level_note": "Enumerated (not symbolic) are only shapes and flags: kriging variant in {simple, ordinary} (quick) plus {universal(linear drift), detrended(callable trend), external drift} (thorough), model dimension 1 (quick) and 2 with symbolic anisotropy and rotation (thorough), 2 conditioning points (1 after 'fewer'), 2 target points (1-2 symbolic ones in the formula obligations), RandMeth with 2 modes, pre-state in {never called, called once with default storage} (thorough: also called without storing, called twice), next call in {positions passed again, positions reused}; the cache logic under proof does not depend on array sizes, the coherence obligations are therefore counted as discharged with this enumeration stated, while the conditioning-formula and data-honouring obligations (pointwise numpy code, 1-2 targets, n <= 2 conditioning points) are reported BOUNDED. Generic model: a user CovModel subclass with uninterpreted normalised correlation (hint cor(0) = 1 only in the data-honouring obligations) so the result holds for every model class; generic normalizer with uninterpreted transform pair. Stubs in symbolic runs (natively the real code runs, every obligation is also spot-checked natively): the (pseudo) inverse is an uninterpreted function of the matrix entries (T5: deterministic in its argument); compiled krigesum kernels -> their C15 postconditions; scipy cdist -> sqrt(sum (a-b)^2); random draws are ghost terms of (seed value, sub-stream index, element index) (T5, as in C11). Readings: 'positions unchanged' is the code's own test (exact equality since fix 10bf78d; the contract also passes positions inside the former np.allclose window and they now discharge); a model change is 'a change' when it exceeds the np.isclose window of CovModel.__eq__ (inside the window the generator keeps its model copy: open finding F15, 18 obligations kept failing); with nugget > 0 a repeated call with the SAME seed draws the next nugget noise by design, so those histories pass a new seed. NOT decided: the limit statement 'tends to mean + unconditional field far from the data' (krige_var -> sill, raw_krige -> 0 as distance -> infinity; needs decay of the model's correlation, a limit, residue); accuracy of scipy's pinv (T5); floats as reals (T1: natively sqrt(krige_var) amplifies the O(1e-16) rounding error of krige_var at data locations to O(1e-8)). The direct call of cs.krige(...) at new positions between two generations (former finding F23) is repaired in /repo (f6c8b0b) and its obligations discharge. Not an obligation: assigning cs.pos / cs.mesh_type directly (the primitives set_pos itself uses) does not invalidate stored fields.",
    "technique": "contract-based deductive verification: symbolic execution of the real Python methods against sidecar postconditions from the docstrings, VCs discharged by z3/cvc5; write/read-set facts by dataflow over the real ast",
}
MODULES = ["contracts.c07", "contracts.c07_extra"]


def run(rep, tier, seed, only=None):
    from gsvc import contract
    rep.stubs.add("gstools.krige.base.P_INV / scipy.linalg.inv -> uninterpreted function of the matrix entries in symbolic runs (T5: deterministic in its argument); the assumed postcondition inv(A).A = I is used only in CondSRF.__call__/honours-conditioning-values")
    rep.stubs.add("compiled kernels krigesum.calc_field_krige(_and_variance) -> C15 postconditions as spec functions; summate -> C15 postcondition (gen_common)")
    rep.stubs.add("gstools.krige.base.cdist -> sqrt(sum (a-b)^2) on symbolic positions")
    rep.stubs.add("gstools.field.generator.RNG -> ghost RNG (T5: deterministic in seed value and draw count)")
    rep.stubs.add("generic CovModel subclass with uninterpreted normalised correlation `ucor`; generic Normalizer with uninterpreted transform pair")
    rep.assume("T5: scipy pinv/pinvh/inv are deterministic functions of their argument; inv(A).A = I for the non-singular kriging matrix (data-honouring obligations only)")
    rep.assume("contract of CovModel.cor: normalised correlation, cor(0) = 1 (data-honouring obligations only)")
    rep.assume("residue: the far-field limit (field -> mean + unconditional field under simple kriging) is a limit statement and not an obligation")
    rep.assume("enumeration: variants simple/ordinary (+universal/detrended/extdrift thorough), dim 1 (+2 thorough), 2 conditioning points, 2 targets, pre-states never-called/called (+unstored/twice thorough), next call with/without positions")
    if only and only.startswith("frames"):      # debug filter: dataflow facts only
        import gstools  # noqa: F401
        from gsvc import symrun
        symrun.install_shims()
    else:
        contract.standard_run(rep, "C07", MODULES, tier, seed, only)
    from contracts import c07
    c07.frame_obligations(rep, only)
    rep.explanation = ("One obligation = one named proof obligation: a solver query generated by symbolic execution of the real "
                       "CondSRF / Krige / Field methods (symrun), or one write-set/read-set fact over the real ast (dataflow). "
                       "Coherence obligations compare the whole view after 'mutator; call' with the view of a freshly built "
                       "object; BOUNDED = conditioning formula / data honouring on 1-2 targets and <= 2 conditioning points.")


def replay(path):
    import json
    data = json.load(open(path))
    rp = data.get("replay") or {}
    if rp.get("native_probe"):
        import gstools  # noqa: F401
        from gsvc import symrun
        symrun.install_shims()
        from contracts import c07
        w = c07.native_probe(rp["native_probe"])
        print("replay %s -> %s" % (data.get("obligation"), w or "history ends in the field of a fresh object"))
        if w:
            print("VIOLATION property=C07 replay=%s" % path)
            return 1
        return 0
    from gsvc import contract
    return contract.standard_replay("C07", MODULES, path)
