LEVEL = "proof"
MANIFEST = {
    "engine": "symrun",
    "category": "proof",
    "text": "tbd",
    "level_note": "tbd",
    "technique": "contract-based deductive verification: symbolic execution of the real Python methods against sidecar postconditions from the docstrings, VCs discharged by z3/cvc5 with instantiated axiom hints",
}
MODULES = ["contracts.c18"]


def run(rep, tier, seed, only=None):
    from gsvc import contract
    contract.standard_run(rep, "C18", MODULES, tier, seed, only)


def replay(path):
    from gsvc import contract
    return contract.standard_replay("C18", MODULES, path)
