LEVEL = "proof"
MANIFEST = {
    "engine": "symrun",
    "category": "proof",
    "text": "Postconditions on the real normalizer classes (LogNormal, BoxCox, BoxCoxShift, YeoJohnson, Modulus, Manly) for ALL data values and ALL parameter values (symbolic reals) in each documented case (lambda negative / positive / in the code's tolerance window around the special values 0 and 2): _normalize, _denormalize equal the formulas of the class docstrings; _derivative equals the calculus derivative (hand formula and mechanical differentiation of the extracted term of the real _normalize) and is positive; x1 < x2 implies normalize(x1) < normalize(x2); denormalize(normalize(x)) = x on the input range and the converse on the output range; normalize maps the input range into the declared denormalize_range (fails for Manly, lambda < 0: finding F8); the public methods return NaN exactly for out-of-range entries; loglikelihood equals the profile normal log-likelihood of the transformed data and fit hands exactly its negative kernel to the optimiser and stores/returns the optimiser's result; apply_mean_norm_trend = trend + denormalize(mean + field), remove_trend_norm_mean inverts it, Field.post_field uses the field's own mean/normalizer/trend (scalar/vector fields, constant/callable mean and trend, both mesh types; fails for a structured n x n grid with n = 2 through the shape check of apply_mean_norm_trend); kriging conditions enter the system as normalize(value - trend) - mean and Simple.get_mean returns denormalize(mean). Added after the seeding rounds: fit_normalizer fits the DETRENDED field; the log-likelihood of data with NaN entries is that of the valid values (sample size = number of valid values)."
            " Round 7: a normalizer class handed over twice gives two independent default instances."
            " The valid range of denormalize is the image of the documented transform also for YeoJohnson and Modulus (F49 repaired; the contract no longer assumes invertibility there).",
    "level_note": "values and parameters are unbounded (symbolic); obligations whose code is shape dependent (log-likelihood n<=3 data points, _check_input masks with 2 entries, pipeline on 1-6 cells in dim 2, fit objective with 2 data points, kriging conditions with 2 points) are reported BOUNDED, NaN inputs are covered by native probes (BOUNDED) because NaN is not a real; pointwise obligations on 1-element arrays count as proved (numpy elementwise semantics, T2). floats as reals (T1): the documented special cases lambda = 0 / 2 are identified with the code's np.isclose windows for transform/inverse/ranges, while derivative and log-likelihood are stated at lambda = 0, 2 exactly and outside the windows (inside the window, 0 < |lambda| <= 1e-8, the code's derivative differs from the derivative of the limit formula by the factor x^lambda: residue); the log-likelihood is stated where the derivative is >= 1e-16 (the code's guard log(max(1e-16, y'))). pow/exp/log are uninterpreted with instantiated textbook facts (T4: (x^a)^(1/a) = x, x^a vs 1, derivative table). NOT decided: that scipy's optimiser in Normalizer.fit finds the maximiser of the log-likelihood (T5 residue); that a positive derivative on an interval implies strict monotonicity is used only as a cross-check (monotonicity is also proved directly on two points). The converse round trip for YeoJohnson and Modulus is stated on the image of the transform, which is smaller than their declared denormalize_range (all reals) for lambda < 0 or lambda > 2.",
    "technique": "contract-based deductive verification: symbolic execution of the real Python methods against sidecar postconditions from the docstrings, VCs discharged by z3/cvc5 with instantiated axiom hints",
}
MODULES = ["contracts.c18"]


def run(rep, tier, seed, only=None):
    from gsvc import contract
    rep.stubs.add("scipy.optimize in normalizer.base.Normalizer.fit -> captured objective, havoc result (optimiser accuracy: residue)")
    rep.stubs.add("krige.base.P_INV (pseudo inverse) -> identity stub inside the Krige._krige_cond contract (the kriging matrix is not used there)")
    rep.stubs.add("generic normalizer: _normalize/_denormalize uninterpreted (un/udn) with the round-trip contract un(udn(z)) = z assumed at the evaluated points (proved per class in methods._normalize/converse-round-trip)")
    rep.assume("T5 residue: Normalizer.fit returns what scipy.optimize.minimize(_scalar) returns; that this is the maximiser is not decided")
    rep.assume("T1: np.isclose(lmbda, 0 / 2) windows are read as the documented special cases lambda = 0 / 2")
    if only and only.startswith("native"):      # debug filter: native probes only
        import gstools  # noqa: F401
        from gsvc import symrun
        symrun.install_shims()
    else:
        contract.standard_run(rep, "C18", MODULES, tier, seed, only)
    from contracts import c18
    c18.native_probes(rep, only)


def replay(path):
    import importlib
    import gstools  # noqa: F401
    from gsvc import symrun
    symrun.install_shims()
    c18 = importlib.import_module("contracts.c18")
    return c18.replay_file("C18", path, native=c18.replay_native_probe)
