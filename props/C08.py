"""C08 -- empirical variogram estimates equal their mathematical definition.

Proof part (kernvc): postconditions of estimator.pyx (unstructured / directional / structured /
ma_structured + helpers) against the pair-enumeration definition (contracts/kernels.py).
``directional`` is verified against the DEFINITION-level contract (a pair belongs to direction d iff
it passes the direction test for d); the code's first-match ``break`` is justified by the lemma
"separated directions => at most one direction passes for a non-zero pair vector" (precondition);
the zero-vector case is a separate obligation (finding F12).
Bounded part (natively, never counted as proved): the Python wrappers vario_estimate /
vario_estimate_axis agree with a brute-force enumeration written from the documented formulas.
"""
LEVEL = "proof"
MANIFEST = {
    "engine": "kernvc",
    "category": "proof",
    "text": "The estimator kernels of variogram/estimator.pyx are verified for all point sets, numbers of "
            "fields, missing values (NaN flags), bin edges, both estimators, both distances and all direction "
            "settings against the definition: counts[i] = number of (pair, field) combinations with j<k, "
            "edges[i] <= dist(j,k) < edges[i+1] (half-open), both values present (and the pair passing the "
            "direction test incl. bandwidth with the two documented conventions); variogram[i] = Matheron "
            "S/(2N) or Cressie-Hawkins 0.5 (S/N)^4/(0.457+0.494/N+0.045/N^2) of the corresponding sum; "
            "along-axis estimator with and without masks. Nested-sum loop invariants, helper contracts "
            "(dist_euclid, dist_haversine, dir_test, estimators, normalisations, function-pointer selectors), "
            "discharged by z3 for unbounded sizes.",
    "level_note": "Over the reals with NaN flags (T1): exact ties of a floating-point distance with a bin edge "
                  "are decided as in real arithmetic. The lemma 'directions pairwise >= 2*tol apart => at most "
                  "one direction passes for a non-zero pair vector' is ASSUMED (precondition of the directional "
                  "contract when separate_dirs is set), not proved; for zero pair vectors it is false and the "
                  "corresponding obligation fails (F12). Memory safety / thread independence of the same "
                  "kernels are C15. The Python wrappers vario_estimate(return_counts=True) and "
                  "vario_estimate_axis are compared with an independent brute-force enumeration only on "
                  "seed-driven small inputs (bounded obligations, not counted as proved); their preprocessing "
                  "contract is C09.",
    "technique": "contract-based deductive verification of the lowered Cython source (kernvc: loop invariants "
                 "over recursive spec sums, modular helper contracts, SMT with z3/cvc5) + bounded native "
                 "comparison of the Python wrappers against a brute-force definition",
}

import math


# ------------------------------------------------------------------------------------------------
# brute-force definitions (documented formulas; independent of the kernel contracts)
# ------------------------------------------------------------------------------------------------
def _est(kind, d):
    return d * d if kind == "matheron" else math.sqrt(abs(d))


def _norm(kind, s, c):
    c = max(c, 1)
    if kind == "matheron":
        return s / (2.0 * c)
    return 0.5 * (s / c) ** 4 / (0.457 + 0.494 / c + 0.045 / c ** 2)


def _dist(p, q, latlon):
    if not latlon:
        return math.sqrt(sum((a - b) ** 2 for a, b in zip(p, q)))
    la1, lo1, la2, lo2 = map(math.radians, (p[0], p[1], q[0], q[1]))
    a = math.sin((la2 - la1) / 2) ** 2 + math.cos(la1) * math.cos(la2) * math.sin((lo2 - lo1) / 2) ** 2
    return 2.0 * math.atan2(math.sqrt(a), math.sqrt(1.0 - a))


def _in_dir(v, u, tol, bw):
    nv = math.sqrt(sum(x * x for x in v))
    s = sum(x * y for x, y in zip(v, u))
    if bw is not None and bw > 0:
        perp = math.sqrt(sum((x - s * y) ** 2 for x, y in zip(v, u)))
        if not perp < bw:
            return False
    if nv > 0:
        c = abs(s) / nv
        if c < 1.0 and not math.acos(c) < tol:
            return False
    return True


def brute_unstructured(pos, fields, edges, kind, latlon=False, dirs=None, tol=None, bw=None):
    import numpy as np
    n = pos.shape[1]
    nb = len(edges) - 1
    nd = 1 if dirs is None else len(dirs)
    S = np.zeros((nd, nb))
    C = np.zeros((nd, nb), dtype=int)
    margin = float("inf")
    for j in range(n):
        for k in range(j + 1, n):
            d = _dist(pos[:, j], pos[:, k], latlon)
            margin = min(margin, min(abs(d - e) for e in edges))
            for i in range(nb):
                if not (edges[i] <= d < edges[i + 1]):
                    continue
                for di in range(nd):
                    if dirs is not None and not _in_dir(pos[:, k] - pos[:, j], dirs[di], tol, bw):
                        continue
                    for m in range(fields.shape[0]):
                        a, b = fields[m, j], fields[m, k]
                        if a != a or b != b:
                            continue
                        C[di, i] += 1
                        S[di, i] += _est(kind, b - a)
    G = np.array([[_norm(kind, S[d, i], C[d, i]) for i in range(nb)] for d in range(nd)])
    return G, C, margin


def brute_axis(f, mask, kind):
    """f: (n, J) along-axis first; mask True = missing"""
    import numpy as np
    n = f.shape[0]
    out = np.zeros(max(n, 0))
    for k in range(1, n):
        s, c = 0.0, 0
        for i in range(n - k):
            for j in range(f.shape[1]):
                if mask is not None and (mask[i, j] or mask[i + k, j]):
                    continue
                s += _est(kind, f[i, j] - f[i + k, j])
                c += 1
        out[k] = _norm(kind, s, c)
    return out


# ------------------------------------------------------------------------------------------------
def _wrappers(rep, tier, seed):
    import sys
    import time
    import numpy as np
    from gsvc import core
    if core.SRC not in sys.path:
        sys.path.insert(0, core.SRC)
    for m in [m for m in sys.modules if m == "gstools" or m.startswith("gstools.")]:
        if not getattr(sys.modules[m], "__file__", "").startswith(core.SRC):
            del sys.modules[m]
    import gstools as gs
    from gstools.variogram import vario_estimate, vario_estimate_axis
    ncase = 40 if tier == "quick" else 300
    rng0 = np.random.default_rng([seed, 808])
    RT = 1e-9

    def close(a, b):
        a, b = np.asarray(a, float), np.asarray(b, float)
        return a.shape == b.shape and bool(np.all(np.abs(a - b) <= 1e-12 + RT * np.maximum(np.abs(a), np.abs(b))))

    def points(rng, dim, n, lattice):
        hi = 5 if 5 ** dim >= 3 * n else 3 * n
        while True:
            p = rng.integers(0, hi, size=(dim, n)).astype(float) if lattice else rng.normal(size=(dim, n))
            if n < 2 or len({tuple(c) for c in p.T}) == n:
                return p

    def edges(rng, lattice, scale=1.0):
        nb = int(rng.integers(1, 5))
        st = rng.integers(1, 3, size=nb).astype(float) if lattice else rng.uniform(0.3, 1.2, size=nb)
        first = 0.0 if rng.random() < 0.7 else (1.0 if lattice else 0.37)
        return np.concatenate([[first], first + np.cumsum(st)]) * scale

    families = {}

    def fam_unstructured(rng, multi):
        dim = int(rng.integers(1, 4))
        n = int(rng.integers(2, 9))
        lattice = rng.random() < 0.5
        pos = points(rng, dim, n, lattice)
        F = int(rng.integers(2, 4)) if multi else 1
        fld = rng.normal(size=(F, n))
        kw = {}
        if multi:
            miss = rng.random((F, n)) < 0.25
            mode = int(rng.integers(0, 3))
            if mode == 0:
                fld[miss] = np.nan
                call_field = fld.copy()
            elif mode == 1:
                call_field = np.ma.array(fld.copy(), mask=miss)
                fld = fld.copy()
                # documented: points masked in ALL fields are dropped, remaining masked values are missing
                fld[miss] = np.nan
            else:
                fld[miss] = -999.0
                call_field = fld.copy()
                kw["no_data"] = -999.0
                fld = fld.copy()
                fld[miss] = np.nan
        else:
            call_field = fld[0].copy()
        e = edges(rng, lattice)
        kind = ["matheron", "cressie"][int(rng.integers(0, 2))]
        G, C, margin = brute_unstructured(pos, fld, e, kind)
        if not lattice and margin < 1e-7:
            return None
        bc, g, c = vario_estimate(pos.copy(), call_field, e.copy(), estimator=kind, return_counts=True, **kw)
        ok = close(g, G[0]) and np.array_equal(np.asarray(c), C[0]) and close(bc, (e[:-1] + e[1:]) / 2)
        return ok, {"pos": pos, "field": fld, "bin_edges": e, "estimator": kind, "kw": kw}, (G[0], C[0]), (g, c)

    def fam_latlon(rng):
        n = int(rng.integers(2, 8))
        pos = np.vstack([rng.uniform(-70, 70, size=n), rng.uniform(-170, 170, size=n)])
        fld = rng.normal(size=n)
        scale = [1.0, 6371.0][int(rng.integers(0, 2))]
        e = edges(rng, False, 0.6)
        kind = ["matheron", "cressie"][int(rng.integers(0, 2))]
        G, C, margin = brute_unstructured(pos, fld[None, :], e, kind, latlon=True)
        if margin < 1e-7:
            return None
        bc, g, c = vario_estimate(pos.copy(), fld.copy(), (e * scale).copy(), estimator=kind, latlon=True,
                                  geo_scale=scale, return_counts=True)
        ok = close(g, G[0]) and np.array_equal(np.asarray(c), C[0])
        return ok, {"pos": pos, "field": fld, "bin_edges": e * scale, "geo_scale": scale, "estimator": kind}, \
            (G[0], C[0]), (g, c)

    def fam_masks_explicit(rng, latlon, encoding):
        """>= 2 fields with per-field missing values that differ between fields, combined with an explicit
        `mask=` array.  Definition: a (point, field) value that is missing counts as NaN for that field only;
        a point is removed only if it is masked by the explicit mask or (masked arrays) masked in ALL fields."""
        n = int(rng.integers(3, 9))
        F = int(rng.integers(2, 4))
        if latlon:
            dim = 2
            pos = np.vstack([rng.uniform(-70, 70, size=n), rng.uniform(-170, 170, size=n)])
            e = edges(rng, False, 0.6)
            lattice = False
        else:
            dim = int(rng.integers(1, 4))
            lattice = rng.random() < 0.5
            pos = points(rng, dim, n, lattice)
            e = edges(rng, lattice)
        vals = rng.normal(size=(F, n))
        pmask = rng.random(n) < 0.3
        if pmask.all():
            pmask[0] = False
        if not pmask.any():
            pmask[int(rng.integers(0, n))] = True        # the explicit-mask branch must be taken
        if encoding == "masked_array":
            fm = rng.random((F, n)) < 0.35
            # make sure the field masks DIFFER: some point masked in exactly one field, one in all fields
            j = int(rng.integers(0, n))
            fm[:, j] = False
            fm[int(rng.integers(0, F)), j] = True
            if n > 3:
                fm[:, (j + 1) % n] = True
            call_field = np.ma.array(vals.copy(), mask=fm)
            kw = {}
        else:
            fm = np.zeros((F, n), dtype=bool)
            row = int(rng.integers(0, F))                 # missing values in ONE field only
            fm[row] = rng.random(n) < 0.4
            fm[row, int(rng.integers(0, n))] = True
            call_field = vals.copy()
            if encoding == "nan":
                call_field[fm] = np.nan
                kw = {}
            else:
                call_field[fm] = -777.0
                kw = {"no_data": -777.0}
        removed = pmask.copy()
        if encoding == "masked_array":
            removed |= fm.all(axis=0)
        ref_f = vals.copy()
        ref_f[fm] = np.nan
        keep = ~removed
        kind = ["matheron", "cressie"][int(rng.integers(0, 2))]
        if keep.sum() == 0:
            return None
        G, C, margin = brute_unstructured(pos[:, keep], ref_f[:, keep], e, kind, latlon=latlon)
        if not lattice and margin < 1e-7:
            return None
        bc, g, c = vario_estimate(pos.copy(), call_field, e.copy(), estimator=kind, latlon=latlon, mask=pmask.copy(),
                                  return_counts=True, **kw)
        ok = close(g, G[0]) and np.array_equal(np.asarray(c), C[0])
        return ok, {"pos": pos, "values": vals, "field_missing": fm, "explicit_mask": pmask, "encoding": encoding,
                    "latlon": latlon, "bin_edges": e, "estimator": kind}, (G[0], C[0]), (g, c)

    def fam_directional(rng):
        dim = int(rng.integers(2, 4))
        n = int(rng.integers(2, 8))
        lattice = rng.random() < 0.5
        pos = points(rng, dim, n, lattice)          # pairwise distinct points: F12 is reported at the kernel
        F = int(rng.integers(1, 3))
        fld = rng.normal(size=(F, n))
        if rng.random() < 0.5:
            fld[rng.random((F, n)) < 0.2] = np.nan
        nd = int(rng.integers(1, 4))
        style = int(rng.integers(0, 3))
        if style == 0:
            dirs = np.eye(dim)[np.arange(nd) % dim][:min(nd, dim)]          # separated
        elif style == 1:
            dirs = rng.normal(size=(nd, dim))                               # arbitrary, mostly overlapping
        else:
            base = rng.normal(size=dim)
            dirs = np.array([base + 0.2 * rng.normal(size=dim) for _ in range(nd)])   # strongly overlapping
        tol = float([math.pi / 8, 0.25, 0.9][int(rng.integers(0, 3))])
        bw = [None, 0.8, 2.5][int(rng.integers(0, 3))]
        e = edges(rng, lattice)
        kind = ["matheron", "cressie"][int(rng.integers(0, 2))]
        unit = dirs / np.linalg.norm(dirs, axis=1, keepdims=True)
        G, C, margin = brute_unstructured(pos, fld, e, kind, dirs=unit, tol=tol, bw=bw)
        # angular margins: reject inputs with a pair within 1e-7 of the tolerance cone / band edge
        for j in range(n):
            for k in range(j + 1, n):
                v = pos[:, k] - pos[:, j]
                for u in unit:
                    s = float(v @ u)
                    c_ = abs(s) / np.linalg.norm(v)
                    if c_ < 1 and abs(math.acos(c_) - tol) < 1e-7:
                        return None
                    if bw is not None and abs(np.linalg.norm(v - s * u) - bw) < 1e-7:
                        return None
        if not lattice and margin < 1e-7:
            return None
        bc, g, c = vario_estimate(pos.copy(), fld.copy(), e.copy(), estimator=kind, direction=dirs.copy(),
                                  angles_tol=tol, bandwidth=bw, return_counts=True)
        g, c = np.atleast_2d(g), np.atleast_2d(c)
        ok = close(g, G) and np.array_equal(np.asarray(c), C)
        return ok, {"pos": pos, "field": fld, "bin_edges": e, "direction": dirs, "angles_tol": tol,
                    "bandwidth": bw, "estimator": kind}, (G, C), (g, c)

    def fam_axis(rng):
        nd = int(rng.integers(1, 4))
        shape = tuple(int(rng.integers(1, 6)) for _ in range(nd))
        f = rng.normal(size=shape)
        axis = int(rng.integers(0, nd))
        mode = int(rng.integers(0, 4))
        miss = rng.random(shape) < 0.3
        kind = ["matheron", "cressie"][int(rng.integers(0, 2))]
        kw = {}
        if mode == 0:
            call, mask = f.copy(), None
        elif mode == 1:
            call, mask = np.ma.array(f.copy(), mask=miss.copy()), miss
        elif mode == 2:
            call = f.copy()
            call[miss] = np.nan
            mask = miss
        else:
            call = f.copy()
            call[miss] = -7.5
            kw["no_data"] = -7.5
            mask = miss
        if mask is not None and not mask.any():
            mask = None if mode != 1 else mask
        f2 = np.swapaxes(f, 0, axis).reshape(shape[axis], -1)
        m2 = None if mask is None else np.swapaxes(mask, 0, axis).reshape(shape[axis], -1)
        want = brute_axis(f2, m2, kind)
        got = vario_estimate_axis(call, direction=["x", "y", "z"][axis] if rng.random() < 0.5 else axis,
                                  estimator=kind, **kw)
        ok = close(got, want)
        return ok, {"field": f, "missing": miss if mask is not None else None, "axis": axis, "mode": mode,
                    "estimator": kind}, want, got

    families = [
        ("variogram.vario_estimate", "unstructured_euclid", lambda r: fam_unstructured(r, False),
         "single field, Euclidean distance, dim 1-3, 2-8 points, lattice (exact ties with edges) and random points"),
        ("variogram.vario_estimate", "multi_field_missing", lambda r: fam_unstructured(r, True),
         "2-3 fields with missing values given as NaN / masked array / no_data value"),
        ("variogram.vario_estimate", "explicit_mask+per_field_masked_array_euclid",
         lambda r: fam_masks_explicit(r, False, "masked_array"),
         "2-3 fields as ONE masked array with masks differing between fields + explicit mask= array, Euclidean, "
         "both estimators; point removed only if in the explicit mask or masked in ALL fields"),
        ("variogram.vario_estimate", "explicit_mask+per_field_masked_array_latlon",
         lambda r: fam_masks_explicit(r, True, "masked_array"),
         "same with great-circle distance"),
        ("variogram.vario_estimate", "explicit_mask+nan_in_one_field",
         lambda r: fam_masks_explicit(r, bool(r.integers(0, 2)), "nan"),
         "explicit mask= array + NaN values in one of 2-3 fields only, Euclidean and lat-lon"),
        ("variogram.vario_estimate", "explicit_mask+no_data_in_one_field",
         lambda r: fam_masks_explicit(r, bool(r.integers(0, 2)), "no_data"),
         "explicit mask= array + no_data values in one of 2-3 fields only, Euclidean and lat-lon"),
        ("variogram.vario_estimate", "latlon_great_circle", fam_latlon,
         "great-circle distance, geo_scale 1 and 6371"),
        ("variogram.vario_estimate", "directional", fam_directional,
         "1-3 direction vectors (separated, arbitrary, strongly overlapping), 3 tolerances, bandwidth off/on, "
         "pairwise distinct points"),
        ("variogram.vario_estimate_axis", "axis_with_and_without_masks", fam_axis,
         "grids of rank 1-3 up to 5^3, every axis, plain / masked array / NaN / no_data"),
    ]
    for fn, name, f, desc in families:
        oid = "C08/%s/bounded.%s" % (fn, name)
        t0 = time.time()
        done = 0
        tries = 0
        bad = None
        while done < ncase and tries < ncase * 6:
            tries += 1
            rng = np.random.default_rng([seed, tries, len(name)])
            try:
                r = f(rng)
            except Exception as e:
                import traceback
                bad = ("exception", traceback.format_exc()[-1200:], None, None)
                break
            if r is None:
                continue
            done += 1
            if not r[0]:
                bad = ("mismatch", r[1], r[2], r[3])
                break
        fid = "variogram/variogram.py:%s" % fn.split(".")[-1]
        if bad is None:
            rep.add(core.Obligation(oid, core.BOUNDED, backend="native-bruteforce", time_s=time.time() - t0,
                                    bound="%d seed-driven inputs (VERIF_SEED=%d): %s; values rel 1e-9, counts exact"
                                          % (done, seed, desc), functions=[fid]))
        elif bad[0] == "exception":
            rep.add(core.Obligation(oid, core.ERROR, backend="native-bruteforce", detail=bad[1], functions=[fid]))
        else:
            rep.add(core.Obligation(oid, core.FAILED, backend="native-bruteforce",
                                    detail="wrapper result differs from the brute-force definition",
                                    witness={"class": "wrapper vs brute-force definition: " + name,
                                             "inputs": core._jsonable(bad[1]), "expected": core._jsonable(bad[2]),
                                             "observed": core._jsonable(bad[3])},
                                    functions=[fid], replay={"kind": "wrapper", "family": name}))


OVERRIDE = {"variogram/estimator.pyx:directional": "variogram/estimator.pyx:directional@definition"}
EST = "src/gstools/variogram/estimator.pyx"


def run(rep, tier, seed, only=None):
    import contracts.kernels as K
    from gsvc import kern_run
    rep.backend_cmd = "./check C08 --tier %s   (z3 python API %s; fallback /usr/bin/cvc5, /usr/bin/z3)" % (
        tier, __import__("z3").get_version_string())
    kr = kern_run.KernRun(rep, "C08", K, tier, seed, override=OVERRIDE)
    kr.lowering_evidence([EST])
    # estimator.pyx outside the lowering subset: no targets; kr.run reports its ledger obligations as undecided
    low = kr.eng.lows.get(EST)
    targets = [(EST, fn) for fn in low.funcs if fn != "set_num_threads"] if low is not None else []
    if not only or "bounded" not in only:
        kr.run(targets, kern_run.FUNCTIONAL_KINDS | {"nan", "div", "canary"}, only=only)
    if not only or "bounded" in only:
        _wrappers(rep, tier, seed)
    if not only or "vario_estimate/" in only:
        # symbolic capture of the kernel arguments (machinery of C09 layer B); runs last: it rebinds the
        # kernels inside gstools.variogram.variogram to capture stubs in this process
        from gsvc import contract
        rep.stubs.add("compiled estimator kernels in variogram.py -> capture stubs (contracts/c09.py)")
        contract.standard_run(rep, "C08", ["contracts.c08_wrappers"], tier, seed, only)
    rep.trust("T1 real arithmetic: doubles are mathematical reals plus a NaN flag on the field array; exact "
              "floating-point ties of a distance with a bin edge are decided as over the reals")
    rep.trust("lowering rules of gsvc/lower_pyx.py (dropped tokens listed under lowering_dropped); Cython/gcc (T6, see C15)")
    rep.trust("z3 5.1 / cvc5 soundness; the kernvc VC generator (mutation corpus: contracts/kernels_validation.md)")
    rep.trust("sqrt, acos, atan2, sin, cos are uninterpreted functions (only congruence is used); M_PI is a real "
              "constant in (3.14159, 3.1416)")
    rep.assume("LEMMA (assumed, not proved): if all pairs of direction vectors are >= 2*angles_tol apart "
               "(_separate_dirs_test) then at most one direction passes the direction test for a NON-ZERO pair "
               "vector; it enters as precondition of directional when separate_dirs is set")
    rep.assume("pos, bin_edges, direction contain no NaN; direction.shape[1] >= dim and mask.shape == f.shape hold at "
               "the call sites in variogram.py (C09); int64 counters do not overflow")
    rep.assume("the compiled kernels implement the lowered source (C15 bounded stand-in)")
    for o in rep.obls:
        if o.id.endswith("unstructured/loop.k.preserve.end") or o.id.endswith("unstructured/ensures.variogram") \
                or "zero_pair_vector" in o.id or o.id.endswith("bounded.directional"):
            rep.sample(o.to_json())
    rep.sample({"contract": "variogram/estimator.pyx:unstructured",
                "ensures": K.CONTRACTS["variogram/estimator.pyx:unstructured"]["ensures"],
                "invariants": K.CONTRACTS["variogram/estimator.pyx:unstructured"]["invariants"],
                "spec": {k: K.SPEC[k].get("term") or K.SPEC[k].get("body") for k in ("CkU", "Cm", "Sm", "inbin", "norm", "est")}})
    rep.explanation = ("One obligation = one named proof obligation on the current estimator.pyx; bounded.* "
                       "obligations are native brute-force comparisons of the Python wrappers.")


def replay(path):
    import json
    rp = (json.load(open(path)).get("replay") or {})
    if "contract" in rp:                      # symrun wrapper obligation
        from gsvc import contract
        return contract.standard_replay("C08", ["contracts.c08_wrappers"], path)
    import contracts.kernels as K
    from gsvc import kern_run
    return kern_run.replay_file(path, K, override=OVERRIDE)
