LEVEL = "proof"
MANIFEST = {
    "engine": "symrun+frames",
    "category": "proof",
    "text": "Postconditions on the real functions of tools/geometric.py and the CovModel isometrize/anisometrize methods, discharged for ALL angle vectors and anisotropy ratios (symbolic reals) and every dimension 1-4 (the property's own finite quantifier) by symbolic execution of the real code + z3 nlsat over Ackermannised trig terms with Pythagoras facts.",
    "level_note": "floats as mathematical reals (T1); numpy object-dtype execution follows float64 shape/broadcast rules (T2); sin/cos abstracted to reals constrained by sin^2+cos^2=1 and parity/congruence facts only; z3/cvc5 soundness.",
    "technique": "contract-based deductive verification: symbolic execution of the real Python functions against sidecar pre/postconditions, VCs discharged by z3 (nlsat) / cvc5",
}


def run(rep, tier, seed, only=None):
    from gsvc import symrun, contract
    import gstools  # noqa: F401  (real code under verification)
    symrun.install_shims()
    import contracts.c12  # noqa: F401
    rep.trust("T1 real arithmetic for floats")
    rep.trust("T2 numpy object-dtype execution = float64 execution for shapes/broadcasting")
    rep.trust("T4 trig facts: sin^2+cos^2=1, parity, congruence (ground instances only)")
    rep.trust("z3 4.x/5.x nlsat, cvc5 1.x")
    contract.run_all(rep, "C12", tier, seed, only)
    if not only:
        from contracts.c12_reads import add_read_obligations
        add_read_obligations(rep)
        if tier == "thorough":
            from gsvc.leancheck import add_lean_obligations
            add_lean_obligations(rep, "C12", ["orth_mul"])


def replay(path):
    from gsvc import symrun, contract
    import gstools  # noqa: F401
    symrun.install_shims()
    import contracts.c12  # noqa: F401
    return contract.replay_file("C12", path)
