"""C05 -- kriging estimates and variances solve the kriging equations (contracts/c05.py,
contracts/krige_common.py; optional Lean lemmas lean/GsKrige.lean in the thorough tier)."""
LEVEL = "other"
MANIFEST = {
    "engine": "symrun",
    "category": "other",
    "text": "Symbolic execution of the real Krige code (Simple, Ordinary, Universal, ExtDrift, Detrended and the general Krige class with unbiased on/off, functional + external drifts) with a GENERIC model class (uninterpreted normalised correlation => every model class), symbolic variance, length scale, nugget, anisotropy ratios, rotation angles, conditioning and target coordinates, data values, scalar / per-point measurement errors, external drift values, mean / trend parameters, uninterpreted user drift functions and an uninterpreted (generic) or LogNormal normalizer. Postconditions written from the textbook kriging system: (1) _get_krige_mat hands to the inverse routine exactly [[C + diag(err), 1, F^T, E^T], [1, 0..], [F, 0..], [E, 0..]] with C_ab = model covariance of the distance of the isometrised positions, err = model nugget (cond_err='nugget', also in exact mode, where the diagonal is the sill) or the explicit errors, layout cond | unbiased | functional | external, and stores what the routine returns; pseudo_inv / pseudo_inv_type select pinv, pinvh, a user callable or the plain inverse; (2) _get_krige_vecs builds (covariance | nugget-aware covariance in exact mode, 1, f_i(ORIGINAL target coordinates) via anisometrize(isometrize(x)) = x, external drift values) for the requested chunk only, and zeros instead of covariances for kriging the mean; (3) _krige_cond = normalize(value - trend(x)) - mean(x), zero padded; (4) Krige.__call__ passes exactly these to the compiled kernels (replaced by their C15 postconditions), so field_raw = cond^T K k and krige_var = max(sill - k^T K k, 0) >= 0 with K the result of the inverse routine; return_var=False, chunk_size=1, structured vs. unstructured on the expanded grid, reversed or single targets give identical values; post-processing = trend + denormalize(mean + raw); get_mean / only_mean = kriging the mean; (5) with the ASSUMED contract of the inverse routine K.A = I, A.K = I: w = K k solves A w = k and is the only solution, estimate = cond^T w, variance = max(sill - k^T w, 0); the estimate is linear in the data; for unbiased variants sum w = 1 and sum_b w_b f_i(x_b) = f_i(x0) (also external drifts), so data equal to a constant plus a combination of the drift functions are reproduced exactly; swapping two conditioning points permutes A, k, cond and the weights consistently and leaves estimate and variance unchanged; (7) after re-assigning krige.model, and after re-assigning normalizer / mean / trend following a first call (with and without set_condition()), the results equal those of a fresh object with the new setting (F13, repaired in 10bf78d); (8) set_condition with fit_normalizer / fit_variogram (ghost optimisers that assign arbitrary in-bounds normalizer and model parameters, anisotropy included): the fits receive value - trend, resp. the normalised detrended zero-mean data at cond_pos (directional along model.main_axes() for an anisotropic start model) and sill = data variance, and the post-state is the kriging set-up of the FINAL model (_krige_pos = model.isometrize(cond_pos), textbook matrix, results of a fresh object). Added after the seeding rounds: callable mean on a rotated anisotropic model; get_mean with a user mean on an unbiased system; in-place model edit followed by re-assignment of the same object; the external drift at the targets of a structured mesh in every memory layout (F30 repaired). Round 7: every chunk_size (dividing, not dividing, exceeding the number of targets) gives the unchunked field and variance.",
    "level_note": "category 'other', not 'proof': every obligation is stated for ALL values (model parameters, coordinates, data, errors, drift values are unbounded symbolic reals; the correlation function, user drift functions and normalizer are uninterpreted), but shapes are ENUMERATED: n <= 3 conditioning points, t <= 2 targets, dim 1-2 (dim 3 in the thorough tier), <= 2 functional and <= 1 external drift, grids of 2 resp. 2 x 1 points -- all such obligations are reported BOUNDED (bounded_ok), none is counted as proved; the sums inside the compiled kernels are proved for all sizes in C15 and enter as postconditions; the linear-algebra consequences (direct solution, uniqueness, unbiasedness, permutation) are proved symbolically per enumerated system size 1..6 (size-generic Lean versions: lean/GsKrige.lean, thorough tier, hand-written glue T7). Assumed, logged in the evidence: T5 scipy.linalg.inv/pinv/pinvh return the two-sided inverse of a non-singular matrix (natively checked on every sampled instance; accuracy of the routines is residue); cor(0) = 1 for the diagonal = var + error form (T8/C03); the model's own isometrize / covariance are used on the specification side (their correctness is C12 / C03), anisometrize(isometrize(x)) = x is re-proved here for the real matrices. Exact mode: the coincidence window |d| <= 1e-8 of cov_nugget is modelled as written; shapes with more than 2 (conditioning point, target) pairs are stated for targets outside the window of every conditioning point (the case target = conditioning point is C06), the full case split is explored for 1-2 pairs; conditioning points are required pairwise distinct in exact mode (singular textbook system otherwise). Floats as reals (T1): numerically near-singular systems, pinv cut-offs and rounding are not modelled. NOT covered: lat-lon and temporal models (isometrize is the model's own; the kriging code has no separate branch), what the optimisers behind fit_normalizer / fit_variogram return (ghosts with the assumed contract 'any in-bounds parameters'; vario_estimate stubbed inside these contracts), order-of-points invariance beyond one transposition per size (the textbook entries are index-symmetric).",
    "technique": "contract-based deductive verification: symbolic execution of the real Python methods against sidecar postconditions from the property statement and the textbook kriging system, contract stubs for the matrix inverse and the compiled kernels, VCs discharged by ring normal form / z3 / cvc5 with lemma chains (BY clauses, generalisation of matrix entries) and instantiated axiom hints; failed obligations replayed natively",
}
MODULES = ["contracts.c05"]

EXPLANATION = ("One case = one named proof obligation generated by executing the real Krige code of the current tree "
               "symbolically (values unbounded, shapes enumerated). 'bounded_ok' obligations hold for all values at "
               "the stated shape bound and are never counted as proved; 'discharged' counts only obligations "
               "without a shape bound. Every contract instance is also executed natively (real inverse, compiled "
               "kernels) on sampled inputs, which checks the specification functions and the assumed inverse "
               "contract against the artefact.")


def _common(rep):
    rep.explanation = EXPLANATION
    rep.stubs.add("krige.base.spl.inv / P_INV['pinv'] / P_INV['pinvh'] -> contract stub: argument recorded, result = "
                  "fresh unknown matrix K (same K for a syntactically identical argument: inv is a function); natively "
                  "the real routine")
    rep.stubs.add("krige.base.calc_field_krige_c / calc_field_krige_and_variance_c -> C15 postconditions as spec "
                  "functions (contracts/krige_common.py); compiled kernels natively")
    rep.stubs.add("krige.base.cdist -> sqrt(sum (a-b)^2); np.einsum('i,ij,j') -> explicit double sum (symbolic runs)")
    rep.stubs.add("generic model class: cor uninterpreted (ucor); generic normalizer: _normalize/_denormalize "
                  "uninterpreted (un/udn); user drift functions uninterpreted (udrift0/1) of the ORIGINAL coordinates")
    rep.assume("T5 (assumed dependency contract): scipy.linalg.inv / pinv / pinvh return K with K.A = I and A.K = I for "
               "a non-singular A; used only through explicit `using=` clauses of the lemma obligations; natively "
               "checked on every sampled instance (T5-instance obligations)")
    rep.assume("T8/C03: normalised correlation cor(0) = 1 (used for diagonal = var + error and in C06)")
    rep.assume("specification side uses the model's own isometrize / covariance / sill (C12, C03, C14 are their "
               "properties); systems are non-singular (implied by T5's hypothesis); conditioning points pairwise "
               "distinct in exact mode; targets outside the 1e-8 coincidence window in exact mode for shapes with more "
               "than 2 point pairs")
    rep.stubs.add("fit contracts only: krige.base.vario_estimate -> ghost (arguments recorded, symbolic bins / values); "
                  "generic model fit_variogram -> ghost assigning fresh in-bounds var / len_scale / nugget / anis; parametric "
                  "generic normalizer fit -> ghost assigning a fresh parameter (assumed: fitting changes parameters "
                  "arbitrarily within bounds)")
    rep.trust("T7 hand-written glue between the per-size SMT lemmas and the size-generic Lean lemmas (lean/GsKrige.lean)")


def run(rep, tier, seed, only=None):
    from gsvc import contract
    _common(rep)
    contract.standard_run(rep, "C05", MODULES, tier, seed, only)
    if tier == "thorough" and not only:
        from contracts import krige_common as kc
        kc.lean_obligations(rep, "C05")
    for o in rep.obls:
        if o.id.endswith("field(raw)=cond^T.K.k[variant=universal+ext,n=3,t=2,dim=2,err=vector]") or \
                o.id.endswith("direct-solution:A.(K.k)=k[variant=ordinary,n=3,dim=1]") or \
                o.id.endswith("whole-matrix=textbook-matrix[variant=universal,n=3,dim=2,err=nugget]"):
            rep.sample(o.to_json())


def replay(path):
    from gsvc import contract
    return contract.standard_replay("C05", MODULES, path)
