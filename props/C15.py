"""C15 -- compiled kernels equal their source semantics under every thread count.

Proof part (kernvc): every function of the three .pyx files against its sidecar contract
(contracts/kernels.py): defining sums, memory safety, thread independence, pragma audit.
Bounded stand-in (never counted as proved): interpretation of the lowered source vs the compiled
artefact; installed compiled kernel vs a reference evaluation of the defining sums (gsvc/kern_ref.py,
independent of the lowering) for num_threads in {None,1,2,3,4,8,16} incl. bit-identity across them;
thorough tier: -fopenmp rebuild, bitwise comparison across thread counts.
A function / file whose source is outside the lowering subset is reported obligation by obligation as
undecided (-> VIOLATION ... no-failing-input-found for everything frozen in the ledger), never skipped.
"""
LEVEL = "proof"
MANIFEST = {
    "engine": "kernvc",
    "category": "proof",
    "text": "For every function of field/summator.pyx, krige/krigesum.pyx and variogram/estimator.pyx "
            "(9 entry points, 14 cdef helpers, set_num_threads) the current source is lowered mechanically "
            "and verified against a sidecar contract for ALL array shapes and (real) values: result = the "
            "defining sums (loop invariants: init / preserve / exit per loop), every array access in bounds, "
            "no division by zero, no arithmetic on NaN-flagged elements, C-int fit, and for each prange / "
            "parallel() region ownership of written elements, definite assignment and non-escape of scalars, "
            "scalar-only redundant regions and an audit of the OpenMP pragmas of the generated C. "
            "Obligations are discharged by z3 (cvc5 / z3 CLI as fallback).",
    "level_note": "Proved at the level of the lowered .pyx source over the reals (T1: floats as reals + NaN "
                  "flag; int64 counters assumed not to overflow). Shape preconditions that the kernels do not "
                  "check themselves (z_1.shape[0] >= N, krig_mat square, mask.shape == f.shape, "
                  "direction.shape[1] >= dim, non-zero wave vectors for summate_incompr) are stated as "
                  "'requires' and are obligations on the Python callers (C05/C11). directional is proved here "
                  "against the kernel-level first-match semantics of Appendix A; its agreement with the "
                  "definition is C08. 'The compiled artefact agrees with a plain interpretation of its own "
                  "source' and bit-identity across thread counts of the real OpenMP build are NOT proved (T6: "
                  "Cython/gcc/OpenMP trusted): they are covered by bounded obligations (status bounded_ok, "
                  "sizes 0..40 quick / ..128 thorough; thorough rebuilds the generated C with -fopenmp and "
                  "compares bitwise for num_threads in {None,1,2,3,4,8,16}); thread independence itself is "
                  "proved at source level from ownership + definite assignment + implicit barriers. "
                  "Independently of the lowering, artefact.defining_sums (bounded, sizes 0..24 quick / ..64 "
                  "thorough) compares the installed compiled kernels with a plain numpy evaluation of the "
                  "defining sums for num_threads in {None,1,2,3,4,8,16} and requires bit-identical results "
                  "across those values.",
    "technique": "contract-based deductive verification: mechanical .pyx->ast lowering, symbolic forward "
                 "execution with loop invariants from sidecar contracts, recursive spec sums with ground "
                 "unfolding and E-matching axioms, modular calls by contract, SMT (z3/cvc5); dataflow for "
                 "definite assignment; C pragma audit; differential testing as bounded stand-in",
}


def run(rep, tier, seed, only=None):
    import contracts.kernels as K
    from gsvc import kern_run, kern_diff, lower_pyx
    rep.backend_cmd = "./check C15 --tier %s   (z3 python API %s; fallback /usr/bin/cvc5, /usr/bin/z3)" % (
        tier, __import__("z3").get_version_string())
    kr = kern_run.KernRun(rep, "C15", K, tier, seed)
    kr.lowering_evidence(list(lower_pyx.KERNEL_FILES))
    targets = [(rp, fn) for rp, low in kr.eng.lows.items() for fn in low.funcs]
    if not only or "artefact" not in only:
        kr.run(targets, kern_run.SAFETY_KINDS | kern_run.FUNCTIONAL_KINDS | {"canary"}, only=only)
    if not only or "artefact" in only or any(only in fn for _, fn in kern_diff.ENTRY_POINTS):
        kern_diff.run_differential(rep, "C15", kr.eng, tier, seed, only=None if (only and "artefact" in only) else only)
        if tier == "thorough":
            kern_diff.run_threads(rep, "C15", kr.eng, seed, only=None if (only and "artefact" in only) else only)
    _trust(rep)
    for o in rep.obls[:400]:
        if o.id.endswith("summate/loop.j.preserve") or o.id.endswith("unstructured/loop.m.preserve") \
                or o.id.endswith("par.i.ownership.summed_modes") or o.id.endswith("summate/artefact.differential") \
                or o.id.endswith("unstructured/artefact.defining_sums"):
            rep.sample(o.to_json())
    rep.sample({"contract": "field/summator.pyx:summate", "requires": K.CONTRACTS["field/summator.pyx:summate"]["requires"],
                "ensures": K.CONTRACTS["field/summator.pyx:summate"]["ensures"],
                "invariants": K.CONTRACTS["field/summator.pyx:summate"]["invariants"],
                "spec_S": K.SPEC["S"]["term"]})
    rep.explanation = ("Each obligation is one named proof obligation generated from the current .pyx text; "
                       "'discharged' counts only unsat answers (or established dataflow/audit facts); the "
                       "artefact.* obligations are bounded differential checks (artefact.differential: compiled "
                       "vs interpretation of the lowered source; artefact.defining_sums: compiled vs reference "
                       "evaluation of the defining sums, all num_threads values) and are reported under "
                       "bounded_obligations.")


def _trust(rep):
    rep.trust("T1 real arithmetic: doubles are mathematical reals plus a NaN flag on arrays tested with isnan; "
              "rounding, overflow to inf, -0.0 not modelled (the thread-independence argument does not use this)")
    rep.trust("T6 Cython 3.0.12 + gcc + OpenMP translate the .pyx faithfully (bounded differential stand-in only)")
    rep.trust("lowering rules of gsvc/lower_pyx.py (dropped tokens listed under lowering_dropped)")
    rep.trust("z3 5.1 / cvc5 soundness; the kernvc VC generator (validated by the mutation corpus in "
              "contracts/kernels_validation.md)")
    rep.trust("libm functions cos, sin, sqrt, acos, atan2 are uninterpreted functions (only congruence is used); "
              "pow(x, 2) is x*x; M_PI is a real constant in (3.14159, 3.1416)")
    rep.assume("np.int64 pair counters do not overflow (pairs * fields < 2^63)")
    rep.assume("array shapes < 2^31 (stated as int32(...) preconditions); inputs other than the field array f "
               "of unstructured/directional contain no NaN")
    rep.assume("shape preconditions not checked by the kernels (see level_note) hold at the call sites "
               "(obligations on RandMeth/Fourier/Krige/vario_estimate*, properties C05/C11/C09)")
    rep.assume("numpy contracts: np.zeros(shape) is a fresh zero array of that shape, np.empty fresh with "
               "arbitrary content, np.asarray(memoryview) the same data; distinct memoryview parameters of a "
               "kernel do not overlap a freshly allocated output")
    rep.assume("the interpreter prange semantics is sequential; OpenMP semantics enters only through the "
               "ownership/definite-assignment/barrier argument and the pragma audit")


def replay(path):
    import json
    import contracts.kernels as K
    from gsvc import kern_run
    data = json.load(open(path))
    rp = data.get("replay") or {}
    if rp.get("kind") == "defining_sums":
        from gsvc import kern_diff
        return kern_diff.replay_defining_sums(rp)
    if rp.get("kind") == "differential":
        from gsvc import kern_diff, kern_native, kern_interp, lower_pyx
        import numpy as np
        try:
            low = lower_pyx.lower_file(rp["relpath"])
        except lower_pyx.LoweringError as e:
            low = None
        if low is None or rp["function"] in low.tainted:
            print("replay: the current source of %s:%s is outside the supported subset; no interpretation "
                  "to compare with" % (rp["relpath"], rp["function"]))
            return 2
        fi = low.funcs[rp["function"]]
        inp = kern_native.inputs_from_json(fi, rp["inputs"])
        mod = kern_native.load_compiled(low)
        a = kern_interp.run(low, rp["function"], inp)
        try:
            b = ("ok", getattr(mod, rp["function"])(*kern_diff._args(fi, inp)))
        except ValueError as e:
            b = ("raise", "ValueError")
        same = a[0] == b[0] and (a[0] != "ok" or kern_diff._cmp(a[1], b[1])[0])
        print("interpretation:", a[0], "compiled:", b[0], "agree:", same)
        return 0 if same else 1
    return kern_run.replay_file(path, K)
