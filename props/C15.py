"""C15 (stub while building)"""
LEVEL = "proof"
MANIFEST = {"engine": "kernvc", "category": "proof", "text": "x", "level_note": "x", "technique": "x"}


def run(rep, tier, seed, only=None):
    import contracts.kernels as K
    from gsvc import kern_run, lower_pyx
    kr = kern_run.KernRun(rep, "C15", K, tier, seed)
    kr.lowering_evidence(list(lower_pyx.KERNEL_FILES))
    targets = [(rp, fn) for rp, low in kr.eng.lows.items() for fn in low.funcs]
    kr.run(targets, kern_run.SAFETY_KINDS | kern_run.FUNCTIONAL_KINDS | {"canary"}, only=only)


def replay(path):
    import contracts.kernels as K
    from gsvc import kern_run
    return kern_run.replay_file(path, K)
