LEVEL = "proof"
MANIFEST = {
    "engine": "symrun",
    "category": "proof",
    "text": "Postconditions on the real CovModel methods and on every shipped cor/correlation/calc_integral_scale, for ALL lags and ALL parameter values inside their bounds (symbolic reals): the four derivations of _init_subclass are mutually consistent for user classes defined by any one of cor/correlation/covariance/variogram (uninterpreted functions); nugget/axis/spatial/Yadrenko variants equal the isotropic functions of the transformed lag; each shipped model equals the closed form transcribed from its docstring on every branch; integral-scale overrides equal the tabulated closed forms and are homogeneous of degree one; percentile_scale solves 1 - correlation(x) - per. Added after the seeding rounds: closed forms of the classes with a dimension parameter for lat-lon, lat-lon+time and 2-D+time models (d = model dimension); exp_int / inc_gamma order dispatch on the real functions; bounded comparison of exp_int with mpmath.expint (15 orders x 27 arguments)."
            " Round 7: cor of the truncated power law classes respects len_low (F45 repaired: correlation(r) = cor(rescale r / len_scale) also for the classes that define both functions); bounded native contract on the numerically computed integral scale of the compact-support models for length scales up to 1e6 (F46 repaired)."
            " Matern with nu > 20: integral scale of the Gaussian limit (F47 repaired).",
    "level_note": "floats as reals (T1); special functions (exp, pow, gamma, kv, jv, hyp2f1, E_s) are uninterpreted: a wrong argument, factor, exponent or branch is detected, a wrong scipy function value is not; tools.special.exp_int is replaced by its contract E_s(x) for symbolic arguments (its internal regimes are not proved); that the tabulated integral scales ARE the integrals of the correlation, and root/quad accuracy, are residues (T8/T5).",
    "technique": "contract-based deductive verification: symbolic execution of the real Python methods against sidecar postconditions from the docstrings, VCs discharged by z3/cvc5 with instantiated axiom hints",
}
MODULES = ["contracts.c03"]


def run(rep, tier, seed, only=None):
    from gsvc import contract
    rep.stubs.add("gstools.tools.special.exp_int -> E(s,x) uninterpreted (contract stub)")
    rep.stubs.add("scipy.optimize.root in covmodel.tools.percentile_scale -> captured (havoc result)")
    rep.assume("T8: the tabulated closed-form integral scales are the integrals of the documented correlations")
    contract.standard_run(rep, "C03", MODULES, tier, seed, only)


def replay(path):
    from gsvc import contract
    return contract.standard_replay("C03", MODULES, path)
