LEVEL = "proof"
MANIFEST = {
    "engine": "symrun",
    "category": "proof",
    "text": "Representation invariant + frame + constructor-equivalence obligations for the real CovModel constructor and every parameter setter, executed symbolically with arbitrary in-bound old state and arbitrary new value (reals unbounded) for all 17 classes x plain/temporal/lat-lon/lat-lon+temporal x dim 1-4; each mutator maps constructor images to constructor images, so all finite setter histories follow by induction. Added after the seeding rounds: the correlation at a probe lag belongs to the 'derived quantities = freshly built model' view (read before every operation); list-form integral scales redefine the anisotropy like list-form length scales (setter and constructor). Also: several bounds set at once end with every parameter inside its bounds in any keyword order."
            " Round 7: NaN is outside every bound (F38 repaired); a single length scale wrapped in a list, tuple or array keeps the anisotropy."
            " Composite setters are transactional (integral_scale, dim: F43, F44 repaired); bounds are owned by the model (F40 repaired); open finding F41 (bounds property setters do not look at the current value).",
    "level_note": "floats as reals (T1); object-dtype numpy (T2); optional-argument bounds are taken from the class's own declaration for the current dimension (their agreement with the literature is C02); hankel/SFT object and integral-scale cache excluded from the view; integral_scale setter only for classes with closed-form integral scale.",
    "technique": "contract-based deductive verification: class invariant + per-method pre/postconditions on the real CovModel methods, symbolic execution, VCs discharged by z3/cvc5",
}
MODULES = ["contracts.c14"]


def run(rep, tier, seed, only=None):
    from gsvc import contract
    contract.standard_run(rep, "C14", MODULES, tier, seed, only)


def replay(path):
    from gsvc import contract
    return contract.standard_replay("C14", MODULES, path)
