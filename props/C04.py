LEVEL = "other"
MANIFEST = {
    "engine": "symrun",
    "category": "other",
    "text": "Decided part of C04 (the algebraic relations): spectrum = var * spectral_density; spectral_rad_pdf = surface of the (d-1)-sphere of radius r times |density| (zero at r ~ 0 for d > 1, non-negative); rad_fac equals the sphere surfaces for d = 1..4; for Gaussian and Exponential the derivative of spectral_rad_cdf (mechanical differentiation of the extracted term) equals spectral_rad_pdf for d = 1, 2, 3, cdf(0) = 0, ppf is the two-sided inverse of cdf for d = 1, 2, and has_cdf/has_ppf agree with the dimensions for which values are returned; the truncated-power-law densities are the documented superposition of single-scale densities; the six analytic overrides (Gaussian, Exponential, Matern, Integral, HyperSpherical, JBessel; d = 1, 2, 3, k = 0 and k > 0, symbolic shape parameter) return the classical closed-form Fourier transform of their documented correlation (pairs re-derived in contracts/c04.py, trusted as literature table T8; the documented Gaussian-limit approximation of Matern applies for nu > 20 only); the numerical default path is a symmetric Fourier (Hankel) transform of the model's own correlation set up in the package convention a = -1, b = 1 ((2 pi)^-d) with the documented defaults kept for every key the user does not override, through every constructor/setter/dim-change history -- all for symbolic wave numbers, probabilities, length scales, rescale factors. NOT decided by this technique: that the tabulated pairs ARE Fourier pairs (improper integrals of special functions: trusted table), the accuracy of the numerical Hankel transform (external library), and that the pdf integrates to one (limit statements); hence category other. Added after the seeding rounds: integer wave numbers; spectrum with a user var_factor; values of inc_gamma / inc_gamma_low against mpmath (bounded)."
            " Round 7: engine fix: clauses stated before a later precondition are no longer dropped with the path (pdf at wave number 0 in 1-D)."
            " The inverse radial cdf is finite on [0, 1) (F42 repaired; the np.divide shim now honours where= / out=)."
            " Matern with nu > 20: density = transform of the Gaussian-limit correlation the model has (F47 repaired); JBessel: tabulated transform for every nu (F50 repaired; the contract no longer copies the cap of the code).",
    "level_note": "floats as reals; erf/erfinv/arctan/tan/exp/log/sqrt/pow as uninterpreted functions with ground facts and logged hints (T4); derivative table T4 incl. erf and arctan; generic model with uninterpreted density for the model-independent relations; Fourier-pair core of C04: not applicable to contract-based verification (listed under residues).",
    "technique": "contract-based deductive verification: symbolic execution of the real Python methods against sidecar postconditions from the docstrings, VCs discharged by z3/cvc5 with instantiated axiom hints",
}
MODULES = ["contracts.c04"]


def run(rep, tier, seed, only=None):
    from gsvc import contract
    contract.standard_run(rep, "C04", MODULES, tier, seed, only)


def replay(path):
    from gsvc import contract
    return contract.standard_replay("C04", MODULES, path)
