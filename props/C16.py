LEVEL = "other"
MANIFEST = {
    "engine": "symrun",
    "category": "other",
    "text": "Decided part of C16: for the real IncomprRandMeth code path the output equals the documented solenoidal-projection formula, every mode satisfies k.p(k)=0, the divergence of the REAL output term (mechanical differentiation with the T4 derivative table) is identically zero at every point, and the output is affine in the iid amplitudes with constant part u_mean*e_1 (so its mean over the amplitudes is the mean velocity along the first axis and zero otherwise) -- for all positions, wave vectors, amplitudes, variances and mean velocities (symbolic), dims 2 and 3, N = 1, 2 modes (the sum over modes is proved for all N in the kernel contract C15). NOT decided: the proportions of the component variances (integrals of the projector over the sphere against the sampled spectrum) -- a distributional statement over seeds, outside contracts; therefore category other. Added after the seeding rounds: the statement is checked at field level -- SRF.__call__ through Field.pre_pos / CovModel.isometrize with symbolic model rotation: divergence zero in the user's coordinates and mean along the user's x axis (defect F25 found and repaired). Also: vector fields stored on meshio meshes are that field, one vector per node / cell, in the requested axis order."
            " Round 7: models with a nugget: add_nugget=False returns the pure divergence-free sum.",
    "level_note": "ghost RNG / kernel postcondition stubs as in C11; |k_j| > 0 is a precondition (radius 0 has probability 0 under the radius sampler: assumed); derivative table T4 (sin, cos, chain/product/quotient rules) applied mechanically to the extracted term; nugget on vector fields taken as written; variance proportions: not applicable to this technique.",
    "technique": "contract-based deductive verification: symbolic execution of the real Python methods against sidecar postconditions from the docstrings, VCs discharged by z3/cvc5 with instantiated axiom hints",
}
MODULES = ["contracts.c16"]


def run(rep, tier, seed, only=None):
    from gsvc import contract
    rep.stubs.add("gstools.field.generator.RNG -> ghost RNG (T5: deterministic in seed value and draw count)")
    rep.stubs.add("compiled kernels summate/summate_fourier/summate_incompr -> C15 postconditions as spec functions")
    contract.standard_run(rep, "C16", MODULES, tier, seed, only)


def replay(path):
    from gsvc import contract
    return contract.standard_replay("C16", MODULES, path)
