LEVEL = "other"
MANIFEST = {
    "engine": "symrun",
    "category": "other",
    "text": "Decided part of C02: (a) for all 17 classes and dims 1-4 the code's check_dim and declared optional-argument bounds lie inside the literature validity table T8 (an exhaustive finite check against the cited table), (b) the analytic spectral densities the generators sample from (Gaussian, Exponential, Matern, Integral, HyperSpherical, JBessel) are non-negative for ALL wave numbers and ALL parameters inside the bounds (symbolic; sign facts of exp, Gamma, J_nu^2, incomplete gamma), (c) cor(0) = 1, |cor(h)| <= 1 (and covariance(0) = var, variogram(0) = nugget) for the elementary families for all lags and parameters, (d) lat-lon validity reduces to 3-D validity via the chordal construction proved in C13. NOT decided by this technique: Bochner's theorem and the positive definiteness of each family in its domain (rows of T8, assumed literature), non-negativity of numerically (Hankel) transformed spectra and of the TPL superpositions, eigenvalue statements for finite matrices; hence category other. Added after the seeding rounds: the order dispatch inside tools.special.exp_int / inc_gamma (nearest integer order within the isclose window, documented recurrence) on the real functions, and a bounded comparison of exp_int with mpmath.expint on a grid."
            " Round 7: the Cubic model is rejected in four dimensions (F35 repaired; the case had been excluded from the contract before).",
    "level_note": "T8 literature table in contracts/c02.py (cited, assumed); special functions uninterpreted with textbook sign facts (T4); exp_int / inc_gamma_low replaced by their contracts for symbolic arguments; Cubic accepts dim 4 without warning although the literature gives validity in R^3 (observation, recorded in the contract file, not claimed); the analytic core of C02 (positive semi-definiteness itself): not applicable to contract-based verification.",
    "technique": "contract-based deductive verification: symbolic execution of the real Python methods against sidecar postconditions from the docstrings, VCs discharged by z3/cvc5 with instantiated axiom hints",
}
MODULES = ["contracts.c02"]


def run(rep, tier, seed, only=None):
    from gsvc import contract
    contract.standard_run(rep, "C02", MODULES, tier, seed, only)


def replay(path):
    from gsvc import contract
    return contract.standard_replay("C02", MODULES, path)
