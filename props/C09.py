"""C09 -- variogram estimation invariances and preprocessing semantics.

Layer A (contracts/c09_lemmas.py): spec-level lemmas over the proved kernel postconditions (C08).
Layer B (contracts/c09.py): what the real vario_estimate / vario_estimate_axis hand to the kernels
(symrun, capture stubs).  Plus native end-to-end probes on the compiled kernels (bounded).
"""
LEVEL = "other"
MANIFEST = {
    "engine": "kernvc+symrun",
    "category": "other",
    "text": "Three layers. (A) Spec-level lemmas about the PROVED pair-enumeration postcondition of the estimator "
            "kernels (C08), discharged by z3: adding a constant to the fields, translating the points, applying "
            "an orthogonal map Q (Q^T Q = I hypothesis, D = 1, 2, 3) leave counts and variogram of every bin "
            "unchanged; a field factor s scales Matheron and Cressie estimates by s^2; a point that is NaN in "
            "every field contributes to no bin; (pos, direction) -> (Q pos, Q direction) leaves angle and band "
            "test unchanged (D = 2, 3); binning against edges/geo_scale equals binning geo_scale*angle against "
            "the edges -- all for ARBITRARY numbers of points and fields (induction schema over the recursive "
            "spec sums). Permutation invariance and 'all-NaN point = removed point' are reduced to all-size "
            "pair-level lemmas (relabelled points, symmetry of the pair term) plus a combinatorial re-indexing "
            "step enumerated for n <= 4 points (bounded). The geometric lemma behind separate_dirs (directions "
            ">= 2 tol apart => at most one passes the angle test for a non-zero pair vector) is proved in cosine "
            "form for D = 2, 3. (B) Symbolic execution of the real vario_estimate / vario_estimate_axis with "
            "capture stubs for the kernels: positions with (mask OR masked-in-all-fields) removed, remaining "
            "masked / no_data / NaN values passed as NaN, directions normalised, angles via ang2dir (contract "
            "against the ISO convention), separate_dirs flag, sub-sampling applied to positions and fields with "
            "the same indices, lat-lon: haversine kernel with bin_edges/geo_scale, structured meshes in C order, "
            "preprocessing delegated to remove_trend_norm_mean, axis estimator mask/axis/reshape semantics -- "
            "values symbolic, shapes and missing-value patterns enumerated. (C) native seed-driven end-to-end "
            "probes of every invariance with the compiled kernels. Added after the seeding rounds: no_data = 0; automatic bins are the standard bins of the points actually used (after masking and down-sampling, in geo_scale units); a single direction with angles_tol up to and including pi/2 stays a directional estimate. Also: estimator names are matched case-insensitively and reach the kernels as 'm' / 'c'."
            " Round 7: fields given as a python list of masked arrays; a normalizer given as a class means a new default instance in every call (no fitted state leaks between calls); NaN entries are missing also when a non-NaN no_data marker is given to the axis estimator (F37 repaired).",
    "level_note": "category 'other': the wrapper layer is shape-enumerated (<= 4 points, <= 2 fields, dims 1-3, "
                  "enumerated mask / NaN / no_data / index patterns: bounded, not proved for all shapes) and the "
                  "permutation / removed-point lemmas are enumerated for n <= 4 in their combinatorial step. "
                  "Unbounded (all numbers of points and fields): f+c, s*f, translation, orthogonal maps (D <= 3), "
                  "NaN-point contribution, pair-term symmetry and relabelling, unit conversion. Reals, not floats "
                  "(T1); NaN as flag. The translation between the acos form of the direction test and the cosine "
                  "form of the separation lemma uses monotonicity of acos and cos(2x) = 2cos^2 x - 1 (T4, not "
                  "proved); coordinates adapted to the pair vector are justified by the rotation lemma of layer A. "
                  "sqrt(|u v|) = sqrt|u| sqrt|v| is an instantiated T4 axiom. The induction schema over spec sums "
                  "and the ideal-membership step of polynomial certificates are meta-level (trusted). "
                  "fit_normalizer (an optimiser) and the correctness of remove_trend_norm_mean (C18) are outside; "
                  "standard_bins (bin_edges=None) is only probed natively.",
    "technique": "contract-based deductive verification: induction-schema lemmas over recursive spec sums (z3), "
                 "polynomial-identity certificates, symbolic execution of the real Python wrappers with capture "
                 "stubs (symrun), native differential probes as bounded stand-in",
}
MODULES = ["contracts.c09"]

import math


def _probes(rep, tier, seed, only=None):
    import sys
    import time
    import numpy as np
    from gsvc import core
    if core.SRC not in sys.path:
        sys.path.insert(0, core.SRC)
    from gstools.variogram import vario_estimate, vario_estimate_axis
    ncase = 25 if tier == "quick" else 200
    FN = "variogram/variogram.py:vario_estimate"

    def close(a, b):
        a, b = np.asarray(a, float), np.asarray(b, float)
        return a.shape == b.shape and bool(np.all(np.abs(a - b) <= 1e-12 + 1e-9 * np.maximum(np.abs(a), np.abs(b))))

    def same(r1, r2, scale=1.0):
        return close(r1[0], r2[0]) and close(np.asarray(r1[1]) * scale, r2[1]) and \
            np.array_equal(np.asarray(r1[2]), np.asarray(r2[2]))

    def data(rng, dim=None, n=None, F=None, nan=True):
        dim = dim or int(rng.integers(1, 4))
        n = n or int(rng.integers(2, 9))
        F = F or int(rng.integers(1, 3))
        while True:
            pos = rng.integers(0, 6, size=(dim, n)).astype(float)
            if len({tuple(c) for c in pos.T}) == n or 6 ** dim < 2 * n:
                break
        f = rng.normal(size=(F, n))
        if nan and rng.random() < 0.5:
            f[rng.random((F, n)) < 0.2] = np.nan
        nb = int(rng.integers(1, 4))
        e = np.concatenate([[0.0], np.cumsum(rng.integers(1, 3, size=nb).astype(float))])
        est = ["matheron", "cressie"][int(rng.integers(0, 2))]
        return pos, f, e, est

    def sperm(rng, dim):
        Q = np.zeros((dim, dim))
        p = rng.permutation(dim)
        for r in range(dim):
            Q[r, p[r]] = float(rng.choice([-1.0, 1.0]))
        return Q

    def fam_permutation(rng):
        pos, f, e, est = data(rng)
        p = rng.permutation(pos.shape[1])
        a = vario_estimate(pos, f, e, estimator=est, return_counts=True)
        b = vario_estimate(pos[:, p], f[:, p], e, estimator=est, return_counts=True)
        return same(a, b), {"pos": pos, "field": f, "bin_edges": e, "perm": p, "estimator": est}, a[1:], b[1:]

    def fam_rigid(rng):
        pos, f, e, est = data(rng)
        dim = pos.shape[0]
        Q, t = sperm(rng, dim), rng.integers(-5, 6, size=(dim, 1)).astype(float)
        a = vario_estimate(pos, f, e, estimator=est, return_counts=True)
        b = vario_estimate(Q @ pos + t, f, e, estimator=est, return_counts=True)
        return same(a, b), {"pos": pos, "field": f, "bin_edges": e, "Q": Q, "t": t, "estimator": est}, a[1:], b[1:]

    def fam_shift_scale(rng):
        pos, f, e, est = data(rng)
        c, s = float(rng.integers(-8, 9)) / 4, float(rng.choice([-2.0, 0.5, 3.0, -1.5]))
        a = vario_estimate(pos, f, e, estimator=est, return_counts=True)
        b = vario_estimate(pos, f + c, e, estimator=est, return_counts=True)
        d = vario_estimate(pos, f * s, e, estimator=est, return_counts=True)
        ok = same(a, b) and same(a, d, scale=s * s)
        return ok, {"pos": pos, "field": f, "bin_edges": e, "c": c, "s": s, "estimator": est}, a[1:], (b[1:], d[1:])

    def fam_masked(rng):
        pos, f, e, est = data(rng, nan=False, F=int(rng.integers(1, 3)))
        n = pos.shape[1]
        drop = rng.random(n) < 0.35
        if drop.all():
            drop[0] = False
        how = int(rng.integers(0, 4))
        ref = vario_estimate(pos[:, ~drop], f[:, ~drop], e, estimator=est, return_counts=True)
        kw = {}
        if how == 0:
            fld = f.copy()
            kw["mask"] = drop
        elif how == 1:
            fld = np.ma.array(f.copy(), mask=np.tile(drop, (f.shape[0], 1)))
        elif how == 2:
            fld = f.copy()
            fld[:, drop] = np.nan
        else:
            fld = f.copy()
            fld[:, drop] = -9999.0 + 0.05           # matched by np.isclose (rtol 1e-5)
            kw["no_data"] = -9999.0
        got = vario_estimate(pos, fld, e, estimator=est, return_counts=True, **kw)
        return same(ref, got), {"pos": pos, "field": f, "bin_edges": e, "dropped": drop,
                                "encoding": ["mask", "masked_array", "nan", "no_data"][how], "estimator": est}, ref[1:], got[1:]

    def fam_sampling(rng):
        pos, f, e, est = data(rng, n=int(rng.integers(4, 10)), nan=False)
        n = pos.shape[1]
        k, sd = int(rng.integers(2, n)), int(rng.integers(0, 10 ** 6))
        idx = np.random.RandomState(sd).choice(np.arange(n), k, replace=False)
        ref = vario_estimate(pos[:, idx], f[:, idx], e, estimator=est, return_counts=True)
        got = vario_estimate(pos, f, e, estimator=est, sampling_size=k, sampling_seed=sd, return_counts=True)
        return same(ref, got), {"pos": pos, "field": f, "bin_edges": e, "size": k, "seed": sd, "estimator": est}, ref[1:], got[1:]

    def fam_units(rng):
        n = int(rng.integers(2, 8))
        pos = np.vstack([rng.uniform(-70, 70, size=n), rng.uniform(-170, 170, size=n)])
        f = rng.normal(size=n)
        e = np.concatenate([[0.0], np.cumsum(rng.uniform(0.2, 0.9, size=int(rng.integers(1, 4))))])
        est = ["matheron", "cressie"][int(rng.integers(0, 2))]
        g = float(rng.choice([2.0, 0.5, 8.0, 64.0]))          # powers of two: the division is exact
        ref = vario_estimate(pos, f, e, estimator=est, latlon=True, return_counts=True)
        got = vario_estimate(pos, f, e * g, estimator=est, latlon=True, geo_scale=g, return_counts=True)
        ok = close(ref[1], got[1]) and np.array_equal(ref[2], got[2]) and close(np.asarray(ref[0]) * g, got[0])
        return ok, {"pos": pos, "field": f, "bin_edges_rad": e, "geo_scale": g, "estimator": est}, ref[1:], got[1:]

    def fam_dir_rot(rng):
        dim = int(rng.integers(2, 4))
        pos, f, e, est = data(rng, dim=dim)
        nd = int(rng.integers(1, 3))
        d = rng.integers(-2, 3, size=(nd, dim)).astype(float)
        d[np.all(d == 0, axis=1)] = 1.0
        tol = float(rng.choice([0.3, math.pi / 8, 0.9]))
        bw = [None, 1.5][int(rng.integers(0, 2))]
        Q = sperm(rng, dim)
        ref = vario_estimate(pos, f, e, estimator=est, direction=d, angles_tol=tol, bandwidth=bw, return_counts=True)
        got = vario_estimate(Q @ pos, f, e, estimator=est, direction=d @ Q.T, angles_tol=tol, bandwidth=bw, return_counts=True)
        return same(ref, got), {"pos": pos, "field": f, "bin_edges": e, "direction": d, "Q": Q, "tol": tol,
                                "bandwidth": bw, "estimator": est}, ref[1:], got[1:]

    def mk_struct(shape):
        def fam(rng):
            dim = len(shape)
            axes = [np.cumsum(rng.integers(1, 3, size=s).astype(float)) for s in shape]
            F = int(rng.integers(1, 3))
            f = rng.normal(size=(F,) + tuple(shape))
            e = np.concatenate([[0.0], np.cumsum(rng.integers(1, 3, size=2).astype(float))])
            est = ["matheron", "cressie"][int(rng.integers(0, 2))]
            grid = np.array(np.meshgrid(*axes, indexing="ij")).reshape(dim, -1)
            ref = vario_estimate(grid, f.reshape(F, -1), e, estimator=est, return_counts=True)
            got = vario_estimate(axes if dim > 1 else axes[0], f if F > 1 else f[0], e, estimator=est,
                                 mesh_type="structured", return_counts=True)
            return same(ref, got), {"axes": axes, "field": f, "bin_edges": e, "estimator": est}, ref[1:], got[1:]
        return fam

    fams = [("permutation-of-points", fam_permutation, "random permutations, lattice points, 1-2 fields with NaNs, dim 1-3"),
            ("rigid-motion", fam_rigid, "signed permutation matrices (rotations/reflections) + integer translations (exact in floats)"),
            ("field-shift-and-scale", fam_shift_scale, "f+c leaves, s*f scales by s^2, both estimators"),
            ("masked==removed", fam_masked, "mask / masked array / NaN / no_data encodings of whole points vs the reduced point list"),
            ("sampling==subset", fam_sampling, "sampling_size/seed vs RandomState(seed).choice subset"),
            ("geo_scale-unit-conversion", fam_units, "lat-lon, bin edges in radians vs edges*geo_scale with geo_scale"),
            ("directional-rotates-with-coordinates", fam_dir_rot, "1-2 directions, tolerance, bandwidth, signed permutation Q")]
    for shp in ((3,), (2, 3), (3, 3), (2, 2), (2, 2, 2), (2, 3, 2)):
        fams.append(("structured==unstructured[shape=%s]" % "x".join(map(str, shp)), mk_struct(shp),
                     "structured mesh of that shape vs its point list, 1-2 fields"))
    for name, f, desc in fams:
        oid = "C09/probe/%s" % name
        if only and only not in oid:
            continue
        t0 = time.time()
        bad = None
        done = 0
        for k in range(ncase):
            rng = np.random.default_rng([seed, k, len(name)])
            try:
                ok, inp, ref, got = f(rng)
            except Exception:
                import traceback
                bad = ("exception", traceback.format_exc()[-1200:], None, None)
                break
            done += 1
            if not ok:
                bad = ("mismatch", inp, ref, got)
                break
        if bad is None:
            rep.add(core.Obligation(oid, core.BOUNDED, backend="native-probe", time_s=time.time() - t0,
                                    bound="%d seed-driven inputs (VERIF_SEED=%d), compiled kernels: %s" % (done, seed, desc),
                                    functions=[FN]))
        elif bad[0] == "exception":
            rep.add(core.Obligation(oid, core.ERROR, backend="native-probe", detail=bad[1], functions=[FN]))
        else:
            rep.add(core.Obligation(oid, core.FAILED, backend="native-probe",
                                    detail="invariance violated on the real vario_estimate with the compiled kernels",
                                    witness={"class": "native probe: " + name, "inputs": core._jsonable(bad[1]),
                                             "reference": core._jsonable(bad[2]), "observed": core._jsonable(bad[3])},
                                    functions=[FN], replay={"kind": "probe", "family": name}))


def run(rep, tier, seed, only=None):
    from gsvc import contract
    from contracts import c09_lemmas
    rep.backend_cmd = "./check C09 --tier %s   (z3 python API %s)" % (tier, __import__("z3").get_version_string())
    if not only or "lemma" in only:
        c09_lemmas.run(rep, tier, seed, only=only)
    if not only or "probe" in only:
        _probes(rep, tier, seed, only=only)
    if not only or ("lemma" not in only and "probe" not in only):
        rep.stubs.add("compiled estimator kernels in variogram.py -> capture stubs (layer B)")
        rep.stubs.add("remove_trend_norm_mean -> capture stub (C18)")
        rep.stubs.add("np.random.RandomState -> ghost index source (T5)")
        contract.standard_run(rep, "C09", MODULES, tier, seed, only)
    if tier == "thorough" and not only:
        # size-generic re-indexing lemma (the part enumerated for n <= 4 in layer A): Lean/Mathlib
        from gsvc.leancheck import add_lean_obligations
        add_lean_obligations(rep, "C09", ["pair_sum_perm"])
    rep.trust("induction schema over the upper bound of recursive spec sums (contracts/c09_lemmas.py): "
              "[n <= lo => P(n)] and [n > lo, P(n-1) => P(n)] give P(n) for all integers n")
    rep.trust("polynomial certificates: lhs - rhs == sum_k c_k (p_k - q_k) is proved as an identity by z3; "
              "lhs == rhs under the hypotheses p_k == q_k follows by ideal membership")
    rep.trust("kernel postconditions of C08 (contracts/kernels.py) are the starting point of layer A")
    rep.assume("T4 instances: sqrt(|u v|) = sqrt|u| sqrt|v|, sqrt(|s|)^2 = |s|, sin(-x) = -sin x; acos decreasing on "
               "[0,1] and cos(2x) = 2cos^2 x - 1 for the cosine form of the separation lemma")
    rep.assume("T5: numpy RandomState(seed).choice is a deterministic function of the seed (ghost index source)")
    rep.assume("remove_trend_norm_mean is correct (C18); fit_normalizer is an optimiser (no contract)")
    rep.explanation = ("lemma.* = spec-level obligations (induction schema base/step, direct, identity, bounded "
                       "re-indexing); vario_estimate*/... = wrapper obligations per enumerated shape/pattern "
                       "(bounded); probe/* = native end-to-end probes (bounded).")
    for o in rep.obls:
        if o.id.endswith("field-times-factor/Sm[cressie].step") or o.id.endswith("orthogonal-map[D=3]/isometry.identity") \
                or "transposition(0,3)[n=4]" in o.id or o.id.endswith("probe/masked==removed"):
            rep.sample(o.to_json())


def replay(path):
    import json
    data = json.load(open(path))
    rp = data.get("replay") or {}
    if rp.get("kind") in ("probe", "lemma"):
        from gsvc import core
        rep = core.Report("C09", "quick", int(__import__("os").environ.get("VERIF_SEED", "0")))
        if rp.get("kind") == "probe":
            _probes(rep, "quick", rep.seed, only="probe/" + rp["family"])
        else:
            from contracts import c09_lemmas
            c09_lemmas.run(rep, "quick", rep.seed, only=rp["obligation"].split("/", 1)[1])
        bad = [o for o in rep.obls if o.status == core.FAILED]
        for o in rep.obls:
            print(o.id, o.status)
        if bad:
            print("VIOLATION property=C09 replay=%s" % path)
            return 1
        return 0
    from gsvc import contract
    return contract.standard_replay("C09", MODULES, path)
