LEVEL = "proof"
MANIFEST = {
    "engine": "symrun",
    "category": "proof",
    "text": "Postconditions on the real array_* functions of transform/array.py for ALL field values, means, variances, bounds, values and thresholds (symbolic reals): each output equals the documented quantile map composed with the normal cdf Phi((x-mu)/sigma) = (1+erf((x-mu)/(sigma sqrt 2)))/2 -- uniform low+(high-low)Phi inside (low, high) and increasing; arcsine a+(b-a)sin^2(pi Phi/2) inside [a,b]; U-quadratic: (out-beta)^3 = 3 Phi/alpha-(beta-a)^3, i.e. F(out)=Phi for the U-quadratic cdf, on all three sign branches of the cube root, inside [a,b], increasing; the default bounds mu -+ sqrt(2 var) / mu -+ sqrt(5/3 var) give those laws mean mu and variance var; Zinn-Harvey mu -+ sigma Phi^-1(F_|Z|(|z|)), even and order reversing; log-normal exp; Box-Cox equals BoxCox(lmbda)._denormalize after the shift, is inverted by BoxCox._normalize, and is cut off to 0 below the range (lmbda > 0); force-moments gives exactly the requested sample mean and variance; discrete/binary outputs take only the given values with classes (-inf,t0], (t0,t1], ..., (t_last,inf) for explicit thresholds, midpoints of the sorted values (arithmetic) and the normal quantiles at k/n (equal); every transform.field wrapper / Field.transform passes mean = field mean (0 when process and not keep_mean) and var = model sill, wraps with _pre_process/_post_process, stores under the requested name and refuses non-normal fields unless process=True. Added after the seeding rounds: arcsine / U-quadratic with exactly one bound given; all four (process, keep_mean) combinations of the wrappers. Also: Field.transform('discrete') accepts thresholds as str, list, tuple and ndarray (F33 repaired)."
            " Round 7: each default of the binary transform is independent (custom values with default divide and vice versa); array_discrete returns the given values for every input dtype (F36 repaired).",
    "level_note": "values unbounded (symbolic); obligations whose code depends on the shape (force-moments with n<=3 values, sample-statistics defaults with 2 values are plain obligations on 2-element arrays, Field wrappers with 1-2 stored values) are reported BOUNDED where marked; pointwise obligations on 1-element arrays count as proved (numpy elementwise semantics, T2). ASSUMED (T8, not proved): the probability integral transform -- a quantile map composed with the normal cdf pushes N(mu, sigma^2) to the law with that quantile function; hence the obligations establish the documented MAPS, and the statement about the resulting marginal law follows only with this lemma. erf/erfinv are uninterpreted (range, oddness, monotonicity, inverse pair as ground facts): a wrong argument, factor or composition is detected, a wrong scipy value is not; the constants erfinv(2k/n-1) of the equal-probability thresholds are computed natively the way the code does and checked natively to satisfy Phi = k/n. sqrt(2 var) = sqrt(var) sqrt(2) and (y^(1/3))^3 = y are instantiated textbook facts (T4); the cube-root form of the U-quadratic ppf is stated through its cube (unique real root) symbolically and in the cbrt form natively. floats as reals (T1); np.isclose(lmbda, 0) in array_boxcox is modelled exactly. Box-Cox cut-off for lmbda < 0 (0^(1/lmbda) = inf) is not specified by the docstring and not claimed.",
    "technique": "contract-based deductive verification: symbolic execution of the real Python functions against sidecar postconditions from the docstrings, VCs discharged by z3/cvc5 with instantiated axiom hints",
}
MODULES = ["contracts.c19"]


def run(rep, tier, seed, only=None):
    from gsvc import contract
    rep.assume("T8 (assumed lemma): probability integral transform -- if X ~ N(mu, sigma^2) then F^-1(Phi((X-mu)/sigma)) has the law with quantile function F^-1")
    contract.standard_run(rep, "C19", MODULES, tier, seed, only)


def replay(path):
    import importlib
    import gstools  # noqa: F401
    from gsvc import symrun
    symrun.install_shims()
    c18 = importlib.import_module("contracts.c18")
    importlib.import_module("contracts.c19")
    return c18.replay_file("C19", path)
