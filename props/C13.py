LEVEL = "proof"
MANIFEST = {
    "engine": "symrun",
    "category": "proof",
    "text": "Postconditions on the real coordinate functions (latlon2pos, pos2latlon, chordal/great-circle conversions, CovModel.isometrize/anisometrize for lat-lon and temporal models, set_model_angles) for ALL latitudes, longitudes, radii, time scales (symbolic reals): sphere embedding, chord = haversine geometry, Yadrenko covariance = covariance fields/kriging use, round trips, time axis only scaled and never rotated (dims 2-4). Added after the seeding rounds: Krige(fit_variogram=True) estimates the great-circle variogram in the model's geo_scale unit; standard_bins for lat-lon data composes the sphere embedding and the chord-to-arc conversion as documented (modular: callee contracts). Also: universal kriging with longitudes in any range (F32 repaired), pykrige_vario in geo_scale units (F31 repaired), standard_bins on structured lat-lon grids."
            " Round 7: the time axis stays unrotated also for angles assigned after construction.",
    "level_note": "floats as reals (T1); sin/cos/arcsin/arctan2/sqrt as uninterpreted functions with ground facts, angle-difference and half-angle identities instantiated as logged hints (T4); generic model = user CovModel subclass with uninterpreted cor; estimator-side haversine formula is proved in the kernel contracts (C08/C15) and shares the spec function here.",
    "technique": "contract-based deductive verification: class invariant + per-method pre/postconditions on the real CovModel methods, symbolic execution, VCs discharged by z3/cvc5",
}
MODULES = ["contracts.c13"]


def run(rep, tier, seed, only=None):
    from gsvc import contract
    contract.standard_run(rep, "C13", MODULES, tier, seed, only)
    if not only:
        _position_read_facts(rep)


def replay(path):
    from gsvc import contract
    return contract.standard_replay("C13", MODULES, path)


def _position_read_facts(rep):
    """lat-lon (and every other) kriging reads the conditioning / target positions only through
    model.isometrize (+ anisometrize for drift functions): read sets of the frames engine"""
    import time
    from gsvc import frames
    from gsvc.core import Obligation, DISCHARGED, FAILED, ERROR
    for q, must in (("Krige.set_condition", "model.isometrize()"), ("Krige._get_krige_vecs", "model.cov_nugget"),
                    ("Krige._get_krige_mat", "model.covariance()")):
        oid = "C13/reads/krige/base.py:%s/positions-only-through-%s" % (q, must.replace("()", ""))
        t0 = time.time()
        try:
            r = set(frames.reads("krige/base.py", q))
        except Exception as e:
            rep.add(Obligation(oid, ERROR, "dataflow", 0.0, "reads() failed: %r" % (e,)))
            continue
        bad = sorted(x for x in r if x.split(".")[-1].replace("()", "") in ("latlon2pos", "pos2latlon"))
        ok = must in r and not bad
        rep.add(Obligation(oid, DISCHARGED if ok else FAILED, "dataflow", time.time() - t0,
                           "" if ok else "missing %s or direct geometry reads %s" % (must, bad),
                           witness=None if ok else {"function": q, "reads": sorted(r)[:30], "how": "frames read set"},
                           functions=["krige/base.py:" + q]))
