LEVEL = "proof"
MANIFEST = {
    "engine": "symrun",
    "category": "proof",
    "text": "Postconditions on the real coordinate functions (latlon2pos, pos2latlon, chordal/great-circle conversions, CovModel.isometrize/anisometrize for lat-lon and temporal models, set_model_angles) for ALL latitudes, longitudes, radii, time scales (symbolic reals): sphere embedding, chord = haversine geometry, Yadrenko covariance = covariance fields/kriging use, round trips, time axis only scaled and never rotated (dims 2-4).",
    "level_note": "floats as reals (T1); sin/cos/arcsin/arctan2/sqrt as uninterpreted functions with ground facts, angle-difference and half-angle identities instantiated as logged hints (T4); generic model = user CovModel subclass with uninterpreted cor; estimator-side haversine formula is proved in the kernel contracts (C08/C15) and shares the spec function here.",
    "technique": "contract-based deductive verification: class invariant + per-method pre/postconditions on the real CovModel methods, symbolic execution, VCs discharged by z3/cvc5",
}
MODULES = ["contracts.c13"]


def run(rep, tier, seed, only=None):
    from gsvc import contract
    contract.standard_run(rep, "C13", MODULES, tier, seed, only)


def replay(path):
    from gsvc import contract
    return contract.standard_replay("C13", MODULES, path)
