LEVEL = "other"
MANIFEST = {
    "engine": "symrun",
    "category": "other",
    "text": "Decided part of C01 (the deterministic half, conditional on the drawn wave vectors): the real generator output is linear in the iid standard-normal amplitudes, so over the amplitudes E field = 0, Var field(x) = var exactly at every x for every set of wave vectors, Cov(field(x), field(y)) = var/N sum_j cos(k_j.(x-y)) (RandMeth), Var = sum_j S(|k_j|) prod(delta_k) (Fourier: the Riemann sum of the spectrum, i.e. the discretisation-error form), nugget noise adds exactly nugget; the sphere sampler returns unit vectors; the radius sampler is handed the model's own spectral_rad_pdf/cdf/ppf resp. ln_spectral_rad_pdf; positions reach the generator only through model.isometrize. All for symbolic positions, wave vectors, variances (values unbounded), dims 1-3, N = 1, 2 modes (sum over modes proved for all N in C15). NOT decided by this technique: that the sampled radii follow the spectral pdf (scipy rvs / emcee), Bochner's theorem (E_k cos(k.h) = C(h)/var, with C04's Fourier pair), the Monte-Carlo rate in N, anything quantified over seeds -- the larger half of the statement; hence category other. Added after the seeding rounds: with `point_volumes` the generated field is rescaled by sqrt(scaled_var / sill) (unchanged for no_scaling, documented factor for coarse graining).",
    "level_note": "ghost RNG (T5) and kernel postcondition stubs as in C11; amplitudes iid N(0,1) assumed (numpy normal); coefficients extracted by the mechanical derivative table; spectral density >= 0 assumed where a square root of it is taken (C02); distributional core of C01: not applicable to contract-based verification.",
    "technique": "contract-based deductive verification: symbolic execution of the real Python methods against sidecar postconditions from the docstrings, VCs discharged by z3/cvc5 with instantiated axiom hints",
}
MODULES = ["contracts.c01"]


def run(rep, tier, seed, only=None):
    from gsvc import contract
    rep.stubs.add("gstools.field.generator.RNG -> ghost RNG (T5: deterministic in seed value and draw count)")
    rep.stubs.add("compiled kernels summate/summate_fourier/summate_incompr -> C15 postconditions as spec functions")
    contract.standard_run(rep, "C01", MODULES, tier, seed, only)


def replay(path):
    from gsvc import contract
    return contract.standard_replay("C01", MODULES, path)
