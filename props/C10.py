LEVEL = "other"
MANIFEST = {
    "engine": "symrun",
    "category": "other",
    "text": "TODO",
    "level_note": "TODO",
    "technique": "contract-based deductive verification: symbolic execution of the real Python functions against sidecar postconditions from the docstrings, VCs discharged by z3/cvc5",
}
MODULES = ["contracts.c10"]


def run(rep, tier, seed, only=None):
    from gsvc import contract
    contract.standard_run(rep, "C10", MODULES, tier, seed, only)


def replay(path):
    from gsvc import contract
    return contract.standard_replay("C10", MODULES, path)
