LEVEL = "proof"
MANIFEST = {
    "engine": "symrun",
    "category": "proof",
    "text": "Generator state is a function of (seed value, model view, settings): for RandMeth and Fourier every public mutator (update with a changed model / seed, seed / mode_no / period setters, reset_seed, in-place model change followed by SRF.__call__) is proved to end in exactly the state a freshly constructed generator has, for ALL parameter values and seeds (symbolic reals), so all call histories follow by induction; the output is the pointwise defining sum of the proved kernel postconditions (order, subset, batch, mesh type and storage name cannot matter); equal seed VALUES give equal states including the random-stream position. Added after the seeding rounds: in-place anis/angles/len_scale changes followed by a call that reuses the stored positions; models that differ only in an optional argument; the seed-value determinism of the real RNG / MasterRNG classes (the assumption behind the ghost RNG) checked natively for the boundary seeds 0 and 2**32-1. Also: Field.mesh on meshio meshes stores the field values at the nodes / cell centroids in the requested axis order (scalar and vector fields, several cell blocks)."
            " Round 7: Fourier.update with model, seed and mesh settings in one call equals a fresh generator (F34 repaired); store and post_process options of SRF.__call__ act independently (symbolic non-zero mean).",
    "level_note": "random draws are ghost terms: uninterpreted functions of (seed value, sub-stream index, element index, numeric model view) -- this is the assumed dependency contract that numpy RandomState/MasterRNG/emcee/scipy rvs are deterministic functions of the seed value and the draw count (T5); compiled kernels are replaced by their C15 postconditions in symbolic runs and run natively in the spot checks; wrapper obligations are shape-enumerated (modes <= 3, points <= 2: reported as bounded), state obligations use 2-4 modes per axis and dim 1-2; floats as reals (T1).",
    "technique": "contract-based deductive verification: symbolic execution of the real Python methods against sidecar postconditions from the docstrings, VCs discharged by z3/cvc5 with instantiated axiom hints",
}
MODULES = ["contracts.c11"]


def run(rep, tier, seed, only=None):
    from gsvc import contract
    rep.stubs.add("gstools.field.generator.RNG -> ghost RNG (T5: deterministic in seed value and draw count)")
    rep.stubs.add("compiled kernels summate/summate_fourier/summate_incompr -> C15 postconditions as spec functions")
    contract.standard_run(rep, "C11", MODULES, tier, seed, only)


def replay(path):
    from gsvc import contract
    return contract.standard_replay("C11", MODULES, path)
