"""Abstract domain of the `frames` engine: abstract values (origins x kinds x structure)."""

ARRAYISH = frozenset(("nd", "ma", "any"))
IMMUTABLE = frozenset(("scalar", "none", "str", "func", "mod"))
NOCONST = ("<noconst>",)
_EMPTY = frozenset()


class AV:
    """Abstract value.

    kinds : subset of {nd, ma, list, tuple, dict, set, scalar, none, str, obj, func, mod, any}
    orig  : provenance roots of the memory of the object itself
            P:<param>  S:<recv>.<attr>  N:<label>  U:<what>  G:<module.NAME>
    elem  : AV of the elements (containers); for kind `any` the elements are the value itself
    items : tuple of AV for tuples of statically known arity
    refs  : callable / class / module references carried by the value
    cls   : possible (super)classes of an object value (names of package classes)
    const : python constant (bool/None/str/int) when statically known
    """
    __slots__ = ("kinds", "orig", "elem", "items", "refs", "cls", "const", "msh", "ident", "_h")

    def __init__(self, kinds=(), orig=(), elem=None, items=None, refs=(), cls=(), const=NOCONST,
                 msh=None, ident=None):
        kinds = frozenset(kinds)
        orig = frozenset(orig)
        if kinds and kinds <= IMMUTABLE:
            orig = _EMPTY
        self.kinds = kinds
        self.orig = orig
        self.elem = elem
        self.items = tuple(items) if items is not None else None
        self.refs = frozenset(refs)
        self.cls = frozenset(cls)
        self.const = const
        # masked arrays: msh = provenance roots the MASK buffer may share memory with
        #   None       -> not tracked separately: the mask shares whatever `orig` says
        #   frozenset  -> exactly these (empty after an effective x.unshare_mask())
        # ident: False only if the value is known to be a NEW array object (np.ma.array(...),
        #   slicing, reshape ...); None/True = may be the very object the origin refers to
        #   (then unshare_mask() gives no guarantee)
        self.msh = frozenset(msh) if msh is not None else None
        self.ident = ident
        self._h = None

    def key(self):
        return (self.kinds, self.orig, self.elem.key() if self.elem is not None else None,
                tuple(i.key() for i in self.items) if self.items is not None else None,
                self.refs, self.cls, self.const if _hashable(self.const) else NOCONST,
                self.msh, self.ident)

    @property
    def mask_orig(self):
        """provenance roots the mask buffer may share memory with"""
        return self.orig if self.msh is None else self.msh

    def __eq__(self, other):
        return isinstance(other, AV) and self.key() == other.key()

    def __hash__(self):
        if self._h is None:
            self._h = hash(self.key())
        return self._h

    def __repr__(self):
        s = "AV(%s|%s" % (",".join(sorted(self.kinds)), ",".join(sorted(self.orig)))
        if self.items is not None:
            s += "|items=%r" % (self.items,)
        elif self.elem is not None:
            s += "|elem=%r" % (self.elem,)
        if self.cls:
            s += "|cls=%s" % ",".join(sorted(self.cls))
        if self.refs:
            s += "|refs=%d" % len(self.refs)
        if self.const is not NOCONST:
            s += "|const=%r" % (self.const,)
        return s + ")"

    # ------------------------------------------------------------------
    def replace(self, **kw):
        d = dict(kinds=self.kinds, orig=self.orig, elem=self.elem, items=self.items,
                 refs=self.refs, cls=self.cls, const=self.const, msh=self.msh, ident=self.ident)
        d.update(kw)
        return AV(**d)

    @property
    def arrayish(self):
        return bool(self.kinds & ARRAYISH)

    @property
    def is_bottom(self):
        return not self.kinds and not self.orig and not self.refs

    @property
    def only_immutable(self):
        return bool(self.kinds) and self.kinds <= IMMUTABLE

    def element(self):
        """Abstract value of an element / row / view obtained by iteration or basic indexing."""
        parts = []
        if self.kinds & ARRAYISH:
            k = set(self.kinds & ARRAYISH)
            k.add("scalar")
            parts.append(AV(k, self.orig))
            if "any" in self.kinds and self.elem is not None and self.elem is not self:
                parts.append(self.elem)
        if self.kinds & {"list", "tuple", "dict", "set"}:
            if self.items is not None and self.items:
                parts.append(join_all(self.items))
            elif self.elem is not None:
                parts.append(self.elem)
            elif self.items is None:
                parts.append(AV(("any",), self.orig))
        if self.kinds & {"str"}:
            parts.append(SCALAR)
        if self.kinds & {"obj"}:
            parts.append(AV(("any",), self.orig))
        if not parts:
            return AV(("any",), self.orig) if self.orig else SCALAR
        return join_all(parts)


def _hashable(x):
    try:
        hash(x)
        return True
    except TypeError:
        return False


BOTTOM = AV()
SCALAR = AV(("scalar",))
NONE = AV(("none",), const=None)
STR = AV(("str",))


def const(v):
    if v is None:
        return NONE
    if isinstance(v, bool):
        return AV(("scalar",), const=v)
    if isinstance(v, str):
        return AV(("str",), const=v)
    if isinstance(v, (int, float, complex)):
        return AV(("scalar",), const=v if isinstance(v, int) else NOCONST)
    return SCALAR


def join(a, b, depth=0):
    if a is b or b is None or b.is_bottom:
        return a
    if a is None or a.is_bottom:
        return b
    if a == b:
        return a
    elem = None
    items = None
    if a.items is not None and b.items is not None and len(a.items) == len(b.items) \
            and not ((a.kinds | b.kinds) - {"tuple"}):
        items = tuple(join(x, y, depth + 1) for x, y in zip(a.items, b.items))
    else:
        ea = _elem_for_join(a)
        eb = _elem_for_join(b)
        if ea is not None or eb is not None:
            elem = join(ea, eb, depth + 1) if depth < 4 else (ea or eb)
    c = a.const if (a.const is not NOCONST and _hashable(a.const) and b.const is not NOCONST
                    and a.const == b.const and type(a.const) is type(b.const)) else NOCONST
    # msh None is equivalent to msh == orig
    msh = None if (a.msh is None and b.msh is None) else (a.mask_orig | b.mask_orig)
    ident = False if (a.ident is False and b.ident is False) else (
        a.ident if not (b.kinds & {"ma", "nd", "any"}) else
        b.ident if not (a.kinds & {"ma", "nd", "any"}) else None)
    return AV(a.kinds | b.kinds, a.orig | b.orig, elem, items, a.refs | b.refs, a.cls | b.cls, c,
              msh, ident)


def _elem_for_join(a):
    if a.items is not None:
        return join_all(a.items) if a.items else None
    return a.elem


def join_all(avs):
    out = BOTTOM
    for a in avs:
        out = join(out, a)
    return out


def deep_orig(av, _d=0):
    """All provenance roots reachable from the value (containers included)."""
    if av is None:
        return _EMPTY
    o = set(av.orig)
    if _d < 5:
        if av.items is not None:
            for i in av.items:
                o |= deep_orig(i, _d + 1)
        if av.elem is not None and av.elem is not av:
            o |= deep_orig(av.elem, _d + 1)
    return frozenset(o)


def array_deep_orig(av, _d=0):
    """Provenance roots of array memory reachable from the value (what a callee that
    `modifies` this argument may write to)."""
    if av is None or av.only_immutable:
        return _EMPTY
    o = set()
    if av.kinds & ARRAYISH:
        o |= av.orig
    if _d < 5:
        if av.items is not None:
            for i in av.items:
                o |= array_deep_orig(i, _d + 1)
        if av.elem is not None and av.elem is not av:
            o |= array_deep_orig(av.elem, _d + 1)
        if av.kinds & {"list", "tuple", "dict", "set"} and av.items is None and av.elem is None:
            o |= av.orig
    return frozenset(o)


def map_orig(av, fn, _d=0):
    """Apply fn: origin -> iterable of origins to every origin of the value."""
    if av is None:
        return None
    no = set()
    for o in av.orig:
        no.update(fn(o))
    elem = map_orig(av.elem, fn, _d + 1) if (av.elem is not None and _d < 5) else av.elem
    items = tuple(map_orig(i, fn, _d + 1) for i in av.items) if (av.items is not None and _d < 5) \
        else av.items
    nm = None
    if av.msh is not None:
        nm = set()
        for o in av.msh:
            nm.update(fn(o))
    return AV(av.kinds, no, elem, items, av.refs, av.cls, av.const, nm, av.ident)


# ---------------------------------------------------------------------------------------------
# serialisation of abstract values in contracts (origins are templates: N = fresh)
def av_to_ret(av, escaped=None, depth=0):
    if av is None or av.is_bottom:
        return None
    o = set()
    for x in av.orig:
        if x.startswith("N:"):
            if escaped and x in escaped:
                o.add(escaped[x])
            else:
                o.add("N")
        else:
            o.add(x)
    d = {"k": sorted(av.kinds), "o": sorted(o)}
    if av.cls:
        d["c"] = sorted(av.cls)
    if depth < 3:
        if av.items is not None:
            d["i"] = [av_to_ret(i, escaped, depth + 1) for i in av.items]
        elif av.elem is not None and av.elem is not av:
            d["e"] = av_to_ret(av.elem, escaped, depth + 1)
    else:
        extra = deep_orig(av) - av.orig
        if extra:
            d["o"] = sorted(set(d["o"]) | {("N" if x.startswith("N:") else x) for x in extra})
    if av.const is not NOCONST and isinstance(av.const, (bool, type(None))):
        d["v"] = av.const
    return d


def ret_to_av(ret, subst):
    """subst: origin template -> iterable of concrete origins."""
    if ret is None:
        return BOTTOM
    o = set()
    for t in ret.get("o", ()):
        o.update(subst(t))
    items = None
    elem = None
    if "i" in ret:
        items = tuple(ret_to_av(i, subst) if i is not None else BOTTOM for i in ret["i"])
    elif "e" in ret:
        elem = ret_to_av(ret["e"], subst)
    c = ret["v"] if "v" in ret else NOCONST
    return AV(ret.get("k", ()), o, elem, items, (), ret.get("c", ()), c)


def ret_origins(ret, _acc=None):
    acc = set() if _acc is None else _acc
    if ret:
        acc.update(ret.get("o", ()))
        for i in ret.get("i", ()) or ():
            ret_origins(i, acc)
        if ret.get("e"):
            ret_origins(ret["e"], acc)
    return acc


def join_ret(a, b):
    if a is None:
        return b
    if b is None:
        return a
    ident = lambda t: (t,)
    return av_to_ret(join(ret_to_av(a, ident), ret_to_av(b, ident)))
