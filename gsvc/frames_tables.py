"""Alias / mutation contracts of numpy, scipy and the builtins as used by the `frames` engine.

This is the trusted table T3b of DESIGN.md (numpy 2.x semantics).  It is deliberately
conservative: anything that *may* return a view of its argument for a float64, C-contiguous
array that already has the target shape is listed as VIEW; only operations that always
allocate are FRESH.  Names that are in neither list are *unknown* to the engine: a call to an
unknown external with a non-fresh array argument produces a failing `unknown-call` obligation
(the table has to be extended, nothing is guessed).

Every FRESH claim that the gstools sources rely on is cross-checked natively on every run by
the alias-table probes in contracts/frames_witness.py (np.shares_memory on the aliasing layout).
"""

TABLE_VERSION = "numpy-2.x/scipy-1.x alias table v1"

# ---------------------------------------------------------------------------------------------
# numpy namespace functions (name after "np."): result MAY ALIAS the listed argument(s)
# value: tuple of (positional index, keyword name) pairs whose memory the result may share
NP_VIEW = {
    "asarray": ((0, "a"),),
    "asanyarray": ((0, "a"),),
    "ascontiguousarray": ((0, "a"),),
    "asfortranarray": ((0, "a"),),
    "asarray_chkfinite": ((0, "a"),),
    "require": ((0, "a"),),
    "atleast_1d": ((0, None), (1, None), (2, None)),
    "atleast_2d": ((0, None), (1, None), (2, None)),
    "atleast_3d": ((0, None), (1, None), (2, None)),
    "reshape": ((0, "a"),),
    "ravel": ((0, "a"),),
    "squeeze": ((0, "a"),),
    "transpose": ((0, "a"),),
    "swapaxes": ((0, "a"),),
    "moveaxis": ((0, "a"),),
    "rollaxis": ((0, "a"),),
    "expand_dims": ((0, "a"),),
    "broadcast_to": ((0, "array"),),
    "broadcast_arrays": ((0, None), (1, None), (2, None), (3, None)),
    "real": ((0, "val"),),
    "imag": ((0, "val"),),
    "diagonal": ((0, "a"),),
    "diag": ((0, "v"),),          # 2-d input: (read-only) view
    "split": ((0, "ary"),),
    "array_split": ((0, "ary"),),
    "hsplit": ((0, "ary"),),
    "vsplit": ((0, "ary"),),
    "dsplit": ((0, "ary"),),
    "flip": ((0, "m"),),
    "fliplr": ((0, "m"),),
    "flipud": ((0, "m"),),
    "rot90": ((0, "m"),),
    "nan_to_num": (),             # copy=True default -> handled by NP_COPY_KW
    "ma.asarray": ((0, "a"),),
    "ma.asanyarray": ((0, "a"),),
    "ma.getdata": ((0, "a"),),
    "ma.getmask": ((0, "a"),),
    "ma.getmaskarray": ((0, "arr"),),
    "ma.filled": ((0, "a"),),
    "ma.masked_array": ((0, "data"), (1, "mask")),   # copy=False default, handled by COPY_KW
    "ma.array": ((0, "data"), (None, "mask")),       # copy=False default, handled by COPY_KW
    "ma.MaskedArray": ((0, "data"), (1, "mask")),
    "ma.masked_where": (),        # copy=True default, handled by COPY_KW
    "ma.masked_invalid": (),
    "ma.masked_equal": (),
    "ma.masked_values": (),
    "ma.fix_invalid": (),
    "lib.stride_tricks.as_strided": ((0, "x"),),
    "lib.stride_tricks.sliding_window_view": ((0, "x"),),
}

# numpy constructors with a `copy` keyword: (default_copies, aliased args when not copying)
NP_COPY_KW = {
    "array": (True, ((0, "object"),)),
    "ma.array": (False, ((0, "data"), (None, "mask"))),
    "ma.masked_array": (False, ((0, "data"), (1, "mask"))),
    "ma.MaskedArray": (False, ((0, "data"), (1, "mask"))),
    "ma.masked_where": (True, ((1, "a"),)),
    "ma.masked_invalid": (True, ((0, "a"),)),
    "ma.masked_equal": (True, ((0, "x"),)),
    "ma.masked_values": (True, ((0, "x"),)),
    "ma.fix_invalid": (True, ((0, "a"),)),
    "nan_to_num": (True, ((0, "x"),)),
    "asarray": (False, ((0, "a"),)),      # np.asarray(copy=True) exists in numpy 2
    "asanyarray": (False, ((0, "a"),)),
    "meshgrid": (True, ((0, None), (1, None), (2, None), (3, None))),
}

# numpy functions that mutate an argument in place: positions / keywords of the mutated argument
NP_MUTATE = {
    "fill_diagonal": ((0, "a"),),
    "put": ((0, "a"),),
    "place": ((0, "arr"),),
    "putmask": ((0, "a"),),
    "copyto": ((0, "dst"),),
    "put_along_axis": ((0, "arr"),),
    "random.shuffle": ((0, "x"),),
    "add.at": ((0, None),), "subtract.at": ((0, None),), "multiply.at": ((0, None),),
    "divide.at": ((0, None),), "maximum.at": ((0, None),), "minimum.at": ((0, None),),
    "ma.set_fill_value": (),      # metadata only
    "ma.putmask": ((0, "a"),),
    "ma.put": ((0, "a"),),
    "ma.harden_mask": (), "ma.soften_mask": (),
}

# ufuncs / functions whose positional argument #nin (after the inputs) is `out`
NP_UFUNC_NIN = {}
for _n in ("negative positive absolute abs fabs rint sign conj conjugate exp exp2 log log2 log10 "
           "expm1 log1p sqrt square cbrt reciprocal sin cos tan arcsin arccos arctan sinh cosh "
           "tanh arcsinh arccosh arctanh degrees radians deg2rad rad2deg floor ceil trunc "
           "logical_not invert bitwise_not isfinite isinf isnan signbit spacing").split():
    NP_UFUNC_NIN[_n] = 1
for _n in ("add subtract multiply divide true_divide floor_divide power float_power mod "
           "remainder fmod arctan2 hypot maximum minimum fmax fmin logical_and logical_or "
           "logical_xor bitwise_and bitwise_or bitwise_xor greater greater_equal less less_equal "
           "equal not_equal copysign nextafter ldexp heaviside matmul").split():
    NP_UFUNC_NIN[_n] = 2
# non-ufunc functions with an `out` positional argument: name -> index of out
NP_OUT_POS = {"dot": 2, "clip": 3, "cumsum": 3, "cumprod": 3, "around": 2, "round": 2,
              "take": 3, "choose": 2, "compress": 3, "concatenate": 2}

# numpy functions returning a python scalar / tuple of ints / bool (never an array buffer)
NP_SCALAR = {"size", "ndim", "isscalar", "shape", "iterable", "result_type", "dtype",
             "issubdtype", "can_cast", "shares_memory", "may_share_memory", "array_equal",
             "allclose", "isrealobj", "iscomplexobj", "finfo", "iinfo", "errstate",
             "seterr", "geterr", "set_printoptions", "get_printoptions"}
# np.<attr> (not called): constants and dtypes
NP_CONST = {"nan", "inf", "pi", "e", "newaxis", "double", "float64", "float32", "int64", "int32",
            "intp", "int_", "bool_", "uint8", "complex128", "ma.nomask", "ma.masked", "euler_gamma",
            "ndarray", "ma.MaskedArray", "generic", "number", "integer", "floating", "inexact"}

# ---------------------------------------------------------------------------------------------
# methods of ndarray / MaskedArray
ARR_VIEW_METHODS = {"reshape", "ravel", "squeeze", "transpose", "swapaxes", "view", "filled",
                    "diagonal", "__array__", "newbyteorder", "getfield", "conj", "conjugate",
                    "get_fill_value"}
ARR_FRESH_METHODS = {"copy", "flatten", "astype", "tolist", "item", "tobytes", "sum", "mean",
                     "var", "std", "min", "max", "argmin", "argmax", "argsort", "cumsum",
                     "cumprod", "prod", "any", "all", "nonzero", "round", "clip", "dot", "trace",
                     "repeat", "take", "compress", "compressed", "searchsorted", "ptp", "count",
                     "anom", "tostring", "dump", "dumps", "choose", "__len__", "__iter__",
                     "tofile", "ids", "iscontiguous", "toflex", "torecords"}
ARR_MUTATE_METHODS = {"sort", "fill", "resize", "put", "itemset", "partition", "setfield",
                      "byteswap", "__setitem__", "__iadd__", "__isub__", "__imul__",
                      "__itruediv__", "__ifloordiv__", "__ipow__", "__iand__", "__ior__",
                      "__ixor__", "__setmask__", "shrink_mask"}
ARR_META_METHODS = {"harden_mask", "soften_mask", "set_fill_value", "setflags"}   # metadata only
# MaskedArray.unshare_mask(): replaces the mask of THIS array object by a private copy (if numpy's
# _sharedmask flag is set, which it is for every new MaskedArray object that views another one);
# no caller visible content changes.  Modelled in frames_calls.ev_Call (mask-sharing component).
ARR_UNSHARE_METHODS = {"unshare_mask"}
# numpy functions / methods that always return a NEW array object when they return a view
# (so that numpy sets _sharedmask on a masked result); all other view-returning functions
# (asanyarray, atleast_nd, ma.asanyarray, ...) may hand back the very same object
NP_NEWOBJ_VIEW = {"ma.array", "ma.masked_array", "ma.MaskedArray", "ma.asarray", "reshape", "ravel",
                  "transpose", "swapaxes", "squeeze"}
ARR_NEWOBJ_VIEW_METHODS = {"reshape", "ravel", "squeeze", "transpose", "swapaxes", "view"}
# attributes of arrays
ARR_VIEW_ATTRS = {"T", "real", "imag", "flat", "mask", "data", "base", "mT", "recordmask", "_mask",
                  "_data"}
ARR_SCALAR_ATTRS = {"shape", "size", "ndim", "dtype", "itemsize", "nbytes", "strides", "flags",
                    "fill_value", "hardmask", "sharedmask"}
# attribute *stores* on arrays: content-changing vs. metadata
ARR_MUTATE_ATTR_STORES = {"flat", "mask", "real", "imag", "data", "_mask", "_data", "recordmask"}
ARR_META_ATTR_STORES = {"fill_value", "shape", "dtype", "strides", "_fill_value", "_hardmask"}

# ---------------------------------------------------------------------------------------------
# python containers
LIST_MUTATE = {"append", "extend", "insert", "pop", "remove", "sort", "reverse", "clear",
               "__setitem__", "__delitem__", "__iadd__", "__imul__"}
LIST_PURE = {"index", "count", "copy", "__len__", "__contains__", "__getitem__"}
DICT_MUTATE = {"update", "pop", "popitem", "setdefault", "clear", "__setitem__", "__delitem__"}
DICT_PURE = {"get", "items", "keys", "values", "copy", "__len__", "__contains__", "fromkeys"}
STR_METHODS = {"startswith", "endswith", "format", "join", "split", "strip", "lower", "upper",
               "isidentifier", "replace", "lstrip", "rstrip", "find", "index", "count",
               "capitalize", "title", "isdigit", "encode", "splitlines", "center", "ljust",
               "rjust", "zfill", "partition", "rpartition", "rsplit", "isalpha", "isnumeric"}

# builtins: name -> result description
#   "scalar"  immutable scalar / str / bool / None
#   "fresh:list" / "fresh:tuple" / "fresh:dict" / "fresh:set": new container, elements alias the
#                elements of the first argument
#   "iter"    lazy iterator over first arg(s): element-wise alias
BUILTIN_SCALAR = {"len", "int", "float", "str", "bool", "abs", "round", "isinstance", "issubclass",
                  "callable", "hasattr", "id", "hash", "repr", "ord", "chr", "print", "format",
                  "divmod", "pow", "complex", "bytes", "type", "input", "bin", "hex", "oct",
                  "ascii"}
BUILTIN_CONTAINER = {"list": "list", "tuple": "tuple", "set": "set", "frozenset": "set",
                     "sorted": "list", "dict": "dict"}
BUILTIN_ITER = {"iter", "reversed", "enumerate", "zip", "map", "filter", "range", "next"}
BUILTIN_REDUCE = {"min", "max", "sum", "any", "all"}    # return an element / a fresh value

# ---------------------------------------------------------------------------------------------
# other external libraries (dotted name as resolved through the module's imports).
# value: dict(mutates=(arg specs), alias=(arg specs), kind=...)   -- all others are unknown
PURE = {"mutates": (), "alias": ()}
EXTERNAL = {
    # scipy.linalg: overwrite_a / overwrite_b default False -> inputs untouched, result fresh
    "scipy.linalg.inv": PURE, "scipy.linalg.pinv": PURE, "scipy.linalg.pinvh": PURE,
    "scipy.linalg.solve": PURE, "scipy.linalg.eigh": PURE, "scipy.linalg.cholesky": PURE,
    "scipy.spatial.distance.cdist": PURE, "scipy.spatial.distance.pdist": PURE,
    "scipy.spatial.ConvexHull": PURE,
    "scipy.optimize.curve_fit": PURE, "scipy.optimize.root": PURE,
    "scipy.optimize.minimize": PURE, "scipy.optimize.minimize_scalar": PURE,
    "scipy.integrate.quad": PURE,
    "scipy.interpolate.interp1d": PURE, "scipy.interpolate.UnivariateSpline": PURE,
    "scipy.interpolate.InterpolatedUnivariateSpline": PURE,
    "scipy.stats.rv_continuous": PURE,
    "hankel.SymmetricFourierTransform": PURE,
    "emcee.EnsembleSampler": PURE, "emcee.state.State": PURE,
    "numpy.random.RandomState": PURE,
    "warnings.warn": PURE, "warnings.simplefilter": PURE, "warnings.catch_warnings": PURE,
    "copy.copy": {"mutates": (), "alias": (), "shallow_copy": True},
    "copy.deepcopy": PURE,
    "functools.partial": {"mutates": (), "alias": (), "partial": True},
    "itertools.combinations_with_replacement": PURE, "itertools.product": PURE,
    "itertools.combinations": PURE, "itertools.permutations": PURE,
    "collections.abc.Iterable": PURE, "collections.abc.Iterator": PURE,
    "collections.OrderedDict": PURE,
    "abc.abstractmethod": PURE,
    "meshio.Mesh": PURE, "meshio.write_points_cells": PURE,
    "pyevtk.hl.gridToVTK": PURE, "pyevtk.hl.pointsToVTK": PURE,
    "pyvista.RectilinearGrid": PURE, "pyvista.PolyData": PURE, "pyvista.is_pyvista_dataset": PURE,
}
# every function under these prefixes is element-wise pure (scipy.special ufuncs without out=)
EXTERNAL_PURE_PREFIX = ("scipy.special.", "math.", "matplotlib.", "os.", "os.path.")

# compiled kernels of the package: module -> pyx file (relative to src/gstools); their frame
# facts (const memoryviews) are read from the .pyx signature by frames.kernel_contracts()
KERNEL_MODULES = {
    "gstools.variogram.estimator": "variogram/estimator.pyx",
    "gstools.field.summator": "field/summator.pyx",
    "gstools.krige.krigesum": "krige/krigesum.pyx",
}
# optional rust back end (not installed here): same signatures assumed
KERNEL_EXTERNAL_PREFIX = ("gstools_core.",)
