"""symrun -- symbolic execution of the *real* GSTools Python functions on z3-backed reals.

The real function objects imported from <REPO>/src are executed on `SymReal` values (numpy
object arrays hold them; numpy performs all shape logic).  A comparison yields a `SymBool`;
`bool()` on it forks the execution (dynamic symbolic execution by re-running the contract
with a decision prefix).  Transcendental functions are uninterpreted functions whose ground
facts (Pythagoras, positivity, monotonicity, inverse pairs ...) are instantiated per
application; before solving, applications are Ackermannised to fresh reals so the query is
pure QF_NRA (z3 nlsat / cvc5).

A *contract* is a Python function `c(ctx, **params)`; it creates symbolic inputs with
`ctx.real`, states preconditions with `ctx.require`, calls the real code and states
postconditions with `ctx.ensure(name, formula)`.  The same contract text runs natively on
floats (`ConcCtx`) for replay of counterexamples and for the native spot check.
"""
from __future__ import annotations

import builtins
import math
import os
import sys
import time
import traceback
from fractions import Fraction

import numpy as _np
import z3

from . import core

# make sure the gstools that gets imported is the one under core.REPO
if core.SRC not in sys.path[:1]:
    sys.path.insert(0, core.SRC)

RS = z3.RealSort()
PI = z3.Real("pi")
PI_FACTS = [PI > z3.RealVal("3.14159265358979"), PI < z3.RealVal("3.14159265358980")]

_INF = float('inf')
CUR = None  # current Path while a symbolic execution is active


def symbolic_active():
    return CUR is not None


class native:
    """context manager: run a purely concrete computation of the code under verification natively
    (shims pass through, np.pi is the float) inside a symbolic contract run"""

    def __enter__(self):
        global CUR
        self._saved = CUR
        CUR = None
        return self

    def __exit__(self, *a):
        global CUR
        CUR = self._saved
        return False


class Unsupported(Exception):
    pass


class PathLimit(Exception):
    pass


# ---------------------------------------------------------------------------------------
# terms
# ---------------------------------------------------------------------------------------
def _ratval(x):
    if isinstance(x, bool):
        return z3.RealVal(int(x))
    if isinstance(x, int):
        return z3.RealVal(x)
    if isinstance(x, Fraction):
        return z3.RealVal(x)
    x = float(x)
    if x != x or x in (float("inf"), float("-inf")):
        raise Unsupported("non-finite constant %r enters a symbolic term" % x)
    fr = Fraction(x)
    lim = fr.limit_denominator(10 ** 9)
    if float(lim) == x:
        fr = lim
    return z3.RealVal(fr)


def lift(x):
    """python/numpy number or SymReal -> z3 real term"""
    if isinstance(x, SymReal):
        return x.t
    if isinstance(x, (bool, int, float, Fraction)):
        return _ratval(x)
    if isinstance(x, _np.generic):
        return _ratval(x.item())
    if isinstance(x, _np.ndarray) and x.ndim == 0:
        return lift(x.item())
    if isinstance(x, SymBool):
        return z3.If(x.t, z3.RealVal(1), z3.RealVal(0))
    raise Unsupported("cannot lift %r (%s) to a real term" % (x, type(x)))


def _num(t):
    """numeral value of a z3 term or None"""
    t = z3.simplify(t)
    if z3.is_rational_value(t):
        return Fraction(t.numerator_as_long(), t.denominator_as_long())
    return None


def _isnumlike(x):
    return isinstance(x, (bool, int, float, Fraction, _np.generic, SymReal, SymBool)) or (
        isinstance(x, _np.ndarray) and x.ndim == 0)


class SymReal:
    __slots__ = ("t",)

    def __init__(self, t):
        self.t = t

    # --- arithmetic ---------------------------------------------------------------
    def _bin(self, other, f, rev=False):
        if isinstance(other, _np.ndarray) and other.ndim > 0:
            return NotImplemented
        if not _isnumlike(other):
            return NotImplemented
        o = lift(other)
        return SymReal(f(o, self.t) if rev else f(self.t, o))

    def __add__(self, o): return self._bin(o, lambda a, b: a + b)
    def __radd__(self, o): return self._bin(o, lambda a, b: a + b, True)
    def __sub__(self, o): return self._bin(o, lambda a, b: a - b)
    def __rsub__(self, o): return self._bin(o, lambda a, b: a - b, True)
    def __mul__(self, o): return self._bin(o, lambda a, b: a * b)
    def __rmul__(self, o): return self._bin(o, lambda a, b: a * b, True)
    def __truediv__(self, o): return self._bin(o, lambda a, b: a / b)
    def __rtruediv__(self, o): return self._bin(o, lambda a, b: a / b, True)
    def __neg__(self): return SymReal(-self.t)
    def __pos__(self): return self
    def __abs__(self): return SymReal(z3.If(self.t >= 0, self.t, -self.t))

    def __pow__(self, e):
        if isinstance(e, _np.ndarray) and e.ndim > 0:
            return NotImplemented
        ev = e
        if isinstance(e, SymReal):
            n = _num(e.t)
            ev = n if n is not None else None
        elif isinstance(e, _np.generic):
            ev = e.item()
        if ev is not None:
            fe = Fraction(ev) if not isinstance(ev, Fraction) else ev
            if fe.denominator == 1 and abs(fe.numerator) <= 64:
                n = abs(fe.numerator)
                if n == 0:
                    return SymReal(z3.RealVal(1))
                r = self.t
                for _ in range(n - 1):
                    r = r * self.t
                return SymReal(r if fe.numerator > 0 else 1 / r)
            if fe == Fraction(1, 2):
                return self.sqrt()
        return uf("pow", self, e)

    def __rpow__(self, b):
        return uf("pow", b, self)

    def __mod__(self, o):
        raise Unsupported("modulo on symbolic real")

    # --- comparisons --------------------------------------------------------------
    def _cmp(self, o, f):
        if isinstance(o, _np.ndarray) and o.ndim > 0:
            return NotImplemented
        if o is None or isinstance(o, str):
            return NotImplemented
        if isinstance(o, (float, _np.floating)) and (o != o or o in (_INF, -_INF)):
            # comparisons against +-inf / nan are decided without a term
            return SymBool(z3.BoolVal(bool(f(0.0, float(o)))))
        return SymBool(f(self.t, lift(o)))

    def __lt__(self, o): return self._cmp(o, lambda a, b: a < b)
    def __le__(self, o): return self._cmp(o, lambda a, b: a <= b)
    def __gt__(self, o): return self._cmp(o, lambda a, b: a > b)
    def __ge__(self, o): return self._cmp(o, lambda a, b: a >= b)

    def __eq__(self, o):
        if o is None or isinstance(o, (str, tuple, list, dict)):
            return False
        return self._cmp(o, lambda a, b: a == b)

    def __ne__(self, o):
        if o is None or isinstance(o, (str, tuple, list, dict)):
            return True
        return self._cmp(o, lambda a, b: a != b)

    def __hash__(self):
        return self.t.hash()

    def __bool__(self):
        return bool(SymBool(self.t != 0))

    def _const(self):
        n = _num(self.t)
        if n is None:
            raise TypeError("symbolic real %s has no concrete value (a float()/int() call in the "
                            "code under verification needs a shim)" % self)
        return n

    def __float__(self): return float(self._const())

    def __int__(self):
        if _num(self.t) is None and symbolic_active():
            return int_cases(self, "trunc")
        n = self._const()
        return int(n)

    def __round__(self, nd=None):
        if nd not in (None, 0):
            raise Unsupported("round(x, ndigits) of a symbolic real")
        return int_cases(self, "round")

    def __index__(self):
        n = self._const()
        if n.denominator != 1:
            raise TypeError("non-integer index")
        return int(n)

    def __repr__(self):
        s = str(z3.simplify(self.t))
        return "<%s>" % (s if len(s) < 120 else s[:117] + "...")

    # --- numpy object-ufunc protocol ---------------------------------------------
    def exp(self): return uf("exp", self)
    def log(self): return uf("log", self)
    def sqrt(self): return uf("sqrt", self)
    def cbrt(self): return uf("cbrt", self)
    def sin(self): return uf("sin", self)
    def cos(self): return uf("cos", self)
    def tan(self): return uf("tan", self)
    def arcsin(self): return uf("arcsin", self)
    def arccos(self): return uf("arccos", self)
    def arctan(self): return uf("arctan", self)
    def arctan2(self, o): return uf("arctan2", self, o)
    def log1p(self): return uf("log", 1 + self)
    def expm1(self): return uf("exp", self) - 1
    def deg2rad(self): return SymReal(self.t * PI / 180)
    def rad2deg(self): return SymReal(self.t * 180 / PI)
    radians = deg2rad
    degrees = rad2deg
    def conjugate(self): return self
    def square(self): return self * self
    def reciprocal(self): return 1 / self
    def fabs(self): return abs(self)
    @property
    def real(self): return self
    @property
    def imag(self): return SymReal(z3.RealVal(0))


INT_CASE_RANGE = 40


def int_cases(x, mode):
    """integer part of a symbolic real by case distinction: the candidates 0, 1, -1, 2, -2, ... are tried
    in this fixed order (deterministic under re-execution); each candidate k is a path fork on the exact
    condition `mode(x) == k`, infeasible candidates are pruned by the path solver.
    modes: trunc (int()), floor, ceil, round (numpy/python: half to even)"""
    x = wrap(x)
    n = _num(x.t)
    if n is not None:
        import math
        return {"trunc": int, "floor": math.floor, "ceil": math.ceil, "round": round}[mode](n)
    t = x.t
    half = z3.RealVal("1/2")
    order = [0]
    for i in range(1, INT_CASE_RANGE + 1):
        order += [i, -i]
    for k in order:
        kv = z3.RealVal(k)
        if mode == "floor":
            cond = z3.And(t >= kv, t < kv + 1)
        elif mode == "ceil":
            cond = z3.And(t > kv - 1, t <= kv)
        elif mode == "trunc":
            cond = z3.And(t > -1, t < 1) if k == 0 else (z3.And(t >= kv, t < kv + 1) if k > 0
                                                         else z3.And(t > kv - 1, t <= kv))
        else:
            inner = z3.And(t > kv - half, t < kv + half)
            cond = z3.Or(inner, t == kv - half, t == kv + half) if k % 2 == 0 else inner
        if bool(SymBool(cond)):
            return k
    raise Unsupported("integer part of a symbolic real outside [-%d, %d]" % (INT_CASE_RANGE, INT_CASE_RANGE))


class SymBool:
    __slots__ = ("t",)

    def __init__(self, t):
        self.t = t

    def __bool__(self):
        if CUR is None:
            s = z3.simplify(self.t)
            if z3.is_true(s):
                return True
            if z3.is_false(s):
                return False
            raise RuntimeError("bool() of a symbolic condition outside symbolic execution")
        return CUR.branch(self.t)

    def __and__(self, o): return SymBool(z3.And(self.t, fbool(o)))
    __rand__ = __and__
    def __or__(self, o): return SymBool(z3.Or(self.t, fbool(o)))
    __ror__ = __or__
    def __invert__(self): return SymBool(z3.Not(self.t))
    def __xor__(self, o): return SymBool(z3.Xor(self.t, fbool(o)))
    __rxor__ = __xor__
    def __eq__(self, o): return SymBool(self.t == fbool(o))
    def __ne__(self, o): return SymBool(self.t != fbool(o))
    def __hash__(self): return self.t.hash()
    def __repr__(self): return "<%s>" % z3.simplify(self.t)


def fbool(x):
    """anything truthy-ish -> z3 Bool (never forks)"""
    if isinstance(x, SymBool):
        return x.t
    if isinstance(x, z3.BoolRef):
        return x
    if isinstance(x, (bool, _np.bool_)):
        return z3.BoolVal(bool(x))
    if isinstance(x, _np.ndarray):
        return z3.And([fbool(v) for v in x.ravel().tolist()]) if x.size else z3.BoolVal(True)
    if isinstance(x, (list, tuple)):
        return z3.And([fbool(v) for v in x]) if len(x) else z3.BoolVal(True)
    raise Unsupported("cannot turn %r into a formula" % (x,))


def is_sym(x):
    if isinstance(x, (SymReal, SymBool)):
        return True
    if isinstance(x, _np.ndarray):
        if x.dtype == object:
            return any(isinstance(v, (SymReal, SymBool)) for v in x.ravel().tolist())
        return False
    if isinstance(x, (list, tuple)):
        return any(is_sym(v) for v in x)
    return False


def wrap(x):
    """numeric -> SymReal (constants become numerals)"""
    if isinstance(x, SymReal):
        return x
    return SymReal(lift(x))


def symarr(x, ndmin=0):
    """object ndarray whose numeric leaves are all SymReal"""
    a = _np.array(x, dtype=object, ndmin=ndmin) if not (
        isinstance(x, _np.ndarray) and x.dtype == object) else x
    if a.ndim == 0:
        out = _np.empty((), dtype=object)
        out[()] = wrap(a.item())
        return out
    out = _np.empty(a.shape, dtype=object)
    flat = out.reshape(-1)
    for i, v in enumerate(a.reshape(-1).tolist()):
        # NaN / +-inf leaves stay plain floats (missing-value markers next to symbolic values: they can be
        # masked out or tested with isnan; arithmetic on them raises Unsupported)
        flat[i] = v if (isinstance(v, float) and not math.isfinite(v)) else wrap(v)
    return out


# ---------------------------------------------------------------------------------------
# uninterpreted transcendental functions and their ground facts
# ---------------------------------------------------------------------------------------
_UF = {}


def _uf_decl(name, arity):
    k = (name, arity)
    if k not in _UF:
        _UF[k] = z3.Function(name, *([RS] * (arity + 1)))
    return _UF[k]


def uf(name, *args):
    """application of the uninterpreted function `name`; registers its ground facts in the
    current path"""
    ts = [lift(a) for a in args]
    ts = [z3.simplify(t) for t in ts]
    # exact evaluation of a few constant cases (keeps terms small)
    if name in ("cos", "sin") and _num(ts[0]) == 0:
        return SymReal(z3.RealVal(1 if name == "cos" else 0))
    if name == "exp" and _num(ts[0]) == 0:
        return SymReal(z3.RealVal(1))
    if name == "log" and _num(ts[0]) == 1:
        return SymReal(z3.RealVal(0))
    if name == "sqrt":
        n = _num(ts[0])
        if n is not None and n >= 0:
            from math import isqrt
            a, b = n.numerator, n.denominator
            if isqrt(a) ** 2 == a and isqrt(b) ** 2 == b:
                return SymReal(z3.RealVal(Fraction(isqrt(a), isqrt(b))))
    # parity normal form: f(-x) for odd/even functions (keeps cos(-a) and cos(a) one atom)
    if name in ("cos", "sin", "tan", "arcsin", "arctan", "cbrt", "erf", "erfinv") and _neg_coeff(ts[0]):
        r = uf(name, SymReal(z3.simplify(-ts[0])))
        return r if name == "cos" else -r
    f = _uf_decl(name, len(ts))
    app = f(*ts)
    if CUR is not None:
        CUR.register_app(name, ts, app)
    return SymReal(app)


SPECIAL_FACTS = {
    "gamma": lambda ts, app: [z3.Implies(ts[0] > 0, app > 0), z3.Implies(ts[0] == 1, app == 1),
                              z3.Implies(ts[0] == 2, app == 1)],
    "beta": lambda ts, app: [z3.Implies(z3.And(ts[0] > 0, ts[1] > 0), app > 0)],
    "kv": lambda ts, app: [z3.Implies(ts[1] > 0, app > 0)],
    "gammainc": lambda ts, app: [z3.Implies(z3.And(ts[0] > 0, ts[1] >= 0), z3.And(app >= 0, app <= 1)),
                                 z3.Implies(z3.And(ts[0] > 0, ts[1] > 0), app > 0)],
    "gammaincc": lambda ts, app: [z3.Implies(z3.And(ts[0] > 0, ts[1] >= 0), z3.And(app >= 0, app <= 1)),
                                  z3.Implies(z3.And(ts[0] > 0, ts[1] >= 0), app > 0)],
    "exp1": lambda ts, app: [z3.Implies(ts[0] > 0, app > 0)],
    "inc_gamma_low": lambda ts, app: [z3.Implies(z3.And(ts[0] > 0, ts[1] >= 0), app >= 0)],
    "loggamma": lambda ts, app: [],
    "expn": lambda ts, app: [z3.Implies(ts[1] > 0, app > 0)],
    "erf": lambda ts, app: [app > -1, app < 1, z3.Implies(ts[0] == 0, app == 0),
                            z3.Implies(ts[0] > 0, app > 0)],
    "erfinv": lambda ts, app: [z3.Implies(ts[0] == 0, app == 0),
                               z3.Implies(z3.And(ts[0] > 0, ts[0] < 1), app > 0)],
}


def from_term(t):
    """SymReal for a raw z3 term (e.g. produced by differentiation or substitution): every
    function application inside it is registered in the current path so that its ground facts
    exist"""
    if CUR is not None:
        seen = {}

        def walk(u):
            k = u.get_id()
            if k in seen:
                return
            seen[k] = u
            for c in u.children():
                walk(c)
            if z3.is_app(u) and u.decl().kind() == z3.Z3_OP_UNINTERPRETED and u.num_args() > 0:
                CUR.register_app(u.decl().name(), list(u.children()), u)
        walk(t)
    return SymReal(t)


def _neg_coeff(t):
    n = _num(t)
    if n is not None:
        return n < 0
    if z3.is_app(t) and t.decl().kind() == z3.Z3_OP_MUL:
        c0 = t.children()[0]
        n = _num(c0) if z3.is_rational_value(c0) else None
        return n is not None and n < 0
    if z3.is_app(t) and t.decl().kind() == z3.Z3_OP_UMINUS:
        return True
    return False


def _facts_for(path, name, ts, app):
    """ground facts for one new application; may create further applications"""
    F = []
    if name in ("sin", "cos"):
        t = ts[0]
        c = uf("cos", SymReal(t)).t if name == "sin" else app
        s = uf("sin", SymReal(t)).t if name == "cos" else app
        if name == "cos":
            F.append(c * c + s * s == 1)
            F.append(z3.Implies(t == 0, z3.And(c == 1, s == 0)))
            F.append(z3.Implies(t == PI / 2, z3.And(c == 0, s == 1)))
            F.append(z3.Implies(t == -PI / 2, z3.And(c == 0, s == -1)))
            F.append(z3.Implies(t == PI, z3.And(c == -1, s == 0)))
            F.append(z3.Implies(z3.And(t > 0, t < PI), s > 0))
            F.append(z3.Implies(z3.And(t > -PI, t < 0), s < 0))
            F.append(z3.Implies(z3.And(t > -PI / 2, t < PI / 2), c > 0))
            F.append(z3.Implies(z3.And(t >= -PI / 2, t <= PI / 2), c >= 0))
            F.append(z3.Implies(z3.And(t >= 0, t <= PI), s >= 0))
            F.append(z3.Implies(t >= 0, s <= t))          # sin t <= t for t >= 0
            F.append(z3.Implies(t <= 0, s >= t))
            for (t2, c2, s2) in path.trig:
                F.append(z3.Implies(t == t2, z3.And(c == c2, s == s2)))
                F.append(z3.Implies(t == -t2, z3.And(c == c2, s == -s2)))
                # injectivity of sin on [-pi/2, pi/2] and of cos on [0, pi]
                F.append(z3.Implies(z3.And(t >= -PI / 2, t <= PI / 2, t2 >= -PI / 2, t2 <= PI / 2,
                                           s == s2), t == t2))
                F.append(z3.Implies(z3.And(t >= 0, t <= PI, t2 >= 0, t2 <= PI, c == c2), t == t2))
                F.append(z3.Implies(z3.And(t > -PI, t <= PI, t2 > -PI, t2 <= PI, c == c2, s == s2),
                                    t == t2))
            path.trig.append((t, c, s))
    elif name == "exp":
        t = ts[0]
        F.append(app > 0)
        F.append(z3.Implies(t == 0, app == 1))
        F.append(app >= 1 + t)
        F.append(z3.Implies(t <= 0, app <= 1))
        F.append(z3.Implies(t >= 0, app >= 1))
        for (t2, e2) in path.exps:
            F.append(z3.Implies(t < t2, app < e2))
            F.append(z3.Implies(t > t2, app > e2))
            F.append(z3.Implies(t == t2, app == e2))
        for (t2, l2) in path.logs:   # exp(log x) = x
            F.append(z3.Implies(z3.And(t == l2, t2 > 0), app == t2))
        path.exps.append((t, app))
    elif name == "log":
        t = ts[0]
        F.append(z3.Implies(t == 1, app == 0))
        F.append(z3.Implies(z3.And(t > 0, t < 1), app < 0))
        F.append(z3.Implies(t > 1, app > 0))
        for (t2, l2) in path.logs:
            F.append(z3.Implies(z3.And(t > 0, t2 > 0, t < t2), app < l2))
            F.append(z3.Implies(z3.And(t > 0, t2 > 0, t > t2), app > l2))
            F.append(z3.Implies(t == t2, app == l2))
        for (t2, e2) in path.exps:   # log(exp x) = x
            F.append(z3.Implies(t == e2, app == t2))
            F.append(z3.Implies(z3.And(t2 == app, t > 0), e2 == t))
        path.logs.append((t, app))
    elif name == "sqrt":
        t = ts[0]
        F.append(z3.Implies(t >= 0, z3.And(app >= 0, app * app == t)))
        for (t2, r2) in path.sqrts:
            F.append(z3.Implies(t == t2, app == r2))
        path.sqrts.append((t, app))
    elif name == "cbrt":
        F.append(app * app * app == ts[0])
        F.append(z3.Implies(ts[0] >= 0, app >= 0))
        F.append(z3.Implies(ts[0] <= 0, app <= 0))
    elif name == "pow":
        x, a = ts
        F.append(z3.Implies(x > 0, app > 0))
        F.append(z3.Implies(a == 0, app == 1))
        F.append(z3.Implies(a == 1, app == x))
        F.append(z3.Implies(a == 2, app == x * x))
        F.append(z3.Implies(z3.And(a == -1, x != 0), app * x == 1))
        F.append(z3.Implies(x == 1, app == 1))
        F.append(z3.Implies(z3.And(x == 0, a > 0), app == 0))
        F.append(z3.Implies(x >= 0, app >= 0))
        F.append(z3.Implies(z3.And(x >= 1, a <= 0), app <= 1))
        F.append(z3.Implies(z3.And(x >= 0, x <= 1, a >= 0), app <= 1))
        F.append(z3.Implies(z3.And(x > 1, a > 0), app > 1))
        F.append(z3.Implies(z3.And(x > 0, x < 1, a > 0), app < 1))
        for (x2, a2, p2) in path.pows:
            F.append(z3.Implies(z3.And(x == x2, a == a2), app == p2))
            # monotone in the base for equal exponents
            F.append(z3.Implies(z3.And(a == a2, a > 0, x > x2, x2 >= 0), app > p2))
            F.append(z3.Implies(z3.And(a == a2, a > 0, x2 > x, x >= 0), p2 > app))
            F.append(z3.Implies(z3.And(a == a2, a < 0, x > x2, x2 > 0), app < p2))
            F.append(z3.Implies(z3.And(a == a2, a < 0, x2 > x, x > 0), p2 < app))
            # monotone in the exponent for equal bases
            F.append(z3.Implies(z3.And(x == x2, x > 1, a > a2), app > p2))
            F.append(z3.Implies(z3.And(x == x2, x > 1, a < a2), app < p2))
            F.append(z3.Implies(z3.And(x == x2, x > 0, x < 1, a > a2), app < p2))
            F.append(z3.Implies(z3.And(x == x2, x > 0, x < 1, a < a2), app > p2))
        path.pows.append((x, a, app))
    elif name == "arcsin":
        t = ts[0]
        s = uf("sin", SymReal(app)).t
        c = uf("cos", SymReal(app)).t
        F.append(z3.Implies(z3.And(t >= -1, t <= 1),
                            z3.And(app >= -PI / 2, app <= PI / 2, s == t, c >= 0)))
        F.append(z3.Implies(t == 0, app == 0))
        F.append(z3.Implies(t == 1, app == PI / 2))
        F.append(z3.Implies(t == -1, app == -PI / 2))
    elif name == "arccos":
        t = ts[0]
        s = uf("sin", SymReal(app)).t
        c = uf("cos", SymReal(app)).t
        F.append(z3.Implies(z3.And(t >= -1, t <= 1),
                            z3.And(app >= 0, app <= PI, c == t, s >= 0)))
        F.append(z3.Implies(t == 0, app == PI / 2))
        F.append(z3.Implies(t == 1, app == 0))
        F.append(z3.Implies(t == -1, app == PI))
        F.append(z3.Implies(z3.And(t >= 0, t <= 1), app <= PI / 2))
        F.append(z3.Implies(z3.And(t <= 0, t >= -1), app >= PI / 2))
    elif name == "arctan":
        t = ts[0]
        s = uf("sin", SymReal(app)).t
        c = uf("cos", SymReal(app)).t
        F.append(z3.And(app > -PI / 2, app < PI / 2, c > 0, s == t * c))
    elif name == "arctan2":
        y, x = ts
        rho = uf("sqrt", SymReal(x * x + y * y)).t
        s = uf("sin", SymReal(app)).t
        c = uf("cos", SymReal(app)).t
        F.append(z3.And(app > -PI, app <= PI))
        F.append(z3.Implies(z3.Or(x != 0, y != 0), z3.And(rho * c == x, rho * s == y)))
        F.append(z3.Implies(z3.And(x == 0, y == 0), app == 0))
    elif name == "tan":
        t = ts[0]
        s = uf("sin", SymReal(t)).t
        c = uf("cos", SymReal(t)).t
        F.append(z3.Implies(c != 0, app * c == s))
    else:
        # generic special function: congruence + textbook sign/range facts (T4)
        sf = SPECIAL_FACTS.get(name)
        if sf is not None:
            F.extend(sf(ts, app))
        if name in ("erf", "erfinv"):
            for (ts2, a2) in path.generic.get((name, 1), []):
                F.append(z3.Implies(ts[0] < ts2[0], app < a2))
                F.append(z3.Implies(ts[0] > ts2[0], app > a2))
            other = "erfinv" if name == "erf" else "erf"
            for (ts2, a2) in path.generic.get((other, 1), []):
                # erfinv(erf(x)) = x ; erf(erfinv(u)) = u on (-1, 1)
                if name == "erfinv":
                    F.append(z3.Implies(ts[0] == a2, app == ts2[0]))
                    F.append(z3.Implies(z3.And(ts2[0] == app, ts[0] > -1, ts[0] < 1), a2 == ts[0]))
                else:
                    F.append(z3.Implies(z3.And(ts[0] == a2, ts2[0] > -1, ts2[0] < 1), app == ts2[0]))
                    F.append(z3.Implies(ts2[0] == app, a2 == ts[0]))
        for (ts2, a2) in path.generic.setdefault((name, len(ts)), []):
            F.append(z3.Implies(z3.And([u == v for u, v in zip(ts, ts2)]), app == a2))
        path.generic[(name, len(ts))].append((ts, app))
    return F


# ---------------------------------------------------------------------------------------
# paths and exploration
# ---------------------------------------------------------------------------------------
class Path:
    def __init__(self, prefix, explorer):
        self.prefix = prefix
        self.explorer = explorer
        self.decisions = []
        self.pc = []            # z3 bools: branch conditions taken
        self.assume = []        # requires + hints
        self.facts = list(PI_FACTS)
        self.apps = {}          # (name, ids) -> app
        self.trig, self.exps, self.logs, self.sqrts, self.pows = [], [], [], [], []
        self.generic = {}
        self.inputs = {}        # name -> z3 const
        self.obls = []          # (name, formula, n_assume, using)
        self.gen = {}           # obligation index -> terms to generalise
        self.lemma_idx = set()  # indices into self.assume that are lemmas (obligations themselves)
        self.hints = []
        self.solver = z3.Solver()
        self.solver.set("timeout", explorer.branch_timeout_ms)
        for f in self.facts:
            self.solver.add(f)
        # light solver: requires + path condition only (no function facts); an `unsat` here is
        # an `unsat` with more hypotheses as well
        self.known = {}
        self.light = z3.Solver()
        self.light.set("timeout", 700)
        for f in PI_FACTS:
            self.light.add(f)

    def register_app(self, name, ts, app):
        key = (name,) + tuple(t.get_id() for t in ts)
        if key in self.apps:
            return
        self.apps[key] = app
        for f in _facts_for(self, name, ts, app):
            self.facts.append(f)
            self.solver.add(f)

    def _remember(self, f):
        for c in (f.children() if z3.is_and(f) else [f]):
            c = z3.simplify(c)
            self.known[c.get_id()] = c      # value keeps the term (and its id) alive

    def add_assume(self, f):
        self.assume.append(f)
        self.solver.add(f)
        self.light.add(f)
        self._remember(f)

    def branch(self, cond):
        s = z3.simplify(cond)
        if z3.is_true(s):
            return True
        if z3.is_false(s):
            return False
        i = len(self.decisions)
        if i < len(self.prefix):
            d = self.prefix[i]
        else:
            if i >= self.explorer.max_depth:
                raise PathLimit("more than %d symbolic branch points on one path" % i)
            ns = z3.simplify(z3.Not(s))
            if s.get_id() in self.known:          # already a hypothesis of this path
                can_t, can_f = True, False
            elif ns.get_id() in self.known:
                can_t, can_f = False, True
            else:
                can_t = self._feasible(s)
                can_f = self._feasible(ns)
            if can_t and can_f:
                d = True
                self.explorer.push(self.decisions + [False])
            elif can_t:
                d = True
            elif can_f:
                d = False
            else:
                # path condition itself infeasible (or solver confusion): keep going on True;
                # obligations on this path are vacuous
                d = True
        self.decisions.append(d)
        lit = s if d else z3.Not(s)
        self.pc.append(lit)
        self.solver.add(lit)
        self.light.add(lit)
        self._remember(lit)
        return d

    def _feasible(self, lit):
        self.light.push()
        self.light.add(lit)
        r0 = self.light.check()
        self.light.pop()
        if r0 == z3.unsat:
            return False
        self.solver.push()
        self.solver.add(lit)
        r = self.solver.check()
        self.solver.pop()
        return r != z3.unsat


class Explorer:
    def __init__(self, max_paths=4000, max_depth=400, branch_timeout_ms=1500):
        self.max_paths = max_paths
        self.max_depth = max_depth
        self.branch_timeout_ms = branch_timeout_ms
        self.work = []

    def push(self, prefix):
        self.work.append(prefix)

    def run(self, fn):
        """fn(path) is executed once per feasible path; returns list of finished Paths"""
        global CUR
        self.work = [[]]
        done = []
        while self.work:
            prefix = self.work.pop()
            if len(done) >= self.max_paths:
                raise PathLimit("more than %d paths" % self.max_paths)
            p = Path(prefix, self)
            CUR = p
            try:
                try:
                    fn(p)
                    p.outcome = ("ok", None)
                except _ContractReturn:
                    p.outcome = ("ok", None)
                except PathLimit:
                    raise
                except Exception as e:  # noqa
                    p.outcome = ("exc", "".join(traceback.format_exception(type(e), e, e.__traceback__)[-6:]))
            finally:
                CUR = None
            done.append(p)
        return done


class _ContractReturn(Exception):
    pass


class Reject(Exception):
    """concrete sample does not satisfy a `require`"""


# ---------------------------------------------------------------------------------------
# contexts
# ---------------------------------------------------------------------------------------
class _MathSym:
    pi = SymReal(PI)
    def exp(self, x): return uf("exp", x)
    def log(self, x): return uf("log", x)
    def sqrt(self, x): return uf("sqrt", x)
    def cbrt(self, x): return uf("cbrt", x)
    def sin(self, x): return uf("sin", x)
    def cos(self, x): return uf("cos", x)
    def tan(self, x): return uf("tan", x)
    def arcsin(self, x): return uf("arcsin", x)
    def arccos(self, x): return uf("arccos", x)
    def arctan(self, x): return uf("arctan", x)
    def arctan2(self, y, x): return uf("arctan2", y, x)
    def pow(self, x, a): return wrap(x) ** a
    def abs(self, x): return abs(wrap(x))
    def fn(self, name, *args):
        if not any(is_sym(a) for a in args) and name in CONC_FUNCS:
            return float(CONC_FUNCS[name](*args))    # all-concrete: same value the code computes
        return uf(name, *args)

    def ite(self, c, a, b): return SymReal(z3.If(fbool(c), lift(a), lift(b)))
    def max(self, a, b): return self.ite(wrap(a) >= b, a, b)
    def min(self, a, b): return self.ite(wrap(a) <= b, a, b)


def _eq_term(x, y):
    if x.eq(y):
        return z3.BoolVal(True)
    d = z3.simplify(x - y)
    if z3.is_rational_value(d) and d.numerator_as_long() == 0:
        return z3.BoolVal(True)      # syntactically equal up to arithmetic normalisation
    return x == y


class SymCtx:
    mode = "sym"

    def __init__(self, path):
        self.path = path
        self.m = _MathSym()

    # inputs
    def real(self, name, **kw):
        v = z3.Real(name)
        self.path.inputs[name] = v
        return SymReal(v)

    def reals(self, name, n, **kw):
        return [self.real("%s%d" % (name, i), **kw) for i in range(n)]

    def integer(self, name, lo=0, hi=1000):
        """an integer-valued input (e.g. a seed): symbolic real here, int natively"""
        return self.real(name, lo=lo, hi=hi, integer=True)

    def const(self, x):
        return wrap(x)

    # logic (never forks)
    def _f(self, x):
        return fbool(x)

    def eq(self, a, b): return self._rel(a, b, _eq_term)
    def le(self, a, b): return self._rel(a, b, lambda x, y: x <= y)
    def lt(self, a, b): return self._rel(a, b, lambda x, y: x < y)
    def ge(self, a, b): return self._rel(a, b, lambda x, y: x >= y)
    def gt(self, a, b): return self._rel(a, b, lambda x, y: x > y)
    def ne(self, a, b): return z3.Not(self.eq(a, b))

    def _rel(self, a, b, f):
        aa, bb = _np.asarray(a, dtype=object), _np.asarray(b, dtype=object)
        if aa.shape != bb.shape:
            try:
                aa, bb = _np.broadcast_arrays(aa, bb)
            except ValueError:
                return z3.BoolVal(False)
        fs = [f(lift(x), lift(y)) for x, y in zip(aa.ravel().tolist(), bb.ravel().tolist())]
        return z3.And(fs) if len(fs) != 1 else fs[0]

    def And(self, *xs): return z3.And([fbool(x) for x in xs]) if xs else z3.BoolVal(True)
    def Or(self, *xs): return z3.Or([fbool(x) for x in xs]) if xs else z3.BoolVal(False)
    def Not(self, x): return z3.Not(fbool(x))
    def Implies(self, a, b): return z3.Implies(fbool(a), fbool(b))
    def true(self): return z3.BoolVal(True)

    def require(self, cond, label=""):
        f = fbool(cond)
        self.path.add_assume(f)
        return f

    def hint(self, fact, label):
        """axiom instance from the T4 library; assumed, logged"""
        f = fbool(fact)
        self.path.add_assume(f)
        self.path.hints.append(label)
        return f

    def ensure(self, name, cond, functions=(), using=None, generalize=None):
        # `generalize=[terms]`: the listed sub-terms are replaced by fresh reals everywhere in
        # goal, `using` and facts before solving (proving the generalisation proves the instance)
        if generalize is not None:
            self.path.gen[len(self.path.obls)] = [lift(t) for t in generalize]
        # the obligation may use the assumptions made so far (requires, hints, earlier lemmas);
        # `using=[formulas]` restricts the hypotheses to the given ones plus the ground facts of
        # the function applications occurring in them and in the goal (a "BY" clause: fewer
        # hypotheses, so still sound)
        u = None if using is None else [fbool(x) for x in using]
        self.path.obls.append((name, fbool(cond), len(self.path.assume), u))

    def lemma(self, name, cond, functions=(), using=None, generalize=None):
        """an obligation that, once stated, is available as hypothesis to LATER obligations of
        the same path (never to itself or earlier ones)"""
        f = fbool(cond)
        self.ensure(name, f, using=using, generalize=generalize)
        self.path.lemma_idx.add(len(self.path.assume))
        self.path.assume.append(f)     # not given to the branch-feasibility solvers
        return f

    def done(self):
        raise _ContractReturn()

    def shape_eq(self, a, shape):
        return z3.BoolVal(tuple(_np.shape(a)) == tuple(shape))


class _MathConc:
    pi = math.pi
    def exp(self, x): return _np.exp(x)
    def log(self, x): return _np.log(x)
    def sqrt(self, x): return _np.sqrt(x)
    def cbrt(self, x): return _np.cbrt(x)
    def sin(self, x): return _np.sin(x)
    def cos(self, x): return _np.cos(x)
    def tan(self, x): return _np.tan(x)
    def arcsin(self, x): return _np.arcsin(x)
    def arccos(self, x): return _np.arccos(x)
    def arctan(self, x): return _np.arctan(x)
    def arctan2(self, y, x): return _np.arctan2(y, x)
    def pow(self, x, a): return _np.power(float(x), a)
    def abs(self, x): return abs(x)
    def ite(self, c, a, b): return a if c else b
    def max(self, a, b): return max(a, b)
    def min(self, a, b): return min(a, b)

    def fn(self, name, *args):
        return CONC_FUNCS[name](*args)


CONC_FUNCS = {}


def _load_conc_funcs():
    import scipy.special as sps
    for n in ("gamma", "kv", "jv", "erf", "erfc", "erfinv", "erfcinv", "gammaincc", "gammainc",
              "hyp2f1", "exp1", "expn", "loggamma", "gammaln", "beta", "iv", "expi"):
        if hasattr(sps, n):
            CONC_FUNCS[n] = getattr(sps, n)


class ConcCtx:
    """runs the same contract natively on floats (replay / spot check)"""
    mode = "conc"

    def __init__(self, values, rtol=1e-7, atol=1e-9):
        self.values = values
        self.rtol, self.atol = rtol, atol
        self.results = {}
        self.m = _MathConc()
        self.margin = {}

    def real(self, name, **kw):
        return float(self.values[name])

    def reals(self, name, n, **kw):
        return [self.real("%s%d" % (name, i)) for i in range(n)]

    def integer(self, name, lo=0, hi=1000):
        return int(round(float(self.values[name])))

    def const(self, x):
        return x

    def _close(self, x, y):
        x, y = float(x), float(y)
        if x != x or y != y:
            return False
        if x == y:
            return True
        return abs(x - y) <= self.atol + self.rtol * max(abs(x), abs(y))

    def _rel(self, a, b, f):
        aa, bb = _np.asarray(a, dtype=float), _np.asarray(b, dtype=float)
        if aa.shape != bb.shape:
            try:
                aa, bb = _np.broadcast_arrays(aa, bb)
            except ValueError:
                return False
        return all(f(x, y) for x, y in zip(aa.ravel().tolist(), bb.ravel().tolist()))

    def eq(self, a, b): return self._rel(a, b, self._close)
    def ne(self, a, b): return not self.eq(a, b)
    def le(self, a, b): return self._rel(a, b, lambda x, y: x <= y or self._close(x, y))
    def ge(self, a, b): return self._rel(a, b, lambda x, y: x >= y or self._close(x, y))
    def lt(self, a, b): return self._rel(a, b, lambda x, y: x < y)
    def gt(self, a, b): return self._rel(a, b, lambda x, y: x > y)
    def And(self, *xs): return all(self._b(x) for x in xs)
    def Or(self, *xs): return any(self._b(x) for x in xs)
    def Not(self, x): return not self._b(x)
    def Implies(self, a, b): return (not self._b(a)) or self._b(b)
    def true(self): return True

    def _b(self, x):
        if isinstance(x, _np.ndarray):
            return bool(x.all())
        if isinstance(x, (list, tuple)):
            return all(self._b(v) for v in x)
        return bool(x)

    def require(self, cond, label=""):
        if not self._b(cond):
            raise Reject(label)
        return cond

    def hint(self, fact, label):
        return fact

    def ensure(self, name, cond, functions=(), using=None, generalize=None):
        ok = self._b(cond)
        self.results[name] = self.results.get(name, True) and ok
        return cond

    lemma = ensure

    def done(self):
        raise _ContractReturn()

    def shape_eq(self, a, shape):
        return tuple(_np.shape(a)) == tuple(shape)


# ---------------------------------------------------------------------------------------
# shims (verifier process only; never written to /repo)
# ---------------------------------------------------------------------------------------
_FLOATY = (None, float, _np.double, _np.float64, "float", "float64", "d", _np.dtype("float64"))


def _floaty(dtype):
    try:
        return dtype in _FLOATY
    except TypeError:
        return False


def _elementwise(fn, *args):
    arrs = [_np.asarray(a, dtype=object) if not isinstance(a, _np.ndarray) else a for a in args]
    if all(a.ndim == 0 for a in arrs):
        return fn(*[a.item() for a in arrs])
    return _np.frompyfunc(fn, len(arrs), 1)(*arrs)


class NpShim:
    """stands in for the module global `np` inside gstools modules.  Every override falls
    through to real numpy unless a symbolic value is involved."""

    def __init__(self):
        self.__dict__["_np"] = _np

    def __getattr__(self, name):
        ov = _NP_OVERRIDES.get(name)
        if ov is not None:
            return ov
        return getattr(_np, name)

    @property
    def pi(self):
        return SymReal(PI) if symbolic_active() else _np.pi


def _mk_array_like(realfn):
    def f(obj, *a, **kw):
        dtype = kw.get("dtype", a[0] if a else None)
        if symbolic_active() and _floaty(dtype) and (
                is_sym(obj) or (isinstance(obj, _np.ndarray) and obj.dtype == object)):
            kw2 = {k: v for k, v in kw.items() if k not in ("dtype",)}
            a2 = a[1:] if a else a
            if realfn in (_np.asarray, _np.asanyarray):
                kw2.pop("copy", None)
                if isinstance(obj, _np.ndarray) and obj.dtype == object:
                    return symarr(obj)
                return symarr(_np.array(obj, dtype=object))
            ndmin = kw2.get("ndmin", 0)
            return symarr(_np.array(obj, dtype=object, copy=True, ndmin=ndmin))
        return realfn(obj, *a, **kw)
    return f


def _mk_filled(realfn, fillval):
    def f(shape, *a, **kw):
        dtype = kw.get("dtype", a[0] if a else None)
        if symbolic_active() and _floaty(dtype):
            kw2 = {k: v for k, v in kw.items() if k != "dtype"}
            out = _np.empty(shape, dtype=object)
            fv = wrap(fillval)
            flat = out.reshape(-1)
            for i in range(flat.size):
                flat[i] = fv
            return out
        return realfn(shape, *a, **kw)
    return f


def _sh_full(shape, fill_value, dtype=None, **kw):
    if symbolic_active() and (is_sym(fill_value) or _floaty(dtype)):
        out = _np.empty(shape, dtype=object)
        flat = out.reshape(-1)
        fv = wrap(fill_value)
        for i in range(flat.size):
            flat[i] = fv
        return out
    return _np.full(shape, fill_value, dtype=dtype, **kw)


def _sh_full_like(x, fill_value, dtype=None, **kw):
    if symbolic_active() and (is_sym(x) or is_sym(fill_value) or
                              (isinstance(x, _np.ndarray) and x.dtype == object)) \
            and (dtype is None or _floaty(dtype)):
        out = _np.empty(_np.shape(x), dtype=object)
        fin = is_sym(fill_value) or bool(_np.isfinite(fill_value))
        fv = wrap(fill_value) if fin else float(fill_value)   # nan / inf stay plain floats
        flat = out.reshape(-1)
        for i in range(flat.size):
            flat[i] = fv
        return out
    return _np.full_like(x, fill_value, dtype=dtype, **kw)


def _sh_eye(n, *a, **kw):
    dtype = kw.get("dtype", None)
    if symbolic_active() and _floaty(dtype) and not a:
        return symarr(_np.eye(n).astype(object))
    return _np.eye(n, *a, **kw)


def _mk_like(realfn, fillval):
    def f(x, *a, **kw):
        dtype = kw.get("dtype", a[0] if a else None)
        if symbolic_active() and (is_sym(x) or (isinstance(x, _np.ndarray) and x.dtype == object)) \
                and (dtype is None or _floaty(dtype)):
            out = _np.empty(_np.shape(x), dtype=object)
            fv = wrap(fillval)
            flat = out.reshape(-1)
            for i in range(flat.size):
                flat[i] = fv
            return out
        return realfn(x, *a, **kw)
    return f


def _mk_unary(realfn, name):
    def f(x, *a, **kw):
        if symbolic_active() and is_sym(x):
            return _elementwise(lambda v: uf(name, v), x)
        return realfn(x, *a, **kw)
    return f


def _sh_power(x, e, *a, **kw):
    if symbolic_active() and (is_sym(x) or is_sym(e)):
        return _elementwise(lambda u, v: wrap(u) ** v, x, e)
    return _np.power(x, e, *a, **kw)


def _sh_arctan2(y, x, *a, **kw):
    if symbolic_active() and (is_sym(x) or is_sym(y)):
        return _elementwise(lambda u, v: uf("arctan2", u, v), y, x)
    return _np.arctan2(y, x, *a, **kw)


def _sh_abs(x, *a, **kw):
    if symbolic_active() and is_sym(x):
        return _elementwise(lambda v: abs(wrap(v)), x)
    return _np.abs(x, *a, **kw)


def _sh_sign(x, *a, **kw):
    if symbolic_active() and is_sym(x):
        return _elementwise(lambda v: SymReal(z3.If(lift(v) > 0, z3.RealVal(1),
                                                    z3.If(lift(v) < 0, z3.RealVal(-1), z3.RealVal(0)))), x)
    return _np.sign(x, *a, **kw)


def _sh_maximum(x, y, *a, **kw):
    if symbolic_active() and (is_sym(x) or is_sym(y)):
        return _elementwise(lambda u, v: SymReal(z3.If(lift(u) >= lift(v), lift(u), lift(v))), x, y)
    return _np.maximum(x, y, *a, **kw)


def _sh_minimum(x, y, *a, **kw):
    if symbolic_active() and (is_sym(x) or is_sym(y)):
        return _elementwise(lambda u, v: SymReal(z3.If(lift(u) <= lift(v), lift(u), lift(v))), x, y)
    return _np.minimum(x, y, *a, **kw)


def _sh_linspace(start, stop, num=50, endpoint=True, retstep=False, dtype=None, axis=0):
    """np.linspace over the reals: start + i * (stop - start) / div (numpy sets the last sample to
    `stop` itself, the same real number)"""
    if symbolic_active() and (is_sym(start) or is_sym(stop)) and not retstep and axis == 0 \
            and _np.ndim(start) == 0 and _np.ndim(stop) == 0:
        num = int(num)
        div = (num - 1) if endpoint else num
        out = _np.empty(num, dtype=object)
        a, b = wrap(start), wrap(stop)
        for i in range(num):
            out[i] = a if i == 0 else (b if (endpoint and i == num - 1) else a + (b - a) * i / div)
        return symarr(out)
    return _np.linspace(start, stop, num, endpoint, retstep, dtype, axis)


def _mk_minmax(realfn, is_max):
    """np.min / np.max of a symbolic array without axis: an if-then-else chain (no path forks)"""
    def f(a, axis=None, out=None, **kw):
        if symbolic_active() and axis is None and out is None and not kw and is_sym(a):
            vals = _np.asarray(a, dtype=object).ravel().tolist()
            if any(isinstance(v, float) and not math.isfinite(v) for v in vals):
                return realfn(a, axis=axis, out=out, **kw)      # +-inf / NaN entries: python comparisons (forking)
            cur = lift(wrap(vals[0]))
            for v in vals[1:]:
                t = lift(wrap(v))
                cur = z3.If(t >= cur, t, cur) if is_max else z3.If(t <= cur, t, cur)
            return SymReal(cur)
        return realfn(a, axis=axis, out=out, **kw)
    return f


class _LinalgShim:
    """np.linalg inside gstools modules: the 2-norm of a symbolic vector is sqrt(sum x_i^2)"""

    def __getattr__(self, name):
        return getattr(_np.linalg, name)

    @staticmethod
    def norm(x, ord=None, axis=None, keepdims=False):
        if symbolic_active() and is_sym(x) and ord in (None, 2) and axis is None and not keepdims \
                and _np.ndim(x) == 1:
            tot = wrap(0)
            for v in _np.asarray(x, dtype=object).tolist():
                tot = tot + wrap(v) * wrap(v)
            return _NP_OVERRIDES["sqrt"](tot)
        return _np.linalg.norm(x, ord, axis, keepdims)


def _mk_intpart(realfn, mode):
    def f(x, *a, **kw):
        if symbolic_active() and is_sym(x) and not kw and (not a or a == (0,)):
            return _elementwise(lambda v: SymReal(_ratval(int_cases(v, mode))) if isinstance(v, SymReal) else realfn(v), x)
        return realfn(x, *a, **kw)
    return f


def _forked_bools(arr):
    a = _np.asarray(arr, dtype=object)
    if a.ndim == 0:
        return bool(a.item())
    out = _np.empty(a.shape, dtype=bool)
    flat = out.reshape(-1)
    for i, v in enumerate(a.reshape(-1).tolist()):
        flat[i] = bool(v)
    return out


def _sh_isclose(a, b, rtol=1.0e-5, atol=1.0e-8, equal_nan=False):
    if symbolic_active() and (is_sym(a) or is_sym(b)):
        def one(u, v):
            u, v = wrap(u), wrap(v)
            if _num(u.t - v.t) == 0 and atol >= 0 and rtol >= 0:
                return True          # syntactically the same value: close for any tolerance
            return abs(u - v) <= atol + rtol * abs(v)
        return _forked_bools(_elementwise(one, a, b))
    return _np.isclose(a, b, rtol=rtol, atol=atol, equal_nan=equal_nan)


def _sh_allclose(a, b, rtol=1.0e-5, atol=1.0e-8, equal_nan=False):
    if symbolic_active() and (is_sym(a) or is_sym(b)):
        return bool(_np.all(_sh_isclose(a, b, rtol, atol)))
    return _np.allclose(a, b, rtol=rtol, atol=atol, equal_nan=equal_nan)


def _sh_isnan(x, *a, **kw):
    if symbolic_active() and is_sym(x):
        return _elementwise(lambda v: False if isinstance(v, SymReal) else bool(_np.isnan(v)), x).astype(bool) \
            if _np.ndim(x) else False
    return _np.isnan(x, *a, **kw)


def _sh_isfinite(x, *a, **kw):
    if symbolic_active() and is_sym(x):
        return _elementwise(lambda v: True if isinstance(v, SymReal) else bool(_np.isfinite(v)), x).astype(bool) \
            if _np.ndim(x) else True
    return _np.isfinite(x, *a, **kw)


def _sh_deg2rad(x, *a, **kw):
    if symbolic_active() and is_sym(x):
        return _elementwise(lambda v: wrap(v).deg2rad(), x)
    return _np.deg2rad(x, *a, **kw)


def _sh_rad2deg(x, *a, **kw):
    if symbolic_active() and is_sym(x):
        kw.pop("dtype", None)
        return _elementwise(lambda v: wrap(v).rad2deg(), _np.asarray(x, dtype=object))
    return _np.rad2deg(x, *a, **kw)


def _sh_divide(x, y, *a, **kw):
    if symbolic_active() and (is_sym(x) or is_sym(y)):
        res = _elementwise(lambda u, v: wrap(u) / v, x, y)
        where = kw.get("where", True)
        out = kw.get("out", a[0] if a else None)
        if where is True or (isinstance(where, (bool, _np.bool_)) and where):
            return res
        # numpy semantics of `where=`: the quotient where the mask holds, the entries of `out` elsewhere
        if is_sym(where):
            where = _forked_bools(where)
        if out is None:
            raise Unsupported("np.divide(where=...) without out: entries outside the mask are uninitialised")
        res = _np.asarray(res, dtype=object)
        w = _np.broadcast_to(_np.asarray(where, dtype=bool), res.shape)
        o = _np.broadcast_to(_np.asarray(out, dtype=object), res.shape)
        mixed = _np.empty(res.shape, dtype=object)
        for i in _np.ndindex(*res.shape):
            mixed[i] = res[i] if w[i] else o[i]
        return mixed if mixed.ndim else mixed[()]
    return _np.divide(x, y, *a, **kw)


def _sh_expm1(x, *a, **kw):
    if symbolic_active() and is_sym(x):
        return _elementwise(lambda v: uf("exp", v) - 1, x)
    return _np.expm1(x, *a, **kw)


def _sh_log1p(x, *a, **kw):
    if symbolic_active() and is_sym(x):
        return _elementwise(lambda v: uf("log", 1 + wrap(v)), x)
    return _np.log1p(x, *a, **kw)


def _sh_square(x, *a, **kw):
    if symbolic_active() and is_sym(x):
        return _elementwise(lambda v: wrap(v) * wrap(v), x)
    return _np.square(x, *a, **kw)


_NP_OVERRIDES = {
    "array": _mk_array_like(_np.array),
    "linspace": _sh_linspace,
    "around": _mk_intpart(_np.around, "round"), "round": _mk_intpart(_np.round, "round"),
    "rint": _mk_intpart(_np.rint, "round"), "floor": _mk_intpart(_np.floor, "floor"),
    "ceil": _mk_intpart(_np.ceil, "ceil"), "trunc": _mk_intpart(_np.trunc, "trunc"),
    "min": _mk_minmax(_np.min, False), "amin": _mk_minmax(_np.min, False),
    "max": _mk_minmax(_np.max, True), "amax": _mk_minmax(_np.max, True),
    "linalg": _LinalgShim(),
    "asarray": _mk_array_like(_np.asarray),
    "asanyarray": _mk_array_like(_np.asanyarray),
    "zeros": _mk_filled(_np.zeros, 0),
    "ones": _mk_filled(_np.ones, 1),
    "empty": _mk_filled(_np.empty, 0),
    "full": _sh_full,
    "full_like": _sh_full_like,
    "eye": _sh_eye,
    "zeros_like": _mk_like(_np.zeros_like, 0),
    "ones_like": _mk_like(_np.ones_like, 1),
    "empty_like": _mk_like(_np.empty_like, 0),
    "exp": _mk_unary(_np.exp, "exp"), "log": _mk_unary(_np.log, "log"),
    "sqrt": _mk_unary(_np.sqrt, "sqrt"), "cbrt": _mk_unary(_np.cbrt, "cbrt"),
    "sin": _mk_unary(_np.sin, "sin"), "cos": _mk_unary(_np.cos, "cos"),
    "tan": _mk_unary(_np.tan, "tan"), "arcsin": _mk_unary(_np.arcsin, "arcsin"),
    "arccos": _mk_unary(_np.arccos, "arccos"), "arctan": _mk_unary(_np.arctan, "arctan"),
    "power": _sh_power, "arctan2": _sh_arctan2, "abs": _sh_abs, "absolute": _sh_abs,
    "fabs": _sh_abs, "sign": _sh_sign, "maximum": _sh_maximum, "minimum": _sh_minimum,
    "isclose": _sh_isclose, "allclose": _sh_allclose, "isnan": _sh_isnan,
    "isfinite": _sh_isfinite, "deg2rad": _sh_deg2rad, "rad2deg": _sh_rad2deg,
    "radians": _sh_deg2rad, "degrees": _sh_rad2deg, "divide": _sh_divide,
    "expm1": _sh_expm1, "log1p": _sh_log1p, "square": _sh_square,
}


class _FloatMeta(type):
    def __instancecheck__(cls, inst):
        return isinstance(inst, builtins.float)


class symfloat(builtins.float, metaclass=_FloatMeta):
    """module-global `float` inside gstools modules: identity on symbolic values"""

    def __new__(cls, x=0.0):
        if isinstance(x, SymReal):
            return x
        if isinstance(x, _np.ndarray) and x.dtype == object and x.size == 1 and \
                isinstance(x.reshape(-1)[0], SymReal):
            return x.reshape(-1)[0]
        return builtins.float(x)


class UFModule:
    """stands in for a module global such as `sps` (scipy.special): symbolic arguments give an
    uninterpreted application `name(args)`; concrete arguments call the real function"""

    def __init__(self, real, prefix=""):
        self.__dict__["_real"] = real
        self.__dict__["_prefix"] = prefix

    def __getattr__(self, name):
        realfn = getattr(self._real, name)
        if not callable(realfn):
            return realfn

        def f(*args, **kw):
            if symbolic_active() and name == "gamma" and len(args) == 1 and _np.ndim(args[0]) == 0 \
                    and not is_sym(args[0]):
                g = _gamma_half_integer(float(args[0]))
                if g is not None:
                    return g        # exact value in terms of the symbolic pi (np.pi is symbolic too)
            if symbolic_active() and any(is_sym(a) or (isinstance(a, _np.ndarray) and a.dtype == object)
                                         for a in args):
                return _elementwise(lambda *vs: uf(self._prefix + name, *vs), *args)
            return realfn(*args, **kw)
        return f


def _gamma_half_integer(x):
    """Gamma(n) = (n-1)!, Gamma(n + 1/2) = (2n)!/(4^n n!) sqrt(pi) (T4), for 0 < x <= 12"""
    from math import factorial
    if not (0 < x <= 12) or (2 * x) != int(2 * x):
        return None
    if x == int(x):
        return SymReal(z3.RealVal(factorial(int(x) - 1)))
    n = int(x - 0.5)
    return Fraction(factorial(2 * n), 4 ** n * factorial(n)) * uf("sqrt", SymReal(PI))


SHIM_LOG = []


def install_shims():
    """rebind module globals `np`, `float`, `sps` of every loaded gstools module"""
    import scipy.special as _sps
    npshim = NpShim()
    spsshim = UFModule(_sps)
    for mname, mod in list(sys.modules.items()):
        if mod is None or not (mname == "gstools" or mname.startswith("gstools.")):
            continue
        d = getattr(mod, "__dict__", {})
        if d.get("np") is _np:
            mod.np = npshim
            SHIM_LOG.append("%s.np" % mname)
        if "float" not in d and not mname.endswith(("plot", "export")):
            mod.float = symfloat
        for k, v in list(d.items()):
            if v is _sps:
                setattr(mod, k, spsshim)
                SHIM_LOG.append("%s.%s (scipy.special -> UF)" % (mname, k))
    _load_conc_funcs()
    return npshim


# ---------------------------------------------------------------------------------------
# solving
# ---------------------------------------------------------------------------------------
def uf_apps(formulas):
    """ids of all uninterpreted applications (arity > 0) in the formulas"""
    seen = {}
    out = set()

    def walk(t):
        k = t.get_id()
        if k in seen:
            return
        seen[k] = t
        if z3.is_app(t):
            if t.decl().kind() == z3.Z3_OP_UNINTERPRETED and t.num_args() > 0:
                out.add(k)
            for c in t.children():
                walk(c)
    for f in formulas:
        walk(f)
    return out, seen


_FACT_APPS = {}     # id(fact) -> (fact, frozenset of application ids); the fact is kept alive


def relevant_facts(facts, formulas, path=None):
    """facts all of whose function applications occur in `formulas` (sin/cos of the same
    argument count as one unit)"""
    want, keep = uf_apps(formulas)
    if path is not None:
        for (t, c, s) in path.trig:
            if c.get_id() in want or s.get_id() in want:
                want.add(c.get_id())
                want.add(s.get_id())
    res = []
    for f in facts:
        ent = _FACT_APPS.get(id(f))
        if ent is None or ent[0] is not f:
            apps, keep2 = uf_apps([f])
            ent = (f, frozenset(apps), keep2)
            _FACT_APPS[id(f)] = ent
        if ent[1] <= want:
            res.append(f)
    return res


def ackermannize(formulas):
    """replace every uninterpreted application by a fresh real (functional consistency was
    already added pairwise as ground facts when the applications were created)"""
    cache = {}
    fresh = {}
    keep = []   # keeps every visited term alive: z3 re-uses ast ids after garbage collection

    def walk(t):
        k = t.get_id()
        if k in cache:
            return cache[k]
        keep.append(t)
        if z3.is_app(t):
            ch = [walk(c) for c in t.children()]
            d = t.decl()
            if d.kind() == z3.Z3_OP_UNINTERPRETED and ch:
                t2 = d(*ch)
                keep.append(t2)
                k2 = t2.get_id()
                if k2 not in fresh:
                    fresh[k2] = z3.Real("uf!%s!%d" % (d.name(), len(fresh)))
                r = fresh[k2]
            elif ch:
                r = d(*ch) if not all(a.eq(b) for a, b in zip(ch, t.children())) else t
            else:
                r = t
        else:
            r = t
        cache[k] = r
        return r

    return [walk(f) for f in formulas]


def solve(formulas, timeout_s=20, want_model=True):
    """returns ('unsat'|'sat'|'unknown', model-or-None, backend, seconds)"""
    t0 = time.time()
    fs = ackermannize(formulas)
    s = z3.Solver()
    s.set("timeout", int(timeout_s * 1000))
    s.set("random_seed", 7)
    for f in fs:
        s.add(f)
    r = s.check()
    if r == z3.unsat:
        return "unsat", None, "z3", time.time() - t0
    if r == z3.sat:
        return "sat", s.model(), "z3", time.time() - t0
    # second opinion: explicit nlsat tactic, then cvc5 on the SMT-LIB text
    try:
        tac = z3.Then("simplify", "purify-arith", "elim-term-ite", "solve-eqs", "qfnra-nlsat")
        s2 = tac.solver()
        s2.set("timeout", int(timeout_s * 500))
        for f in fs:
            s2.add(f)
        r2 = s2.check()
        if r2 == z3.unsat:
            return "unsat", None, "z3-nlsat", time.time() - t0
        if r2 == z3.sat:
            return "sat", s2.model(), "z3-nlsat", time.time() - t0
    except z3.Z3Exception:
        pass
    r3 = _cvc5(s.to_smt2(), timeout_s / 2)
    if r3 == "unsat":
        return "unsat", None, "cvc5", time.time() - t0
    return "unknown", None, "z3+cvc5", time.time() - t0


def _cvc5(smt2, timeout_s):
    import subprocess
    import tempfile
    try:
        with tempfile.NamedTemporaryFile("w", suffix=".smt2", delete=False) as f:
            f.write("(set-logic QF_NRA)\n" + smt2)
            fn = f.name
        try:
            out = subprocess.run(["/usr/bin/cvc5", "--tlimit=%d" % int(timeout_s * 1000), fn],
                                 capture_output=True, text=True, timeout=timeout_s + 5)
            o = out.stdout.strip().splitlines()
            return o[0] if o else "unknown"
        finally:
            os.unlink(fn)
    except Exception:
        return "unknown"


def model_values(model, inputs):
    vals = {}
    for name, v in inputs.items():
        x = model.eval(v, model_completion=True)
        if z3.is_rational_value(x):
            vals[name] = float(Fraction(x.numerator_as_long(), x.denominator_as_long()))
        elif z3.is_algebraic_value(x):
            a = x.approx(20)
            vals[name] = float(Fraction(a.numerator_as_long(), a.denominator_as_long()))
        else:
            vals[name] = 0.0
    return vals
