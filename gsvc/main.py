"""Driver: ./check <Cxx> [--tier quick|thorough] [--replay path] [--freeze-ledger]"""
import argparse
import importlib
import os
import sys

from .core import Report, run_guarded, VERIF

LEVELS = {}


def main(argv=None):
    ap = argparse.ArgumentParser()
    ap.add_argument("prop")
    ap.add_argument("--tier", default=os.environ.get("VERIF_TIER", "quick"))
    ap.add_argument("--replay", default=None)
    ap.add_argument("--freeze-ledger", action="store_true")
    ap.add_argument("--only", default=None, help="substring filter on obligation groups (debug)")
    a = ap.parse_args(argv)
    tier = a.tier if a.tier in ("quick", "thorough") else "quick"
    try:
        seed = int(os.environ.get("VERIF_SEED", "0"))
    except ValueError:
        seed = 0
    sys.path.insert(0, VERIF)
    mod = importlib.import_module("props." + a.prop)
    if a.replay:
        sys.exit(mod.replay(a.replay))
    rep = Report(a.prop, tier, seed, level=getattr(mod, "LEVEL", "proof"))
    rep.partial = bool(a.only)     # debug filter: the ledger completeness guard does not apply
    run_guarded(lambda: mod.run(rep, tier, seed, only=a.only), rep)
    rc = rep.finish()
    if a.freeze_ledger:
        rep.write_ledger()
        print("ledger frozen for", a.prop)
    sys.exit(rc)


if __name__ == "__main__":
    main()
