"""Mechanical, token/line based lowering  .pyx -> Python ``ast``  (kernvc front end).

Run on every check; reads the current working tree below ``core.REPO``.

What is DROPPED (each occurrence is recorded with its line number in ``Lowered.dropped``):
  * ``cimport`` lines (``cimport x`` / ``from x cimport a, b``); the imported libc.math names are
    remembered as *intrinsics*;
  * ``from cython.parallel import ...`` (``prange`` / ``parallel`` stay as *markers* in the ast);
  * ``ctypedef`` statements (plain aliases and function-pointer typedefs are remembered as types);
  * ``cdef T a, b`` declarations without initialiser (types remembered per function);
  * the C type in ``cdef T x = e``  (kept as ``x = e``) and in signatures
    (``const double[:, :] pos`` -> ``pos``); ``const``, ``inline``, ``nogil``, return types;
  * ``nogil=True``, ``num_threads=...``, ``schedule=...`` keyword arguments of ``prange`` and
    ``parallel`` and the ``nogil`` item of a ``with nogil, parallel(...)``;
  * a module level ``if OPENMP:`` block whose body consists of cimports only (compile time);
    an ``if OPENMP:`` *inside* a function is kept: ``OPENMP`` is a compile-time Boolean symbol;
  * the ``f`` prefix of f-strings (exception message texts are not modelled; the pinned source
    even contains an f-string that CPython cannot parse);
  * comments.
Nothing else is rewritten.  Anything outside the subset raises ``LoweringError``.

Containment of lowering failures (so that one unsupported construct does not take the whole run down):
  * a construct outside the subset in the BODY of a function (forbidden keyword / operator, a line
    that cannot be lowered, a body that is not valid Python after lowering, an ast node outside the
    subset) fails that function only: the function keeps its header (``FuncInfo`` with parameter
    types), its body is replaced by ``pass``, the message is recorded in ``Lowered.failed[name]``
    and every function that (transitively) references it is listed in ``Lowered.tainted`` (those
    must not be *interpreted*; their VCs use the callee's contract and are unaffected);
  * anything else (tokenizer, module level, function headers, ctypedefs) fails the FILE:
    ``lower_file`` raises, ``lower_all_contained`` returns the message per file.
The drivers (kern_run, kern_diff) report every ledger obligation of a failed function / file as
UNDECIDED ("source outside the supported subset: ..."), never as held.

C types are kept as sort information (``CType``): double -> Real (NaN flag added by kernvc where
``isnan`` is applied), int / np.int64_t / uint8 -> Int, bint -> Bool, str -> enumerated string code,
memoryviews -> arrays with explicit shape variables, function-pointer typedefs -> function codes.
"""
from __future__ import annotations

import ast
import os
import re

from . import core


class LoweringError(Exception):
    """Construct outside the supported subset (never a verdict 'held' for the code it concerns)."""


def short_of(relpath):
    return relpath.replace("src/gstools/", "")


KERNEL_FILES = (
    "src/gstools/field/summator.pyx",
    "src/gstools/krige/krigesum.pyx",
    "src/gstools/variogram/estimator.pyx",
)

# ----------------------------------------------------------------------------------------------
# tokenizer
# ----------------------------------------------------------------------------------------------
_TOK = re.compile(r"""
    (?P<ws>[ \t\f]+)
  | (?P<comment>\#[^\n]*)
  | (?P<nl>\n)
  | (?P<cont>\\\n)
  | (?P<str>[fFrRbBuU]{0,2}(?:'''(?:\\.|[^\\])*?'''|\"\"\"(?:\\.|[^\\])*?\"\"\"|'(?:\\.|[^\\'\n])*'|"(?:\\.|[^\\"\n])*"))
  | (?P<num>(?:\d+\.\d*|\.\d+|\d+)(?:[eE][+-]?\d+)?[jJ]?)
  | (?P<name>[A-Za-z_][A-Za-z_0-9]*)
  | (?P<op>\*\*=|//=|>>=|<<=|\.\.\.|!=|==|<=|>=|->|\*\*|//|<<|>>|\+=|-=|\*=|/=|%=|&=|\|=|\^=|[-+*/%&|^~<>()\[\]{},:.;=@])
""", re.X | re.S)


class Tok:
    __slots__ = ("kind", "text", "line", "col")

    def __init__(self, kind, text, line, col):
        self.kind, self.text, self.line, self.col = kind, text, line, col

    def __repr__(self):
        return "%s:%r@%d" % (self.kind, self.text, self.line)


def tokenize(src, path="<pyx>"):
    toks = []
    pos, line, linestart = 0, 1, 0
    n = len(src)
    while pos < n:
        m = _TOK.match(src, pos)
        if not m:
            raise LoweringError("%s:%d: cannot tokenize %r" % (path, line, src[pos:pos + 20]))
        kind = m.lastgroup
        text = m.group()
        if kind not in ("ws", "cont"):
            toks.append(Tok(kind, text, line, pos - linestart))
        nls = text.count("\n")
        if nls:
            line += nls
            linestart = pos + text.rfind("\n") + 1
        pos = m.end()
    return toks


class LLine:
    """One logical line: tokens (no comments / newlines), indentation, first and last physical line."""
    __slots__ = ("toks", "indent", "line", "endline")

    def __init__(self, toks, indent, line, endline):
        self.toks, self.indent, self.line, self.endline = toks, indent, line, endline

    def text(self):
        return " ".join(t.text for t in self.toks)


def logical_lines(toks):
    out = []
    cur = []
    depth = 0
    for t in toks:
        if t.kind == "comment":
            continue
        if t.kind == "nl":
            if depth == 0 and cur:
                out.append(LLine(cur, cur[0].col, cur[0].line, t.line))
                cur = []
            continue
        if t.kind == "op":
            if t.text in "([{":
                depth += 1
            elif t.text in ")]}":
                depth -= 1
        cur.append(t)
    if cur:
        out.append(LLine(cur, cur[0].col, cur[0].line, cur[-1].line))
    return out


# ----------------------------------------------------------------------------------------------
# C types
# ----------------------------------------------------------------------------------------------
class CType:
    """base in {'double','int','int64','bint','uint8','str','object','void','funcptr'}"""
    __slots__ = ("base", "ndim", "const", "name", "sig")

    def __init__(self, base, ndim=0, const=False, name=None, sig=None):
        self.base, self.ndim, self.const, self.name, self.sig = base, ndim, const, name, sig

    @property
    def sort(self):
        e = {"double": "Real", "int": "Int", "int64": "Int", "uint8": "Int", "bint": "Bool",
             "str": "Str", "object": "Obj", "void": "Void", "funcptr": "FuncPtr"}[self.base]
        return e if self.ndim == 0 else "Array%d[%s]" % (self.ndim, e)

    def __repr__(self):
        s = ("const " if self.const else "") + (self.name or self.base)
        if self.ndim:
            s += "[" + ", ".join(":" * 1 for _ in range(self.ndim)) + "]"
        return s

    def to_json(self):
        return repr(self) + " -> " + self.sort


_BASE = {"double": "double", "float": None, "int": "int", "bint": "bint", "str": "str",
         "np.int64_t": "int64", "void": "void", "long": None, "object": "object",
         "unsigned char": "uint8", "Py_ssize_t": "int64"}

FORBIDDEN_WORDS = {"while", "try", "except", "finally", "lambda", "class", "yield", "global",
                   "nonlocal", "del", "assert", "cpdef", "struct", "enum", "union", "extern",
                   "DEF", "IF", "ELIF", "ELSE", "include", "sizeof", "NULL", "async", "await",
                   "cppclass", "new", "fused", "gil", "match", "print", "exec", "eval"}
FORBIDDEN_OPS = {"&", "|", "^", "~", "@", "->", ";", "<<", ">>", "&=", "|=", "^=", "//", "//=",
                 "%", "%=", "{", "}", ">>=", "<<=", "**="}


class FuncInfo:
    def __init__(self, name, kind, line):
        self.name = name
        self.kind = kind            # 'def' (Python visible entry point) | 'cdef' (helper)
        self.line = line
        self.endline = line
        self.params = []            # [(name, CType, default_text|None)]
        self.ret = None             # CType | None
        self.locals = {}            # name -> CType
        self.nogil = False
        self.markers = []           # [(line, 'prange'|'parallel', dropped kwargs text)]
        self.node = None            # ast.FunctionDef
        self.failed = None          # message: body outside the supported subset (body is `pass`)

    def ctype(self, name):
        for n, t, _ in self.params:
            if n == name:
                return t
        return self.locals.get(name)

    def to_json(self):
        return {"kind": self.kind, "line": self.line,
                "params": {n: t.to_json() for n, t, _ in self.params},
                "returns": self.ret.to_json() if self.ret else None,
                "locals": {n: t.to_json() for n, t in self.locals.items()},
                "parallel_markers": [list(m) for m in self.markers]}


class Lowered:
    def __init__(self, relpath):
        self.relpath = relpath
        self.path = os.path.join(core.REPO, relpath)
        self.short = short_of(relpath)
        self.source = ""
        self.lines = []
        self.text = ""              # lowered python text (same line numbering as the .pyx)
        self.tree = None
        self.funcs = {}
        self.dropped = []           # [{"line","kind","text"}]
        self.typedefs = {}          # name -> CType
        self.intrinsics = set()     # names cimported from libc.math
        self.directives = {}
        self.sha = ""
        self.failed = {}            # function name -> message (body could not be lowered)
        self.tainted = set()        # failed functions and everything that transitively refers to them

    def drop(self, line, kind, text):
        self.dropped.append({"line": line, "kind": kind, "text": text})


# ----------------------------------------------------------------------------------------------
def _split_top(toks, sep=","):
    parts, cur, depth = [], [], 0
    for t in toks:
        if t.kind == "op" and t.text in "([{":
            depth += 1
        elif t.kind == "op" and t.text in ")]}":
            depth -= 1
        if depth == 0 and t.kind == "op" and t.text == sep:
            parts.append(cur)
            cur = []
        else:
            cur.append(t)
    if cur or parts:
        parts.append(cur)
    return parts


def _find_top(toks, text):
    depth = 0
    for i, t in enumerate(toks):
        if depth == 0 and t.kind == "op" and t.text == text:
            return i
        if t.kind == "op" and t.text in "([{":
            depth += 1
        elif t.kind == "op" and t.text in ")]}":
            depth -= 1
    return -1


def _match_close(toks, i):
    """index of the bracket matching the opening bracket at toks[i]"""
    depth = 0
    for k in range(i, len(toks)):
        t = toks[k]
        if t.kind == "op" and t.text in "([{":
            depth += 1
        elif t.kind == "op" and t.text in ")]}":
            depth -= 1
            if depth == 0:
                return k
    raise LoweringError("unbalanced bracket at line %d" % toks[i].line)


def _match_open(toks, i):
    depth = 0
    for k in range(i, -1, -1):
        t = toks[k]
        if t.kind == "op" and t.text in ")]}":
            depth += 1
        elif t.kind == "op" and t.text in "([{":
            depth -= 1
            if depth == 0:
                return k
    raise LoweringError("unbalanced bracket at line %d" % toks[i].line)


class _Lowerer:
    def __init__(self, low):
        self.low = low

    # -- types ---------------------------------------------------------------------------------
    def parse_type(self, toks, where):
        """toks: the complete type token list. returns CType."""
        toks = list(toks)
        line = toks[0].line if toks else where
        # strip enclosing parentheses: cdef (double) f(...)
        while toks and toks[0].text == "(" and _match_close(toks, 0) == len(toks) - 1:
            toks = toks[1:-1]
        const = False
        while toks and toks[0].text == "const":
            const = True
            toks = toks[1:]
        if not toks:
            raise LoweringError("line %s: empty C type" % line)
        ndim = 0
        br = _find_top(toks, "[")
        base_toks = toks
        if br >= 0:
            if _match_close(toks, br) != len(toks) - 1:
                raise LoweringError("line %d: unsupported type syntax %r" % (line, " ".join(t.text for t in toks)))
            inner = toks[br + 1:-1]
            dims = _split_top(inner)
            for d in dims:
                if [t.text for t in d] != [":"]:
                    raise LoweringError("line %d: only plain strided memoryviews '[:, :]' are in the "
                                        "subset, got %r" % (line, " ".join(t.text for t in toks)))
            ndim = len(dims)
            base_toks = toks[:br]
        bname = "".join(t.text for t in base_toks) if any(t.text == "." for t in base_toks) \
            else " ".join(t.text for t in base_toks)
        if bname in self.low.typedefs:
            td = self.low.typedefs[bname]
            return CType(td.base, ndim or td.ndim, const, name=bname, sig=td.sig)
        base = _BASE.get(bname)
        if base is None:
            raise LoweringError("line %d: C type %r outside the subset" % (line, bname))
        if ndim > 2:
            raise LoweringError("line %d: memoryviews of rank > 2 are outside the subset" % line)
        return CType(base, ndim, const)

    # -- parameters -----------------------------------------------------------------------------
    def lower_params(self, toks, fi, line):
        out = []
        first = True
        for part in _split_top(toks):
            if not part:
                continue
            for t in part:
                if t.text in ("*", "**"):
                    # star-args are outside the subset
                    if _find_top(part, "=") < 0 and part[0].text in ("*", "**"):
                        raise LoweringError("line %d: *args/**kwargs outside the subset" % line)
            eq = _find_top(part, "=")
            decl = part if eq < 0 else part[:eq]
            default = None if eq < 0 else part[eq + 1:]
            if not decl or decl[-1].kind != "name":
                raise LoweringError("line %d: cannot parse parameter %r" % (line, " ".join(t.text for t in part)))
            name = decl[-1].text
            if len(decl) == 1:
                ct = CType("object")
            else:
                ct = self.parse_type(decl[:-1], line)
                self.low.drop(decl[0].line, "param-type", "%s : %r" % (name, ct))
            fi.params.append((name, ct, " ".join(t.text for t in default) if default else None))
            if not first:
                out.append(Tok("op", ",", part[0].line, 0))
            first = False
            out.append(decl[-1])
            if default is not None:
                out.append(Tok("op", "=", part[0].line, 0))
                out.extend(default)
        return out

    # -- main -----------------------------------------------------------------------------------
    def run(self, src):
        low = self.low
        low.source = src
        low.lines = src.split("\n")
        m = re.match(r"#\s*cython:\s*(.*)", low.lines[0] if low.lines else "")
        if m:
            for item in m.group(1).split(","):
                if "=" in item:
                    k, v = item.split("=", 1)
                    low.directives[k.strip()] = v.strip()
        toks = tokenize(src, low.path)
        bad_tokens = []     # (line, message): decided per logical line below (function body -> that function)
        for t in toks:
            if t.kind == "name" and t.text in FORBIDDEN_WORDS:
                bad_tokens.append((t.line, "%s:%d: keyword %r is outside the supported subset"
                                   % (low.short, t.line, t.text)))
            if t.kind == "op" and t.text in FORBIDDEN_OPS:
                bad_tokens.append((t.line, "%s:%d: operator %r is outside the supported subset"
                                   % (low.short, t.line, t.text)))
        ncom = [t.line for t in toks if t.kind == "comment"]
        if ncom:
            low.drop(ncom[0], "comments", "%d comment tokens dropped (lines %s)"
                     % (len(ncom), ",".join(map(str, ncom[:40])) + ("..." if len(ncom) > 40 else "")))
        lls = logical_lines(toks)
        out = []            # [(LLine, new token list | None)]
        cur_fn = None       # (FuncInfo, indent)
        self.header_idx = {}
        for ll in lls:
            if cur_fn is not None and ll.indent <= cur_fn[1]:
                cur_fn = None
            if cur_fn is not None:
                cur_fn[0].endline = ll.endline
            bad = [m_ for ln, m_ in bad_tokens if ll.line <= ln <= ll.endline]
            try:
                if bad:
                    raise LoweringError(bad[0])
                new = self.lower_line(ll, cur_fn[0] if cur_fn else None)
            except LoweringError as e:
                if cur_fn is None:
                    raise           # module level or function header: the file cannot be lowered
                self.fail(cur_fn[0], e)
                new = None
            if isinstance(new, tuple):      # function header
                fi, newtoks = new
                if cur_fn is not None:
                    raise LoweringError("%s:%d: nested function definitions are outside the subset"
                                        % (low.short, ll.line))
                cur_fn = (fi, ll.indent)
                low.funcs[fi.name] = fi
                self.header_idx[fi.name] = len(out)
                new = newtoks
            out.append((ll, new))
        for fn in list(low.failed):
            self.stub_body(out, low.funcs[fn])
        out = self.fix_empty_blocks(out)
        # render with identical line numbering
        nlines = len(low.lines)
        ndrop = len(low.dropped)
        while True:
            del low.dropped[ndrop:]         # render_tok records drops: once per final rendering
            rendered = [""] * (nlines + 2)
            for ll, new in out:
                if new is None:
                    continue
                rendered[ll.line - 1] = " " * ll.indent + " ".join(self.render_tok(t) for t in new)
            low.text = "\n".join(rendered) + "\n"
            try:
                low.tree = ast.parse(low.text, filename=low.short)
                break
            except SyntaxError as e:
                err = LoweringError("%s:%s: lowered text is not valid Python (%s): %r"
                                    % (low.short, e.lineno, e.msg, (e.text or "").strip()))
                # owner: the closest function that starts before the reported line (CPython may report
                # a line shortly after the offending one); not its header, not a function already stubbed
                before = [f for f in low.funcs.values() if e.lineno is not None and f.line < e.lineno]
                owner = max(before, key=lambda f: f.line) if before else None
                if owner is None or owner.failed is not None \
                        or e.lineno <= out[self.header_idx[owner.name]][0].endline:
                    raise err
                self.fail(owner, err)
                self.stub_body(out, owner)
        for node in low.tree.body:
            if isinstance(node, ast.FunctionDef):
                if node.name not in low.funcs:
                    raise LoweringError("function %s lost in lowering" % node.name)
                low.funcs[node.name].node = node
        validate(low, on_function_error=self.fail_node)
        low.tainted = _tainted(low)
        return low

    def fail(self, fi, e):
        if fi.failed is None:
            fi.failed = str(e)
            self.low.failed[fi.name] = fi.failed

    def fail_node(self, node, e):
        """validate(): an ast node outside the subset inside a function body"""
        self.fail(self.low.funcs[node.name], e)
        node.body = [ast.copy_location(ast.Pass(), node.body[0])]

    def stub_body(self, out, fi):
        """replace the body of a function whose body cannot be lowered by ``pass``"""
        h = self.header_idx[fi.name]
        hind = out[h][0].indent
        first = True
        for k in range(h + 1, len(out)):
            ll = out[k][0]
            if ll.indent <= hind:
                break
            out[k] = (ll, [Tok("name", "pass", ll.line, ll.indent)] if first else None)
            first = False
        if first:
            raise LoweringError("%s:%d: function %s has no body" % (self.low.short, fi.line, fi.name))

    def render_tok(self, t):
        if t.kind == "str" and t.text[:1] in "fF" or (t.kind == "str" and t.text[:2].lower() in ("rf", "fr")):
            self.low.drop(t.line, "f-string-prefix", t.text if len(t.text) < 80 else t.text[:77] + "...")
            body = t.text.lstrip("fFrR")
            return body
        return t.text

    def fix_empty_blocks(self, out):
        """A block opener whose body was dropped completely: only the compile-time module-level
        ``if OPENMP:`` is accepted (and dropped as well)."""
        res = list(out)
        for idx, (ll, new) in enumerate(res):
            if new is None or not new or new[-1].text != ":":
                continue
            body_alive = False
            for ll2, new2 in res[idx + 1:]:
                if ll2.indent <= ll.indent:
                    break
                if new2 is not None:
                    body_alive = True
                    break
            if body_alive:
                continue
            txt = [t.text for t in new]
            if txt == ["if", "OPENMP", ":"] and ll.indent == 0:
                self.low.drop(ll.line, "compile-time-block", "if OPENMP: <cimport only>")
                res[idx] = (ll, None)
            else:
                raise LoweringError("%s:%d: block %r is empty after lowering"
                                    % (self.low.short, ll.line, " ".join(txt)))
        return res

    def lower_line(self, ll, fi):
        low = self.low
        toks = ll.toks
        texts = [t.text for t in toks]
        t0 = texts[0]
        # ---- imports -------------------------------------------------------------------------
        if t0 == "cimport" or (t0 == "from" and "cimport" in texts):
            if t0 == "from":
                mod = "".join(texts[1:texts.index("cimport")])
                names = [x for x in texts[texts.index("cimport") + 1:] if x not in (",", "(", ")")]
                if mod == "libc.math":
                    low.intrinsics.update(names)
            low.drop(ll.line, "cimport", ll.text())
            return None
        if t0 == "from" and "import" in texts:
            mod = "".join(texts[1:texts.index("import")])
            if mod == "cython.parallel":
                names = [x for x in texts[texts.index("import") + 1:] if x != ","]
                for nme in names:
                    if nme not in ("prange", "parallel"):
                        raise LoweringError("%s:%d: cython.parallel.%s outside the subset"
                                            % (low.short, ll.line, nme))
                low.drop(ll.line, "parallel-import", ll.text() + "  (names kept as markers)")
                return None
            raise LoweringError("%s:%d: import %r outside the subset" % (low.short, ll.line, ll.text()))
        if t0 == "import":
            if texts != ["import", "numpy", "as", "np"]:
                raise LoweringError("%s:%d: import %r outside the subset" % (low.short, ll.line, ll.text()))
            return toks
        # ---- ctypedef ------------------------------------------------------------------------
        if t0 == "ctypedef":
            self.parse_ctypedef(ll)
            low.drop(ll.line, "ctypedef", ll.text())
            return None
        # ---- cdef ----------------------------------------------------------------------------
        if t0 == "cdef":
            rest = toks[1:]
            if rest and rest[-1].text == ":":
                return self.lower_cdef_func(ll, rest)
            if fi is None:
                raise LoweringError("%s:%d: module level cdef variables are outside the subset"
                                    % (low.short, ll.line))
            return self.lower_cdef_var(ll, rest, fi)
        # ---- def -----------------------------------------------------------------------------
        if t0 == "def":
            if toks[-1].text != ":" or toks[2].text != "(":
                raise LoweringError("%s:%d: cannot parse def" % (low.short, ll.line))
            close = _match_close(toks, 2)
            if close != len(toks) - 2:
                raise LoweringError("%s:%d: annotations / trailing tokens after def parameters are "
                                    "outside the subset" % (low.short, ll.line))
            f = FuncInfo(toks[1].text, "def", ll.line)
            ptoks = self.lower_params(toks[3:close], f, ll.line)
            return (f, toks[:3] + ptoks + toks[close:])
        # ---- for ... in prange(...) ----------------------------------------------------------
        if t0 == "for":
            if "prange" in texts:
                i = texts.index("prange")
                if toks[i + 1].text != "(" or _match_close(toks, i + 1) != len(toks) - 2:
                    raise LoweringError("%s:%d: cannot parse prange loop" % (low.short, ll.line))
                args = _split_top(toks[i + 2:-2])
                keep, droppedkw = [], []
                for a in args:
                    if len(a) >= 2 and a[1].text == "=" and a[0].kind == "name":
                        if a[0].text in ("nogil", "num_threads", "schedule", "chunksize"):
                            droppedkw.append(" ".join(t.text for t in a))
                            continue
                        raise LoweringError("%s:%d: prange keyword %r outside the subset"
                                            % (low.short, ll.line, a[0].text))
                    keep.append(a)
                new = toks[:i + 2]
                for n_, a in enumerate(keep):
                    if n_:
                        new.append(Tok("op", ",", ll.line, 0))
                    new.extend(a)
                new += toks[-2:]
                low.drop(ll.line, "prange-kwargs", ", ".join(droppedkw) + "  (loop kept, marked parallel)")
                if fi is not None:
                    fi.markers.append((ll.line, "prange", ", ".join(droppedkw)))
                return new
            return toks
        # ---- with nogil, parallel(...) -------------------------------------------------------
        if t0 == "with":
            items = _split_top(toks[1:-1])
            kept = []
            for it in items:
                it_t = [t.text for t in it]
                if it_t == ["nogil"]:
                    low.drop(ll.line, "nogil", "with nogil")
                    continue
                if it_t[0] == "parallel" and it_t[1] == "(" and it_t[-1] == ")":
                    kw = " ".join(it_t[2:-1])
                    for a in _split_top(it[2:-1]):
                        if a and not (len(a) >= 2 and a[1].text == "=" and a[0].text == "num_threads"):
                            raise LoweringError("%s:%d: parallel() argument outside the subset"
                                                % (low.short, ll.line))
                    low.drop(ll.line, "parallel-kwargs", kw + "  (block kept, marked parallel)")
                    if fi is not None:
                        fi.markers.append((ll.line, "parallel", kw))
                    kept.append(it[:2] + it[-1:])
                    continue
                raise LoweringError("%s:%d: with-item %r outside the subset"
                                    % (low.short, ll.line, " ".join(it_t)))
            if not kept:
                raise LoweringError("%s:%d: bare 'with nogil:' is outside the subset" % (low.short, ll.line))
            new = [toks[0]]
            for n_, it in enumerate(kept):
                if n_:
                    new.append(Tok("op", ",", ll.line, 0))
                new.extend(it)
            new.append(toks[-1])
            return new
        # ---- C casts <T>x ---------------------------------------------------------------------
        for i in range(len(toks) - 2):
            if toks[i].text == "<" and toks[i + 2].text == ">" and toks[i + 1].kind == "name" and \
                    (toks[i + 1].text in _BASE or toks[i + 1].text in low.typedefs):
                prev = toks[i - 1] if i else None
                if prev is None or (prev.kind == "op" and prev.text not in (")", "]")):
                    raise LoweringError("%s:%d: C cast is outside the subset" % (low.short, ll.line))
        return toks

    def parse_ctypedef(self, ll):
        toks = ll.toks[1:]
        texts = [t.text for t in toks]
        # function pointer:  RET ( * NAME ) ( ARGS ) [nogil]
        star = None
        for i in range(len(toks) - 2):
            if texts[i] == "(" and texts[i + 1] == "*" and toks[i + 2].kind == "name" and texts[i + 3] == ")":
                star = i
                break
        if star is not None:
            name = texts[star + 2]
            ret = self.parse_type(toks[:star], ll.line)
            if texts[star + 4] != "(":
                raise LoweringError("%s:%d: cannot parse function pointer typedef" % (self.low.short, ll.line))
            close = _match_close(toks, star + 4)
            args = [self.parse_type(a, ll.line) for a in _split_top(toks[star + 5:close]) if a]
            tail = texts[close + 1:]
            if tail not in ([], ["nogil"]):
                raise LoweringError("%s:%d: typedef tail %r outside the subset" % (self.low.short, ll.line, tail))
            self.low.typedefs[name] = CType("funcptr", 0, False, name=name,
                                            sig=(ret, tuple(args)))
            return
        if len(toks) >= 2 and toks[-1].kind == "name":
            name = texts[-1]
            ct = self.parse_type(toks[:-1], ll.line)
            self.low.typedefs[name] = CType(ct.base, ct.ndim, ct.const, name=name)
            return
        raise LoweringError("%s:%d: ctypedef outside the subset" % (self.low.short, ll.line))

    def lower_cdef_func(self, ll, rest):
        low = self.low
        toks = rest[:-1]
        colon = rest[-1]
        nogil = False
        if toks and toks[-1].text == "nogil":
            nogil = True
            toks = toks[:-1]
        if not toks or toks[-1].text != ")":
            raise LoweringError("%s:%d: cdef function header outside the subset (except-clauses, "
                                "cdef classes ... are not supported)" % (low.short, ll.line))
        op = _match_open(toks, len(toks) - 1)
        if op < 1 or toks[op - 1].kind != "name":
            raise LoweringError("%s:%d: cannot parse cdef function header" % (low.short, ll.line))
        name_tok = toks[op - 1]
        pre = toks[:op - 1]
        inline = False
        if pre and pre[0].text == "inline":
            inline = True
            pre = pre[1:]
        f = FuncInfo(name_tok.text, "cdef", ll.line)
        f.nogil = nogil
        f.ret = self.parse_type(pre, ll.line) if pre else CType("object")
        low.drop(ll.line, "cdef-signature", "cdef%s %r %s(...)%s -> def"
                 % (" inline" if inline else "", f.ret, f.name, " nogil" if nogil else ""))
        ptoks = self.lower_params(toks[op + 1:-1], f, ll.line)
        new = [Tok("name", "def", ll.line, 0), name_tok, toks[op]] + ptoks + [toks[-1], colon]
        return (f, new)

    def lower_cdef_var(self, ll, rest, fi):
        low = self.low
        eq = _find_top(rest, "=")
        if eq < 0:
            # declaration list: TYPE a, b, c
            parts = _split_top(rest)
            first = parts[0]
            if not first or first[-1].kind != "name":
                raise LoweringError("%s:%d: cannot parse cdef declaration" % (low.short, ll.line))
            ct = self.parse_type(first[:-1], ll.line)
            names = [first[-1].text]
            for p in parts[1:]:
                if len(p) != 1 or p[0].kind != "name":
                    raise LoweringError("%s:%d: cannot parse cdef declaration list" % (low.short, ll.line))
                names.append(p[0].text)
            for n_ in names:
                self.declare(fi, n_, ct, ll.line)
            low.drop(ll.line, "cdef-declaration", ll.text())
            return None
        decl = rest[:eq]
        if not decl or decl[-1].kind != "name" or len(decl) < 2:
            raise LoweringError("%s:%d: cannot parse cdef assignment" % (low.short, ll.line))
        if _find_top(decl, ",") >= 0:
            raise LoweringError("%s:%d: multiple declarators with initialiser outside the subset"
                                % (low.short, ll.line))
        ct = self.parse_type(decl[:-1], ll.line)
        self.declare(fi, decl[-1].text, ct, ll.line)
        low.drop(ll.line, "cdef-type", "%s : %r  (assignment kept)" % (decl[-1].text, ct))
        return [decl[-1]] + rest[eq:]

    def declare(self, fi, name, ct, line):
        if fi.ctype(name) is not None:
            raise LoweringError("%s:%d: %s declared twice" % (self.low.short, line, name))
        fi.locals[name] = ct


# ----------------------------------------------------------------------------------------------
# subset validation of the lowered ast
# ----------------------------------------------------------------------------------------------
_OK_EXPR = (ast.BinOp, ast.UnaryOp, ast.BoolOp, ast.Compare, ast.Call, ast.Name, ast.Constant,
            ast.Subscript, ast.Tuple, ast.Attribute, ast.Slice, ast.Load, ast.Store,
            ast.Add, ast.Sub, ast.Mult, ast.Div, ast.Pow, ast.USub, ast.UAdd, ast.Not, ast.And, ast.Or,
            ast.Eq, ast.NotEq, ast.Lt, ast.LtE, ast.Gt, ast.GtE, ast.Is, ast.IsNot, ast.keyword)


def validate(low, on_function_error=None):
    def bad(node, what):
        raise LoweringError("%s:%s: %s is outside the supported subset"
                            % (low.short, getattr(node, "lineno", "?"), what))

    def expr(e):
        for n in ast.walk(e):
            if not isinstance(n, _OK_EXPR):
                bad(n, "expression node %s" % type(n).__name__)
            if isinstance(n, ast.Slice) and (n.lower or n.upper or n.step):
                bad(n, "a slice other than ':'")
            if isinstance(n, ast.Compare) and len(n.ops) != 1:
                bad(n, "a chained comparison")

    def stmts(body, infn, inloop):
        for s in body:
            if isinstance(s, ast.Assign):
                if len(s.targets) != 1 or not isinstance(s.targets[0], (ast.Name, ast.Subscript)):
                    bad(s, "assignment target")
                expr(s.targets[0]); expr(s.value)
            elif isinstance(s, ast.AugAssign):
                if not isinstance(s.target, (ast.Name, ast.Subscript)):
                    bad(s, "augmented assignment target")
                expr(s.target); expr(s.value)
            elif isinstance(s, ast.For):
                if s.orelse or not isinstance(s.target, ast.Name):
                    bad(s, "for/else or tuple loop target")
                it = s.iter
                if not (isinstance(it, ast.Call) and isinstance(it.func, ast.Name)
                        and it.func.id in ("range", "prange") and not it.keywords
                        and 1 <= len(it.args) <= 2):
                    bad(s, "loop iterable other than range(n) / range(a, b) / prange(...)")
                expr(it)
                stmts(s.body, infn, True)
            elif isinstance(s, ast.If):
                expr(s.test)
                stmts(s.body, infn, inloop); stmts(s.orelse, infn, inloop)
            elif isinstance(s, (ast.Continue, ast.Break)):
                if not inloop:
                    bad(s, "continue/break outside a loop")
            elif isinstance(s, ast.Return):
                if s.value is not None:
                    expr(s.value)
            elif isinstance(s, ast.Raise):
                if s.cause is not None or s.exc is None:
                    bad(s, "raise form")
                expr(s.exc)
            elif isinstance(s, ast.Expr):
                expr(s.value)
            elif isinstance(s, ast.With):
                if len(s.items) != 1 or s.items[0].optional_vars is not None:
                    bad(s, "with statement form")
                c = s.items[0].context_expr
                if not (isinstance(c, ast.Call) and isinstance(c.func, ast.Name)
                        and c.func.id == "parallel" and not c.args and not c.keywords):
                    bad(s, "with item other than parallel()")
                stmts(s.body, infn, inloop)
            elif isinstance(s, ast.Pass):
                pass
            else:
                bad(s, "statement %s" % type(s).__name__)

    for node in low.tree.body:
        if isinstance(node, ast.FunctionDef):
            a = node.args
            if a.vararg or a.kwarg or a.kwonlyargs or a.posonlyargs or node.decorator_list:
                bad(node, "function signature form")
            for d in a.defaults:
                expr(d)
            try:
                stmts(node.body, True, False)
            except LoweringError as e:
                if on_function_error is None:
                    raise
                on_function_error(node, e)
        elif isinstance(node, ast.Import):
            pass
        elif isinstance(node, ast.Expr) and isinstance(node.value, ast.Constant) \
                and isinstance(node.value.value, str):
            pass        # module docstring
        else:
            bad(node, "module level statement %s" % type(node).__name__)


# ----------------------------------------------------------------------------------------------
def lower_file(relpath):
    low = Lowered(relpath)
    try:
        src = open(low.path).read()
    except OSError as e:
        raise LoweringError("cannot read %s: %s" % (low.path, e))
    import hashlib
    low.sha = hashlib.sha256(src.encode()).hexdigest()[:16]
    return _Lowerer(low).run(src)


def lower_all():
    return {rp: lower_file(rp) for rp in KERNEL_FILES}


def lower_all_contained(relpaths=KERNEL_FILES):
    """-> ({relpath: Lowered}, {relpath: message}) : a file that cannot be lowered does not stop the others"""
    lows, failed = {}, {}
    for rp in relpaths:
        try:
            lows[rp] = lower_file(rp)
        except LoweringError as e:
            failed[rp] = str(e)
    return lows, failed


def _tainted(low):
    """failed functions + every function whose body refers (transitively) to one of them"""
    refs = {}
    for fn, fi in low.funcs.items():
        refs[fn] = set()
        if fi.node is not None and fi.failed is None:
            refs[fn] = {n.id for n in ast.walk(fi.node) if isinstance(n, ast.Name) and n.id in low.funcs}
    bad = set(low.failed)
    changed = bool(bad)
    while changed:
        changed = False
        for fn, r in refs.items():
            if fn not in bad and r & bad:
                bad.add(fn)
                changed = True
    return bad


def generated_c_path(low):
    base = low.path[:-4]
    for ext in (".c", ".cpp"):
        if os.path.exists(base + ext):
            return base + ext
    return None


def compiled_so_path(low):
    d = os.path.dirname(low.path)
    stem = os.path.basename(low.path)[:-4]
    for fn in sorted(os.listdir(d)):
        if fn.startswith(stem + ".") and fn.endswith(".so"):
            return os.path.join(d, fn)
    return None


def embedded_source_lines(low):
    """{lineno: text} of the .pyx lines embedded as comments in the Cython generated C."""
    p = generated_c_path(low)
    if not p:
        return None
    out = {}
    pat = re.compile(r'/\* "[^"]*%s":(\d+)' % re.escape(os.path.basename(low.path)))
    lines = open(p, errors="replace").read().split("\n")
    i = 0
    while i < len(lines):
        m = pat.search(lines[i])
        if m:
            ln = int(m.group(1))
            j = i + 1
            while j < len(lines) and not lines[j].strip().startswith("*/"):
                if "# <<<<<<<<<<<<<<" in lines[j]:
                    txt = lines[j].split("# <<<<<<<<<<<<<<")[0]
                    txt = txt[3:] if txt.startswith(" * ") else txt.lstrip(" *")
                    out[ln] = txt.rstrip()
                j += 1
            i = j
        i += 1
    return out


def stale_lines(low):
    """Lines where the generated C was produced from a different .pyx text (None: no C file)."""
    emb = embedded_source_lines(low)
    if emb is None:
        return None
    bad = []
    for ln, txt in sorted(emb.items()):
        cur = low.lines[ln - 1].rstrip() if ln - 1 < len(low.lines) else "<missing>"
        if cur.strip() != txt.strip():
            bad.append({"line": ln, "pyx": cur.strip(), "generated_c": txt.strip()})
    return bad


if __name__ == "__main__":
    import json
    for rp, lw in lower_all().items():
        print("==", rp, lw.directives)
        print(json.dumps(lw.dropped, indent=0)[:3000])
        for f in lw.funcs.values():
            print(f.name, f.to_json())
        print(ast.unparse(lw.tree)[:100000])
        print("stale:", stale_lines(lw))
