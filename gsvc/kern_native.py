"""Native side of kernvc: replay of solver models and the ground refutation search.

``check(...)`` runs (a) the interpretation of the *current* lowered .pyx and (b), for entry points
whose compiled artefact is not stale, the compiled kernel, on concrete inputs and evaluates the
contract (requires / raises / ensures) natively on the outcome.  A witness is only reported if
the precondition holds natively and the postcondition (or memory safety) is violated natively.
"""
from __future__ import annotations

import importlib.machinery
import importlib.util
import time
import zlib

import numpy as np

from . import kern_interp as KI
from . import kern_spec as KS
from . import lower_pyx

_SO_CACHE = {}


def load_compiled(low):
    """module object of the compiled kernel next to the .pyx in the tree under check (or None)"""
    if low.relpath in _SO_CACHE:
        return _SO_CACHE[low.relpath]
    mod = None
    p = lower_pyx.compiled_so_path(low)
    if p:
        name = low.short[:-4].split("/")[-1]
        try:
            loader = importlib.machinery.ExtensionFileLoader(name, p)
            spec = importlib.util.spec_from_file_location(name, p, loader=loader)
            mod = importlib.util.module_from_spec(spec)
            loader.exec_module(mod)
        except Exception as e:          # pragma: no cover
            mod = None
            _SO_CACHE[low.relpath + "!err"] = repr(e)
    _SO_CACHE[low.relpath] = mod
    return mod


def load_compiled_rel(relpath):
    """as load_compiled, by the relpath of the .pyx: needs no lowering of the source (a bare Lowered
    object only carries the paths), so it also works when the .pyx is outside the supported subset"""
    return load_compiled(lower_pyx.Lowered(relpath))


def to_native_inputs(fi, raw):
    """JSON-ish inputs (lists) -> numpy arrays of the declared element type, in parameter order"""
    out = {}
    for pn, ct, _ in fi.params:
        if pn not in raw:
            continue
        v = raw[pn]
        if ct.ndim:
            dt = np.float64 if ct.base == "double" else (np.uint8 if ct.base == "uint8" else np.int64)
            if isinstance(v, dict) and "empty_shape" in v:
                v = np.zeros(tuple(v["empty_shape"]), dtype=dt)
            v = np.array(v, dtype=dt)
            if v.ndim != ct.ndim:
                v = v.reshape((0,) * ct.ndim) if v.size == 0 else v
        elif ct.base == "double":
            v = float(v)
        elif ct.base in ("int", "int64"):
            v = int(v)
        elif ct.base == "bint":
            v = bool(v)
        out[pn] = v
    return out


def jsonable_inputs(inp):
    out = {}
    for k, v in inp.items():
        if isinstance(v, np.ndarray):
            out[k] = {"shape": list(v.shape), "data": [None if (isinstance(x, float) and x != x) else x
                                                        for x in v.ravel().tolist()]}
        elif isinstance(v, (np.generic,)):
            out[k] = v.item()
        else:
            out[k] = v
    return out


def inputs_from_json(fi, js):
    raw = {}
    for pn, ct, _ in fi.params:
        if pn not in js:
            continue
        v = js[pn]
        if isinstance(v, dict) and "shape" in v:
            dt = np.float64 if ct.base == "double" else (np.uint8 if ct.base == "uint8" else np.int64)
            data = [np.nan if x is None else x for x in v["data"]]
            raw[pn] = np.array(data, dtype=dt).reshape(v["shape"])
        else:
            raw[pn] = v
    return raw


def _res_native(r):
    if isinstance(r, KI.FPtr):
        return ("fptr", r.name)
    if isinstance(r, tuple):
        return tuple(_res_native(x) for x in r)
    return r


def _res_json(r):
    if isinstance(r, np.ndarray):
        return r.tolist()
    if isinstance(r, tuple):
        return [_res_json(x) for x in r]
    if isinstance(r, np.generic):
        return r.item()
    return r


def check(eng, low, fname, contract, inputs, with_compiled=True):
    """returns dict(verdict= 'ok' | 'requires_false' | 'mismatch' | 'spec_error', ...)"""
    fi = low.funcs[fname]
    if fname in getattr(low, "tainted", ()):
        # the body of this function, or of one it calls, is outside the supported subset (stubbed by
        # the lowering): an interpretation would not be an execution of the source
        return {"verdict": "spec_error", "detail": "source of %s or of a callee is outside the supported "
                                                   "subset; not interpreted" % fname}
    abbrev = KS.parse_abbrev(contract.get("abbrev"))
    funcs = eng.fcodes[low.relpath]
    env0 = {k: (v.copy() if isinstance(v, np.ndarray) else v) for k, v in inputs.items()}
    for pn, ct, dflt in fi.params:
        if pn not in env0:
            if dflt is None:
                return {"verdict": "spec_error", "detail": "missing input " + pn}
            env0[pn] = KI.Interp(low).ev(__import__("ast").parse(dflt, mode="eval").body, {}, fi)
    nat = KS.Native(eng.spec_table, env0, abbrev, funcs)
    try:
        for r in contract.get("requires", []):
            if not nat.check(r):
                return {"verdict": "requires_false", "detail": r}
    except KS.Mismatch as e:
        return {"verdict": "requires_false", "detail": str(e)}
    except (KS.SpecError, IndexError, ValueError, TypeError, KeyError) as e:
        return {"verdict": "spec_error", "detail": "requires: %r" % (e,)}
    run_in = {k: (v.copy() if isinstance(v, np.ndarray) else v) for k, v in env0.items()}
    status, res = KI.run(low, fname, run_in, copy=False)
    out = {"inputs": jsonable_inputs(inputs), "interp_status": status}

    def judge(status, res, env_after):
        """-> (ok, expected/observed description)"""
        if status == "raise":
            cond = (contract.get("raises") or {}).get(res.split(" ")[0].split("(")[0], None)
            rs = contract.get("raises") or {}
            cond = None
            for exc, c in rs.items():
                if res.startswith(exc):
                    cond = c
            if cond is None:
                return False, {"expected": "no exception", "observed": res}
            ok = KS.Native(eng.spec_table, env0, abbrev, funcs).check(cond)
            return ok, {"expected": "raise only if " + cond, "observed": res}
        if status in ("oob", "error"):
            return False, {"expected": "memory-safe, well-defined execution", "observed": res}
        env = dict(env_after)
        env["result"] = _res_native(res)
        n2 = KS.Native(eng.spec_table, env, abbrev, funcs, old_env=env0)
        ens = contract.get("ensures", {})
        for nm, txt in (ens.items() if isinstance(ens, dict) else ens):
            try:
                good = n2.check(txt)
            except KS.Mismatch as e:
                return False, {"clause": nm, "expected": txt, "observed": str(e)}
            if not good:
                f = n2.fail or {}
                return False, {"clause": nm, "expected": f.get("rhs"), "observed": f.get("lhs"),
                               "at": f.get("bindings"), "text": f.get("clause", txt)[:300]}
        return True, None

    try:
        # arrays modified in place by helpers: the interpreter worked on run_in
        ok, info = judge(status, res, run_in)
    except (KS.SpecError, IndexError, ValueError, TypeError, KeyError, OverflowError) as e:
        return {"verdict": "spec_error", "detail": "ensures: %r" % (e,)}
    out["interp_result"] = _res_json(res) if status == "ok" else res
    if not ok:
        out["verdict"] = "mismatch"
        out["interp"] = info
    else:
        out["verdict"] = "ok"
    # (b) compiled kernel, entry points only, artefact not stale
    if with_compiled and fi.kind == "def":
        st = lower_pyx.stale_lines(low)
        mod = load_compiled(low) if st == [] else None
        if mod is not None and hasattr(mod, fname):
            args = []
            for pn, ct, _ in fi.params:
                v = env0[pn]
                args.append(v.copy() if isinstance(v, np.ndarray) else v)
            try:
                cres = getattr(mod, fname)(*args)
                cstatus = "ok"
            except ValueError as e:
                cres, cstatus = "ValueError(%s)" % e, "raise"
            except Exception as e:
                cres, cstatus = repr(e), "error"
            try:
                cok, cinfo = judge(cstatus, cres, env0)
            except Exception as e:
                cok, cinfo = True, {"note": "spec evaluation failed on compiled result: %r" % (e,)}
            out["compiled_agrees_with_spec"] = bool(cok)
            if not cok:
                out["compiled"] = cinfo
            if cstatus == "ok" and status == "ok":
                out["compiled_equals_interp"] = _same(cres, res)
        else:
            out["compiled"] = "not run (artefact stale or missing)" if st != [] else "not run"
    return out


def _same(a, b):
    if isinstance(a, tuple) or isinstance(b, tuple):
        return isinstance(a, tuple) and isinstance(b, tuple) and len(a) == len(b) and \
            all(_same(x, y) for x, y in zip(a, b))
    try:
        return bool(np.array_equal(np.asarray(a), np.asarray(b), equal_nan=True))
    except Exception:
        return a == b


def search(eng, low, fname, contract, seed, budget_s=20.0, max_trials=400, accept=None, sizes=(0, 1, 2, 3, 4, 5, 6)):
    """seed-driven ground refutation search.  Returns (witness | None, stats)"""
    gen = contract.get("gen")
    stats = {"trials": 0, "requires_true": 0, "spec_errors": 0}
    if gen is None:
        stats["note"] = "no generator in the contract"
        return None, stats
    rng = np.random.default_rng([seed, zlib.crc32(fname.encode())])
    t0 = time.time()
    last_err = None
    while stats["trials"] < max_trials and time.time() - t0 < budget_s:
        size = sizes[stats["trials"] % len(sizes)]
        stats["trials"] += 1
        try:
            inp = gen(rng, size)
        except Exception as e:
            stats["note"] = "generator failed: %r" % (e,)
            return None, stats
        if accept is not None and not accept(inp):
            continue
        r = check(eng, low, fname, contract, inp)
        if r["verdict"] == "requires_false":
            continue
        if r["verdict"] == "spec_error":
            stats["spec_errors"] += 1
            last_err = r["detail"]
            continue
        stats["requires_true"] += 1
        if r["verdict"] == "mismatch":
            return r, stats
    if last_err:
        stats["last_spec_error"] = last_err
    return None, stats


def cover(eng, low, fname, contract, seed):
    """a generated input that satisfies the precondition natively (vacuity guard)"""
    gen = contract.get("gen")
    if gen is None:
        return False
    rng = np.random.default_rng([seed, 77])
    for t in range(60):
        inp = gen(rng, [2, 3, 1, 4, 0][t % 5])
        r = check(eng, low, fname, contract, inp, with_compiled=False)
        if r["verdict"] in ("ok", "mismatch"):
            return True
    return False
