"""Discharging kernvc queries: z3 (python API) in a fork pool, external cvc5 / z3 CLI on `unknown`.

Stage A  facts + not(goal) + *ground* definitional instances of the spec functions (depth 2) and
         of column views: quantifier-free except for array invariants -> `sat` answers carry a model.
Stage B  additionally the quantified unfold axioms guarded by E-matching patterns.
Stage C  the stage-B problem as SMT-LIB text to /usr/bin/cvc5 and /usr/bin/z3.
Only `unsat` discharges.  `sat` models are turned into concrete inputs for the native replay.
"""
from __future__ import annotations

import multiprocessing
import os
import shutil
import subprocess
import tempfile
import time

import z3

from . import kern_spec as KS

T_MAIN = int(os.environ.get("KERNVC_TIMEOUT_S", "20"))
T_EXT = int(os.environ.get("KERNVC_EXT_TIMEOUT_S", "30"))
T_CANARY = 4
T_QUICK = 3
DEPTH = 3

_JOBS = []
_SPECS = None


def ground_closure(specs, formulas, depth=DEPTH, opaque=()):
    extra = []
    seen_apps = set()
    keep = []           # keyed by ast id: keep the terms alive (z3 re-uses ids after GC)
    frontier = list(formulas)
    for _ in range(depth):
        apps = specs.collect_apps(frontier)
        new = []
        for a in apps:
            if a.get_id() in seen_apps:
                continue
            seen_apps.add(a.get_id())
            keep.append(a)
            if opaque and specs.by_decl[a.decl().name()].name in opaque:
                continue                     # kept abstract in this query (lemma-level reasoning)
            new.append(specs.instance(a))
        if not new:
            break
        extra.extend(new)
        frontier = new
    extra.extend(specs.col_instances(list(formulas) + extra))
    return extra


def used_spec_names(specs, formulas):
    names = set()
    seen = set()
    keep = []           # see ground_closure
    todo = list(formulas)

    def walk(e):
        k = e.get_id()
        if k in seen:
            return
        seen.add(k)
        keep.append(e)
        if z3.is_quantifier(e):
            walk(e.body())
        elif z3.is_app(e):
            nm = e.decl().name()
            if nm in specs.by_decl:
                names.add(specs.by_decl[nm].name)
            for c in e.children():
                walk(c)
    for f in todo:
        walk(f)
    # transitive closure through definitions
    changed = True
    while changed:
        changed = False
        for n in list(names):
            ax = specs.quantified_axiom(n)
            before = len(names)
            walk(ax)
            if len(names) != before:
                changed = True
    return names


def col_axioms():
    out = []
    for elem, sort2 in (("real", KS.A2), ("int", KS.A2I)):
        a = z3.Const("qc_a", sort2)
        j, x = z3.Const("qc_j", KS.INT), z3.Const("qc_x", KS.INT)
        t = z3.Select(KS.COL[elem](a, j), x)
        out.append(z3.ForAll([a, j, x], t == z3.Select(z3.Select(a, x), j), patterns=[t]))
    return out


def _model_inputs(model, params):
    """concrete inputs from a model; None if an array is too large to materialise"""
    import numpy as np
    out = {}
    rev = {v: k for k, v in KS._STR_CODES.items()}

    def num(t, kind):
        v = model.eval(t, model_completion=True)
        if kind == "int":
            return v.as_long() if z3.is_int_value(v) else 0
        if kind == "bool":
            return bool(z3.is_true(v))
        if z3.is_rational_value(v):
            return float(v.numerator_as_long()) / float(v.denominator_as_long())
        if z3.is_algebraic_value(v):
            return float(v.approx(20).as_fraction())
        try:
            return float(str(v))
        except ValueError:
            return 0.0

    for name, v in params.items():
        if v.k == "arr":
            shape = [num(s, "int") for s in v.shape]
            if any(s > 6 for s in shape) or any(s < 0 for s in shape):
                return None
            a = np.zeros(shape, dtype=np.float64 if v.elem == "real" else np.int64)
            for idx in np.ndindex(*shape):
                t = v.t
                f = v.nan
                for i in idx:
                    t = z3.Select(t, z3.IntVal(int(i)))
                    if f is not None:
                        f = z3.Select(f, z3.IntVal(int(i)))
                val = num(t, "real" if v.elem == "real" else "int")
                if f is not None and num(f, "bool"):
                    val = float("nan")
                a[idx] = val
            out[name] = a.tolist() if a.size else {"empty_shape": shape}
        elif v.k == "obj":
            out[name] = None if num(v.isnone, "bool") else num(v.t, "int")
        elif v.k == "str":
            out[name] = rev.get(num(v.t, "int"), "?")
        elif v.k in ("int", "real", "bool"):
            out[name] = num(v.t, v.k)
    return out


_RMUL = z3.Function("nl_mul", z3.RealSort(), z3.RealSort(), z3.RealSort())
_IMUL = z3.Function("nl_imul", z3.IntSort(), z3.IntSort(), z3.IntSort())
_RDIV = z3.Function("nl_div", z3.RealSort(), z3.RealSort(), z3.RealSort())
_ABS_MEMO = {}


def _is_num(e):
    return z3.is_rational_value(e) or z3.is_int_value(e)


def abstract_nl(e):
    """Replace products of two non-numeral factors and divisions by a non-numeral denominator by
    applications of uninterpreted functions (arguments of a product ordered canonically).  Sound
    for refutation: every model of the exact formula is a model of the abstraction, so `unsat` of
    the abstraction implies `unsat` of the exact problem.  This keeps the nested-sum VCs in
    linear arithmetic + UF + arrays, where z3 is fast and does not diverge in nlsat."""
    k = e.get_id()
    hit = _ABS_MEMO.get(k)
    if hit is not None and hit[0].eq(e):     # the memo keeps (key term, value): ids are re-used
        return hit[1]
    if z3.is_quantifier(e):
        n = e.num_vars()
        cs = [z3.Const("absq_%s_%d" % (e.var_name(i), k), e.var_sort(i)) for i in range(n)]
        body = abstract_nl(z3.substitute_vars(e.body(), *reversed(cs)))
        pats = []
        for i in range(e.num_patterns()):
            pt = e.pattern(i)
            terms = [abstract_nl(z3.substitute_vars(pt.arg(j), *reversed(cs)))
                     for j in range(pt.num_args())]
            pats.append(z3.MultiPattern(*terms) if len(terms) > 1 else terms[0])
        if e.is_forall():
            r = z3.ForAll(cs, body, patterns=pats) if pats else z3.ForAll(cs, body)
        else:
            r = z3.Exists(cs, body)
    elif z3.is_app(e) and e.num_args():
        ch = [abstract_nl(c) for c in e.children()]
        kind = e.decl().kind()
        if kind == z3.Z3_OP_MUL:
            nums = [c for c in ch if _is_num(c)]
            oth = sorted([c for c in ch if not _is_num(c)], key=lambda c: c.get_id())
            if len(oth) <= 1:
                r = e.decl()(*ch) if len(ch) > 1 else ch[0]
            else:
                f = _IMUL if e.sort() == z3.IntSort() else _RMUL
                acc = oth[0]
                for c in oth[1:]:
                    acc = f(acc, c)
                for c in nums:
                    acc = c * acc
                r = acc
        elif kind == z3.Z3_OP_DIV and not _is_num(ch[1]):
            r = _RDIV(ch[0], ch[1])
        else:
            r = e.decl()(*ch)
    else:
        r = e
    _ABS_MEMO[k] = (e, r)
    return r


def nl_axioms():
    """commutativity of the abstracted products (argument order by ast id is not canonical for
    equal-but-distinct terms)"""
    x, y = z3.Reals("nlc_x nlc_y")
    a, b = z3.Ints("nlc_a nlc_b")
    return [z3.ForAll([x, y], _RMUL(x, y) == _RMUL(y, x), patterns=[_RMUL(x, y)]),
            z3.ForAll([a, b], _IMUL(a, b) == _IMUL(b, a), patterns=[_IMUL(a, b)])]


def _check(formulas, timeout_s):
    import threading
    s = z3.Solver()
    s.set("timeout", int(timeout_s * 1000))
    s.set("random_seed", 0)
    for f in formulas:
        s.add(f)
    t0 = time.time()
    # z3's own timeout is not always honoured inside nlsat: hard interrupt as a backstop
    # NB the timer must not hold a reference to the solver: dropping the last reference from the
    # timer thread would run Z3_solver_dec_ref concurrently with the main thread (segfault).
    tm = threading.Timer(timeout_s + 3, z3.main_ctx().interrupt)
    tm.daemon = True
    if not os.environ.get("KERNVC_NO_WATCHDOG"):
        tm.start()
    try:
        r = s.check()
    except z3.Z3Exception:
        r = z3.unknown
    finally:
        tm.cancel()
        if tm.is_alive():
            tm.join(1.0)
    return s, str(r), time.time() - t0


def _external(smt2, tmpdir, tag):
    outs = []
    path = os.path.join(tmpdir, "q_%s.smt2" % tag)
    with open(path, "w") as f:
        f.write("(set-logic ALL)\n" + smt2 + "\n(check-sat)\n")
    cmds = [(name, cmd) for name, cmd in (
        ("cvc5", ["/usr/bin/cvc5", "--tlimit=%d" % (T_EXT * 1000), path]),
        ("z3cli", ["/usr/bin/z3", "-T:%d" % T_EXT, path])) if os.path.exists(cmd[0])]
    procs = []
    for name, cmd in cmds:          # both second opinions run concurrently
        try:
            procs.append((name, subprocess.Popen(cmd, stdout=subprocess.PIPE, stderr=subprocess.PIPE, text=True)))
        except OSError as e:
            outs.append((name, "oserror %s" % e))
    for name, p in procs:
        try:
            so, _ = p.communicate(timeout=T_EXT + 10)
            ans = (so.strip().split("\n") or [""])[0].strip()[:200]
        except subprocess.TimeoutExpired:
            p.kill()
            ans = "timeout"
        outs.append((name, ans))
    return outs


def _fork_all(funcs, timeout_s):
    """run the callables concurrently in forked children; results (JSON) come back over pipes"""
    import json
    import select
    kids = []
    for f in funcs:
        r, w = os.pipe()
        pid = os.fork()
        if pid == 0:
            code = 0
            try:
                os.close(r)
                try:
                    out = f()
                except Exception:
                    import traceback
                    out = {"r": "error", "log": ["stage crashed: " + traceback.format_exc()[-400:]]}
                data = json.dumps(out).encode()
                with os.fdopen(w, "wb") as fh:
                    fh.write(data)
            except BaseException:
                code = 1
            finally:
                os._exit(code)
        os.close(w)
        kids.append((pid, r))
    deadline = time.time() + timeout_s
    bufs = {r: b"" for _, r in kids}
    open_fds = set(bufs)
    done = {}
    stop = False
    while open_fds and not stop:
        left = deadline - time.time()
        if left <= 0:
            break
        ready, _, _ = select.select(list(open_fds), [], [], left)
        if not ready:
            break
        for r in ready:
            chunk = os.read(r, 65536)
            if chunk:
                bufs[r] += chunk
                continue
            open_fds.discard(r)
            try:
                done[r] = json.loads(bufs[r].decode())
            except Exception:
                done[r] = None
            if done[r] and done[r].get("r") == "unsat":
                stop = True             # one stage proved it: the others are not needed
    results = []
    for pid, r in kids:
        if r in open_fds:
            try:
                os.kill(pid, 9)
            except OSError:
                pass
        os.close(r)
        try:
            os.waitpid(pid, 0)
        except OSError:
            pass
        out = done.get(r)
        if out is None:
            out = {"r": "unknown", "log": ["stage stopped (another stage answered / timeout / crash)"]}
        results.append(out)
    return results


def solve_job(i):
    """returns dict(status, backend, time, detail, model_inputs)"""
    job = _JOBS[i]
    specs = _SPECS
    t0 = time.time()
    try:
        base = list(KS.BACKGROUND) + list(job["facts"]) + [z3.Not(job["goal"])]
        kind = job["kind"]
        tmo = T_CANARY if kind == "canary" else T_MAIN
        ga = ground_closure(specs, base, depth=job.get("depth", DEPTH), opaque=job.get("opaque", ()))
        res = {"status": "unknown", "backend": "z3", "detail": "", "model_inputs": None}
        abstracted = [abstract_nl(f) for f in base + ga] + nl_axioms()
        # quick first attempt (proofs take milliseconds); if it does not succeed the full-budget
        # attempt runs concurrently with the exact stages below
        s0, r0, dt0 = _check(abstracted, min(tmo, T_QUICK))
        log = ["stage0(z3,ground,products as UF,%ds):%s/%.2fs" % (min(tmo, T_QUICK), r0, dt0)]
        if r0 == "unsat":
            res.update(status="unsat", backend="z3", time=time.time() - t0, detail=log[0])
            return res
        if kind in ("canary", "cover"):
            s, r, dt = _check(base + ga, tmo)
            log.append("stageA(z3,ground):%s/%.2fs" % (r, dt))
            res["status"] = r
            res["time"] = time.time() - t0
            res["detail"] = "; ".join(log)
            return res

        # stage 0 did not prove it: the exact stages run concurrently in forked children
        def stage_a():
            s, r, dt = _check(base + ga, tmo)
            out = {"r": r, "log": ["stageA(z3,ground):%s/%.2fs" % (r, dt)], "model_inputs": None}
            if r == "sat" and job.get("params") is not None:
                try:
                    out["model_inputs"] = _model_inputs(s.model(), job["params"])
                except Exception as e:      # model extraction is best effort
                    out["log"].append("model extraction failed: %r" % (e,))
            if r == "unknown":
                try:
                    out["log"].append("reason_unknown=" + s.reason_unknown())
                except Exception:
                    pass
            return out

        def axioms():
            names = used_spec_names(specs, base + ga) - set(job.get("opaque", ()))
            return [specs.quantified_axiom(n) for n in sorted(names)] + col_axioms()

        def stage_b():
            sB, rB, dtB = _check(base + ga + axioms(), tmo)
            return {"r": rB, "log": ["stageB(z3,+E-matching axioms):%s/%.2fs" % (rB, dtB)]}

        def stage_c():
            if job.get("no_external"):
                return {"r": "skipped", "log": []}
            sC = z3.Solver()
            for f in base + ga + axioms():
                sC.add(f)
            smt2 = sC.to_smt2().replace("(check-sat)", "")
            outs = _external(smt2, job["tmpdir"], str(i))
            r = "unknown"
            bk = None
            for nme, ans in outs:
                if ans == "unsat":
                    r, bk = "unsat", nme
                    break
            return {"r": r, "backend": bk, "log": ["stageC(%s):%s" % o for o in outs]}

        def stage_0():
            s0f, r0f, dt0f = _check(abstracted, tmo)
            return {"r": r0f, "log": ["stage0(full budget):%s/%.2fs" % (r0f, dt0f)]}

        outs = _fork_all([stage_a, stage_b, stage_c, stage_0], tmo + T_EXT + 30)
        a, b, c, z = outs
        for o in outs:
            log.extend(o.get("log", []))
        res["model_inputs"] = a.get("model_inputs")
        if z["r"] == "unsat":
            res.update(status="unsat", backend="z3")
        elif a["r"] == "unsat":
            res.update(status="unsat", backend="z3-nla")
        elif b["r"] == "unsat":
            res.update(status="unsat", backend="z3+ematch")
        elif c["r"] == "unsat":
            res.update(status="unsat", backend=c.get("backend") or "external")
        else:
            res["status"] = "sat" if a["r"] == "sat" else "unknown"
        res["time"] = time.time() - t0
        res["detail"] = "; ".join(log)
        return res
    except Exception:
        import traceback
        return {"status": "error", "backend": "z3", "time": time.time() - t0,
                "detail": traceback.format_exc()[-1500:], "model_inputs": None}


def solve_all(specs, jobs, workers=12):
    """jobs: list of dict(facts, goal, kind, params).  Fork pool: the z3 terms live in the parent's
    memory image; workers only read them."""
    global _JOBS, _SPECS
    tmpdir = tempfile.mkdtemp(prefix="kernvc_")
    try:
        for j in jobs:
            j["tmpdir"] = tmpdir
        _JOBS = jobs
        _SPECS = specs
        n = len(jobs)
        if n == 0:
            return []
        workers = max(1, min(workers, n, (os.cpu_count() or 2)))
        if workers == 1 or os.environ.get("KERNVC_SERIAL"):
            return [solve_job(i) for i in range(n)]
        ctx = multiprocessing.get_context("fork")
        from concurrent.futures import ProcessPoolExecutor
        res = [None] * n
        pending = list(range(n))
        for attempt in range(2):
            if not pending:
                break
            # a crashed worker (z3 segfault) breaks the pool: survivors are kept, the rest retried
            # once in a fresh pool, then reported as checker errors (never as verdicts)
            w = workers if attempt == 0 else max(1, min(4, len(pending)))
            with ProcessPoolExecutor(max_workers=w, mp_context=ctx) as ex:
                futs = {i: ex.submit(solve_job, i) for i in pending}
                for i, f in futs.items():
                    try:
                        res[i] = f.result()
                    except Exception:
                        res[i] = None
            pending = [i for i in pending if res[i] is None]
        for i in pending:
            res[i] = {"status": "error", "backend": "z3", "time": 0.0, "model_inputs": None,
                      "detail": "solver worker process died twice on this query"}
        return res
    finally:
        shutil.rmtree(tmpdir, ignore_errors=True)
