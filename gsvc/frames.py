"""`frames` engine: modular write-set / alias (frame-condition) checker over the real python ast
of the current gstools sources (gsvc.core.REPO, honours GSTOOLS_REPO).

  * abstract value = origins x kinds x container structure (frames_dom)
  * transfer functions from the numpy alias table (frames_tables, trusted base T3b)
  * per function contract  modifies / mutates_stored / returns-alias / retains, inferred by a
    fixpoint over the call graph of the package (Engine.infer), frozen in
    /verif/contracts/frames.py (python -m gsvc.frames --freeze) and *checked* on every run
    (Engine.check): one obligation = one dataflow fact.
  * reusable API:  assigns(module_relpath, qualname)  /  reads(module_relpath, qualname)
"""
from __future__ import annotations

import ast
import importlib.util
import itertools
import os
import pprint
import sys
import time

from . import frames_tables as T
from .frames_dom import (AV, BOTTOM, NOCONST, SCALAR, deep_orig, join, join_ret, map_orig,
                         ret_origins)
from .frames_expr import ExprMixin
from .frames_interp import FnAnalyzer, State, find_flags
from .frames_pkg import Package, _txt, _walk_own, kernel_contracts

VERIF = os.path.dirname(os.path.dirname(os.path.abspath(__file__)))
CONTRACT_FILE = os.path.join(VERIF, "contracts", "frames.py")
FROZEN_MARK = "# ---- BEGIN FROZEN CONTRACTS (generated: python -m gsvc.frames --freeze) ----"


def load_contract_file(path=CONTRACT_FILE):
    spec = importlib.util.spec_from_file_location("_frames_contracts", path)
    mod = importlib.util.module_from_spec(spec)
    spec.loader.exec_module(mod)
    return mod


def _src_root():
    from . import core
    return core.SRC


class _GlobalEval(ExprMixin):
    """evaluates module level constants (dicts of classes / functions ...)"""

    def __init__(self, eng, module):
        self.eng = eng
        self.pkg = eng.pkg
        self.closure = {}
        self.local_names = set()
        self.loop_depth = 0
        self.lambdas = eng.lambdas
        self.facts = {}
        self.rebound = set()
        self.reads = set()

        class _F:
            pass
        self.fi = _F()
        self.fi.module = module
        self.fi.cls = None

    def call_av(self, *a, **k):
        return AV(("any",), ("N:g",))

    def ev_Call(self, node, st):
        return AV(("any",), ("N:g",))

    def call_fn(self, *a, **k):
        return BOTTOM


class Engine:
    def __init__(self, pkg, ann=None, frozen=None):
        self.pkg = pkg
        self.ann = ann
        self.KINDS = dict(getattr(ann, "KINDS", {}) or {})
        self.PARAM_CLASSES = dict(getattr(ann, "PARAM_CLASSES", {}) or {})
        self.PUBLIC = dict(getattr(ann, "PUBLIC", {}) or {})
        self.SKIP = set(getattr(ann, "SKIP_MODULES", ()) or ())
        self.INLINE = set(getattr(ann, "INLINE", ()) or ())
        self.SKIP_FN = set(getattr(ann, "SKIP_FUNCTIONS", ()) or ())
        self.inlined = set()
        self.spec_depth = 0
        self._spec_cache = {}
        self._meet_cache = {}
        self.attr_next = {}
        self.converged = False
        self.frozen = frozen if frozen is not None else dict(getattr(ann, "CONTRACTS", {}) or {})
        self.summaries = {}
        self.attr_info = {}
        self.closures = {}
        self.lambdas = {}
        self.kernels, self.kernel_notes = ({}, [])
        if pkg.src_root:
            self.kernels, self.kernel_notes = kernel_contracts(pkg.src_root, pkg.pkgname)
        self.mode = "infer"
        self._glob_cache = {}
        self._flags = {}
        self.changed = False
        self.analyses = {}        # key -> list of (facts, FnAnalyzer) of the last pass
        self.missing_frozen = set()
        self.rounds = 0

    # ------------------------------------------------------------------ services for analyzers
    def kernel_by_name(self, name):
        name = name.replace("variogram_", "")
        for k, v in self.kernels.items():
            if k.endswith("." + name):
                return v
        return None

    def kind_annotations(self, fi):
        return self.KINDS.get(fi.key, {})

    def param_av(self, fi, p, kind):
        o = ("P:" + p,)
        if kind:
            parts = []
            for k in kind.split("|"):
                k = k.strip()
                if k in ("scalar", "bool", "int", "float"):
                    parts.append(SCALAR)
                elif k == "str":
                    parts.append(AV(("str",)))
                elif k == "scalars":
                    parts.append(AV(("tuple", "list"), (), elem=SCALAR))
                elif k == "strs":
                    parts.append(AV(("str",)))
                    parts.append(AV(("list", "tuple"), o, elem=AV(("str",))))
                elif k == "obj":
                    parts.append(AV(("obj",), o))
                elif k == "none":
                    parts.append(AV(("none",)))
                elif k == "callable":
                    parts.append(AV(("func",)))
                elif k == "dict":
                    parts.append(AV(("dict",), o, elem=AV(("any",), o)))
                elif k in ("list", "tuple"):
                    parts.append(AV((k,), o, elem=AV(("any",), o)))
                elif k == "array":
                    parts.append(AV(("nd", "ma"), o))
                elif k in self.pkg.classes:
                    parts.append(AV(("obj",), o, cls=(k,)))
                else:
                    parts.append(AV(("any",), o))
            out = BOTTOM
            for x in parts:
                out = join(out, x)
            return out
        if p in self.PARAM_CLASSES and self.PARAM_CLASSES[p] in self.pkg.classes:
            return AV(("obj", "none"), o, cls=(self.PARAM_CLASSES[p],))
        return AV(("any",), o)

    def summary_for(self, key, analyzer=None):
        if self.mode == "check":
            f = self.frozen.get(key)
            if f is not None:
                # callers rely on the frozen contract; where the current code of the callee does
                # *less* than its contract allows (e.g. after a repair), they see the smaller effect
                # (what the callee does beyond its contract is reported at the callee, not here)
                if key not in self._meet_cache:
                    self._meet_cache[key] = _meet(f, self.summaries.get(key))
                return self._meet_cache[key]
            if key in self.pkg.funcs:
                self.missing_frozen.add(key)
        return self.summaries.get(key)

    def note_attr(self, attr, v):
        if v is None or v.is_bottom:
            return
        v = map_orig(v, lambda o: ())
        v = v.replace(const=NOCONST)
        cur = self.attr_next.get(attr)
        self.attr_next[attr] = join(cur, v) if cur is not None else v

    def set_closure(self, key, env):
        cur = self.closures.get(key)
        if cur is None:
            self.closures[key] = dict(env)
            self.changed = True
            return
        ch = False
        for k, v in env.items():
            n = join(cur.get(k), v) if k in cur else v
            if k not in cur or n != cur[k]:
                cur[k] = n
                ch = True
        if ch:
            self.changed = True

    def global_av(self, m, name):
        k = (m.name, name)
        if k in self._glob_cache:
            return self._glob_cache[k]
        self._glob_cache[k] = AV(("any",), ("G:%s.%s" % (m.name, name),))
        node = m.globals[name]
        ge = _GlobalEval(self, m)
        v = ge.ev(node, State())
        g = "G:%s.%s" % (m.name[len(self.pkg.pkgname) + 1:] or m.name, name)
        v = map_orig(v, lambda o: (g,) if o.startswith("N:") else (o,))
        self._glob_cache[k] = v
        return v

    def class_attr_av(self, ci, attr):
        k = ("cls", ci.name, attr)
        if k in self._glob_cache:
            return self._glob_cache[k]
        ge = _GlobalEval(self, ci.module)
        v = ge.ev(ci.attrs[attr], State())
        g = "G:%s.%s" % (ci.name, attr)
        v = map_orig(v, lambda o: (g,) if o.startswith("N:") else (o,))
        self._glob_cache[k] = v
        return v

    # ------------------------------------------------------------------ analysis of one function
    def flags_of(self, fi):
        if fi.key not in self._flags:
            self._flags[fi.key] = find_flags(fi)
        return self._flags[fi.key]

    def analyze(self, fi):
        flags = self.flags_of(fi)
        runs = []
        for vals in itertools.product((False, True), repeat=len(flags)):
            facts = dict(zip(flags, vals))
            an = FnAnalyzer(self, fi, facts)
            an.run()
            runs.append((facts, an))
        return runs

    def site_id(self, fi, node, sub, numbering=None):
        numbering = numbering or self.pkg.site_numbering(fi)
        n = numbering.get(id(node))
        if n is None:
            text, op, k = _txt(node), "expr", getattr(node, "lineno", 0) - fi.node.lineno
            k = "+%d" % k
        else:
            text, op, k = n
        if op == "call":
            s = "call.%s%s#%s" % (text, ("." + sub) if sub else "", k)
        else:
            s = "site.%s.%s%s#%s" % (text, op, ("." + sub) if sub else "", k)
        return s

    def build_summary(self, fi, runs):
        cases = []
        numbering = self.pkg.site_numbering(fi)

        def conv(roots):
            out = set()
            for r in roots:
                if isinstance(r, tuple):
                    node = None
                    for _, an in runs:
                        rec = an.sites.get((r[1], r[2]))
                        if rec is not None:
                            node = rec["node"]
                            break
                    out.add(fi.oblname + "/" + (self.site_id(fi, node, r[2], numbering)
                                                if node is not None else "?"))
                else:
                    out.add(r)
            return sorted(out)

        for facts, an in runs:
            cs = an.case_summary()
            cases.append({
                "when": dict(facts),
                "modifies": {p: conv(r) for p, r in sorted(cs["modifies"].items())},
                "mutates_stored": {p: conv(r) for p, r in sorted(cs["mutates_stored"].items())},
                "mod_containers": sorted(cs["mod_containers"]),
                "returns": cs["returns"],
                "retains": sorted([list(x) for x in cs["retains"]]),
            })
        eff = [{k: v for k, v in c.items() if k != "when"} for c in cases]
        if cases and all(e == eff[0] for e in eff):
            cases = [dict(eff[0], when={})]
        return {"params": [p for p, _ in fi.params], "flags": list(self.flags_of(fi)),
                "cases": cases}

    # ------------------------------------------------------------------ whole-package fixpoint
    def infer(self, max_rounds=16):
        self.mode = "infer"
        order = sorted(self.pkg.funcs.values(), key=lambda f: (f.key.count("."), f.key))
        for rnd in range(max_rounds):
            self.changed = False
            self._glob_cache = {}
            self._spec_cache = {}
            prev_attr = self.attr_info
            self.attr_next = {}
            widen = rnd >= 9
            for fi in order:
                runs = self.analyze(fi)
                s = self.build_summary(fi, runs)
                old = self.summaries.get(fi.key)
                if old is not None and widen:
                    s = _widen(old, s)
                if s != old:
                    self.summaries[fi.key] = s
                    self.changed = True
                self.analyses[fi.key] = runs
            if widen:
                for k, v in prev_attr.items():
                    self.attr_next[k] = join(self.attr_next.get(k), v) if k in self.attr_next else v
            if self.attr_next != prev_attr:
                self.changed = True
            self.attr_info = self.attr_next
            self.rounds = rnd + 1
            if not self.changed:
                break
        self.converged = not self.changed
        return self.summaries

    def specialized(self, fi, bound):
        """kind-specialised (context sensitive) summary of a polymorphic helper: the callee is
        analysed with the kinds / classes / constants of the actual arguments"""
        sig = []
        env = {}
        for p, k in fi.params:
            a = bound.get(p)
            if a is None:
                d = fi.defaults().get(p)
                if isinstance(d, ast.Constant):
                    from .frames_dom import const as _c
                    a = _c(d.value)
                else:
                    a = AV(("any",), ())
            o = "P:" + p
            sh = map_orig(a, lambda x, o=o: (o,))
            if k == "var":
                sh = AV(("tuple",), ("N:args",), elem=sh.element() if not sh.is_bottom else None)
            elif k == "kw":
                sh = AV(("dict",), ("N:kwargs",), elem=sh.element() if not sh.is_bottom else None)
            env[p] = sh
            sig.append((p, sh.key()))
        key = (fi.key, tuple(sig), self.mode)
        if key in self._spec_cache:
            return self._spec_cache[key]
        self._spec_cache[key] = None
        self.spec_depth += 1
        try:
            flags = [f for f in self.flags_of(fi)]
            runs = []
            for vals in itertools.product((False, True), repeat=len(flags)):
                facts = dict(zip(flags, vals))
                an = FnAnalyzer(self, fi, facts)
                an.preset_env = env
                an.run()
                runs.append((facts, an))
            s = self.build_summary(fi, runs)
        finally:
            self.spec_depth -= 1
        self._spec_cache[key] = s
        return s

    # ------------------------------------------------------------------ modular check
    def is_public(self, fi):
        return fi.key in self.PUBLIC

    def allowed(self, fi, facts):
        """params the function may write according to its frozen contract (public: none)"""
        if self.is_public(fi):
            return set()
        fr = self.frozen.get(fi.key)
        if fr is None:
            s = self.summaries.get(fi.key) or {"cases": []}
            fr = s
        out = set()
        for c in fr["cases"]:
            if all(facts.get(k, v) == v for k, v in c["when"].items()):
                out |= set(c.get("modifies", {}))
        return out

    def check(self):
        """returns (obligations, notes): obligations are dicts
        {id, holds, detail, fn, public, line, bad, roots, params, kind}"""
        if not self.summaries:
            self.infer()
        self.mode = "check"
        self._spec_cache = {}
        self._meet_cache = {}
        self.missing_frozen = set()
        obls = []
        notes = []
        assumed = {}
        for fi in sorted(self.pkg.funcs.values(), key=lambda f: f.key):
            if fi.relpath in self.SKIP or fi.key in self.SKIP_FN:
                continue
            runs = self.analyze(fi)
            numbering = self.pkg.site_numbering(fi)
            merged = {}
            for facts, an in runs:
                allowed = self.allowed(fi, facts)
                for key, rec in an.sites.items():
                    m = merged.setdefault(key, {"rec": rec, "bad": set(), "all": set(),
                                                "roots": set(), "facts": [], "kind": rec["kind"]})
                    if rec["kind"] in ("array", "unknown") and m["kind"] == "container":
                        m["kind"] = rec["kind"]
                    bad = {o for o in rec["bad"] if not (o.startswith("P:") and o[2:] in allowed)}
                    if rec["kind"] == "container":
                        bad = set(rec["bad"])
                    if bad:
                        m["facts"].append(dict(facts))
                    m["bad"] |= bad
                    m["all"] |= rec["all"]
                    m["roots"] |= {r for r in rec["roots"] if not isinstance(r, tuple)}
                for t in an.assumed_callables:
                    assumed.setdefault(fi.key, set()).add(t)
            rel = fi.relpath
            for key, m in sorted(merged.items(), key=lambda kv: (kv[1]["rec"]["line"],
                                                                 kv[1]["rec"]["col"], str(kv[0][1]))):
                rec = m["rec"]
                sid = self.site_id(fi, rec["node"], rec["sub"], numbering)
                if m["kind"] == "container":
                    star = {p for p, k in fi.params if k in ("var", "kw")}
                    pb = sorted(o for o in m["bad"] if o.startswith("P:") and o[2:] not in star)
                    if pb:
                        notes.append("outside C20 (container, not array): %s:%d `%s` mutates a "
                                     "caller-supplied container %s"
                                     % (rel, rec["line"], _src_line(fi, rec["line"]), pb))
                    continue
                if m["kind"] == "unknown":
                    sid = sid.replace("call.", "unknown.", 1) if sid.startswith("call.") else \
                        "unknown." + sid
                holds = not m["bad"]
                roots = sorted(m["roots"]) or [fi.oblname + "/" + sid]
                detail = ""
                if not holds:
                    detail = ("%s:%d in %s: `%s` -- %s; target may alias %s; root=%s%s"
                              % (rel, rec["line"], fi.qualname, _src_line(fi, rec["line"]),
                                 rec["why"], sorted(_pretty(o) for o in m["bad"]),
                                 ",".join(roots),
                                 ("; under flags %s" % m["facts"]) if any(m["facts"]) else ""))
                obls.append({"id": fi.oblname + "/" + sid, "holds": holds, "detail": detail,
                             "fn": fi.key, "public": self.is_public(fi), "line": rec["line"],
                             "bad": sorted(m["bad"]), "roots": roots, "kind": m["kind"],
                             "why": rec["why"]})
            # contract conformance: returns-alias / retains
            fr = self.frozen.get(fi.key)
            cur = self.build_summary(fi, runs)
            self.analyses[fi.key] = runs
            if fr is not None:
                for what in ("returns", "retains"):
                    a = _effect(cur, what)
                    b = _effect(fr, what)
                    if not a and not b:
                        continue
                    extra = sorted(a - b)
                    detail = ""
                    if extra:
                        detail = ("%s: %s: inferred %s %s exceeds the frozen contract %s; root=%s"
                                  % (rel, fi.qualname, what, [_pretty(x) for x in extra],
                                     sorted(_pretty(x) for x in b), fi.oblname + "/frame." + what))
                    obls.append({"id": fi.oblname + "/frame." + what, "holds": not extra,
                                 "detail": detail, "fn": fi.key, "public": self.is_public(fi),
                                 "line": fi.node.lineno, "bad": extra,
                                 "roots": [fi.oblname + "/frame." + what], "kind": what,
                                 "why": "contract conformance"})
        self.assumed = assumed
        for k in sorted(self.missing_frozen):
            notes.append("no frozen contract for %s (new function): inferred contract used" % k)
        for k in sorted(self.frozen):
            if k not in self.pkg.funcs:
                notes.append("frozen contract for %s has no function in the current source" % k)
        self.mode = "infer"
        return obls, notes

    # ------------------------------------------------------------------ which public entries reach a root
    def public_reach(self):
        """root site id -> set of (public entry key, param | '<stored>')  from the *inferred*
        (whole program) summaries of the current source"""
        out = {}
        for key in self.PUBLIC:
            s = self.summaries.get(key)
            if not s:
                continue
            for c in s["cases"]:
                for p, roots in c.get("modifies", {}).items():
                    for r in roots:
                        out.setdefault(r, set()).add((key, p))
                for o, roots in c.get("mutates_stored", {}).items():
                    for r in roots:
                        out.setdefault(r, set()).add((key, "<stored>"))
        return out


def _pretty(o):
    if isinstance(o, (list, tuple)):
        return "%s -> %s" % (_pretty(o[0]), _pretty(o[1]))
    if o.startswith("P:"):
        return "param:" + o[2:]
    if o.startswith("S:"):
        return "stored:" + o[2:]
    if o.startswith("G:"):
        return "global:" + o[2:]
    if o.startswith("U:"):
        return "unknown:" + o[2:]
    if o.startswith("X:"):
        return "external:" + o[2:]
    return o


def _src_line(fi, line):
    try:
        return fi.module.src.split("\n")[line - 1].strip()
    except Exception:
        return "?"


def _effect(summary, what):
    out = set()
    for c in summary["cases"]:
        if what == "returns":
            out |= {o for o in ret_origins(c.get("returns")) if o != "N" and not o.startswith("N:")}
        else:
            out |= {tuple(x) for x in c.get("retains", ())}
    return out


def _widen(old, new):
    """monotone join of summaries across fixpoint rounds (keeps termination)"""
    if old["flags"] != new["flags"] or len(old["cases"]) != len(new["cases"]):
        ow = {tuple(sorted(c["when"].items())): c for c in old["cases"]}
        if set(ow) != {tuple(sorted(c["when"].items())) for c in new["cases"]}:
            # collapse both to single-case form
            old = _collapse(old)
            new = _collapse(new)
    ow = {tuple(sorted(c["when"].items())): c for c in old["cases"]}
    cases = []
    for c in new["cases"]:
        o = ow.get(tuple(sorted(c["when"].items())))
        if o is None:
            cases.append(c)
            continue
        m = {}
        for k in ("modifies", "mutates_stored"):
            d = {p: sorted(set(r)) for p, r in o.get(k, {}).items()}
            for p, r in c.get(k, {}).items():
                d[p] = sorted(set(d.get(p, ())) | set(r))
            m[k] = dict(sorted(d.items()))
        m["mod_containers"] = sorted(set(o.get("mod_containers", ())) | set(c.get("mod_containers", ())))
        m["returns"] = join_ret(o.get("returns"), c.get("returns"))
        m["retains"] = sorted([list(x) for x in {tuple(x) for x in o.get("retains", ())}
                               | {tuple(x) for x in c.get("retains", ())}])
        m["when"] = c["when"]
        cases.append(m)
    out = {"params": new["params"], "flags": new["flags"], "cases": cases}
    eff = [{k: v for k, v in c.items() if k != "when"} for c in cases]
    if len(cases) > 1 and all(e == eff[0] for e in eff):
        out["cases"] = [dict(eff[0], when={})]
    return out


def _meet(frozen, inferred):
    """effects: pointwise minimum of frozen contract and current inferred summary"""
    if inferred is None:
        return frozen
    cases = []
    for c in frozen["cases"]:
        cons = [i for i in inferred["cases"]
                if all(c["when"].get(k, v) == v for k, v in i["when"].items())]
        if not cons:
            return frozen
        mod, sto, con, ret, rets = {}, {}, set(), set(), None
        for i in cons:
            for p, r in i.get("modifies", {}).items():
                mod.setdefault(p, set()).update(r)
            for p, r in i.get("mutates_stored", {}).items():
                sto.setdefault(p, set()).update(r)
            con |= set(i.get("mod_containers", ()))
            ret |= {tuple(x) for x in i.get("retains", ())}
            rets = join_ret(rets, i.get("returns"))
        m = dict(c)
        m["modifies"] = {p: sorted(mod[p]) for p in c.get("modifies", {}) if p in mod}
        m["mutates_stored"] = {p: sorted(sto[p]) for p in c.get("mutates_stored", {}) if p in sto}
        m["mod_containers"] = [p for p in c.get("mod_containers", ()) if p in con]
        fr = {tuple(x) for x in c.get("retains", ())}
        m["retains"] = sorted([list(x) for x in fr & ret])
        fo = {o for o in ret_origins(c.get("returns")) if o != "N"}
        io = {o for o in ret_origins(rets) if o != "N"}
        if io <= fo and rets is not None:
            m["returns"] = rets
        cases.append(m)
    return {"params": frozen["params"], "flags": frozen["flags"], "cases": cases}


def _collapse(s):
    if len(s["cases"]) <= 1:
        return {"params": s["params"], "flags": [], "cases": [dict(c, when={}) for c in s["cases"]]}
    acc = None
    for c in s["cases"]:
        one = {"params": s["params"], "flags": [], "cases": [dict(c, when={})]}
        acc = one if acc is None else _widen(acc, one)
    return acc


# =============================================================================================
# write sets / read sets over self.<attr>  (reusable API for the invariant proofs)
_MUTATORS = (T.LIST_MUTATE | T.DICT_MUTATE | T.ARR_MUTATE_METHODS) - {"__setitem__", "__delitem__"}


class _AttrScan(ast.NodeVisitor):
    def __init__(self, selfname, modelnames=("model",)):
        self.selfname = selfname
        self.writes = set()
        self.reads = set()
        self.calls = set()          # self.method() called
        self.props_r = set()
        self.props_w = set()
        self.fn_calls = []          # (callee Name id, index/keyword at which self is passed)
        self.model_reads = set()
        self.model_calls = set()
        self.modelnames = modelnames
        self._callee_nodes = set()
        self.sub_calls = set()

    def _is_self(self, n):
        return isinstance(n, ast.Name) and n.id == self.selfname

    def _is_model(self, n):
        if isinstance(n, ast.Name) and n.id in self.modelnames and n.id != self.selfname:
            return True
        return (isinstance(n, ast.Attribute) and self._is_self(n.value)
                and n.attr in ("model", "_model"))

    def visit_Attribute(self, node):
        if id(node) in self._callee_nodes:
            pass
        elif self._is_self(node.value):
            if isinstance(node.ctx, ast.Load):
                self.reads.add(node.attr)
            else:
                self.writes.add(node.attr)
        elif self._is_model(node.value) and isinstance(node.ctx, ast.Load):
            self.model_reads.add(node.attr)
        elif isinstance(node.ctx, (ast.Store, ast.Del)) and isinstance(node.value, ast.Attribute) \
                and self._is_self(node.value.value):
            # self.a.b = v : state of a sub-object (CondSRF delegates to self.krige)
            self.writes.add(node.value.attr + "." + node.attr)
        self.generic_visit(node)

    def visit_Subscript(self, node):
        # self.x[...] = v  writes the content of self.x
        if isinstance(node.ctx, (ast.Store, ast.Del)) and isinstance(node.value, ast.Attribute) \
                and self._is_self(node.value.value):
            self.writes.add(node.value.attr)
        if self._is_self(node.value):
            self.calls.add("__delitem__" if isinstance(node.ctx, ast.Del) else
                           "__setitem__" if isinstance(node.ctx, ast.Store) else "__getitem__")
        self.generic_visit(node)

    def visit_AugAssign(self, node):
        t = node.target
        if isinstance(t, ast.Attribute) and self._is_self(t.value):
            self.reads.add(t.attr)
        self.generic_visit(node)

    def visit_Call(self, node):
        f = node.func
        if isinstance(f, ast.Attribute) and self._is_self(f.value):
            self.calls.add(f.attr)
            self._callee_nodes.add(id(f))
        elif isinstance(f, ast.Attribute) and self._is_model(f.value):
            self.model_calls.add(f.attr)
            self._callee_nodes.add(id(f))
        elif isinstance(f, ast.Attribute) and isinstance(f.value, ast.Attribute) \
                and self._is_self(f.value.value) and f.attr in _MUTATORS:
            self.writes.add(f.value.attr)            # self.x.append(...) writes the content of self.x
        elif isinstance(f, ast.Attribute) and isinstance(f.value, ast.Attribute) \
                and self._is_self(f.value.value) and not self._is_model(f.value):
            self.sub_calls.add("%s.%s()" % (f.value.attr, f.attr))    # not followed, only recorded
        elif isinstance(f, ast.Attribute) and isinstance(f.value, ast.Call) \
                and isinstance(f.value.func, ast.Name) and f.value.func.id == "super":
            self.calls.add(("super", f.attr))
        elif isinstance(f, ast.Name):
            if f.id in ("setattr", "delattr") and node.args and self._is_self(node.args[0]):
                k = node.args[1] if len(node.args) > 1 else None
                self.writes.add(k.value if isinstance(k, ast.Constant) else "*")
            elif f.id == "getattr" and node.args and self._is_self(node.args[0]):
                k = node.args[1] if len(node.args) > 1 else None
                self.reads.add(k.value if isinstance(k, ast.Constant) else "*")
            else:
                for i, a in enumerate(node.args):
                    if self._is_self(a):
                        self.fn_calls.append((f.id, i))
                for kw in node.keywords:
                    if kw.arg and self._is_self(kw.value):
                        self.fn_calls.append((f.id, kw.arg))
        self.generic_visit(node)

    def visit_FunctionDef(self, node):
        self.generic_visit(node)

    def visit_Lambda(self, node):
        self.generic_visit(node)


_PKG_CACHE = {}


def get_package(src_root=None):
    src_root = src_root or _src_root()
    key = src_root
    sig = []
    root = os.path.join(src_root, "gstools")
    for dp, dn, fn in os.walk(root):
        for f in fn:
            if f.endswith(".py"):
                p = os.path.join(dp, f)
                sig.append((p, os.path.getmtime(p), os.path.getsize(p)))
    sig = tuple(sorted(sig))
    c = _PKG_CACHE.get(key)
    if c is None or c[0] != sig:
        _PKG_CACHE[key] = (sig, Package(src_root))
    return _PKG_CACHE[key][1]


def _rw(pkg, fi, cls, seen, want):
    """transitive write / read set of fi with dynamic class cls (name or None)"""
    tag = (fi.key, cls)
    if tag in seen:
        return set()
    seen.add(tag)
    if not fi.params:
        return set()
    selfname = fi.params[0][0]
    sc = _AttrScan(selfname)
    for st in fi.node.body:
        sc.visit(st)
    out = set()
    direct = sc.writes if want == "w" else sc.reads
    cname = cls or fi.cls
    for a in sc.sub_calls:
        out.add("self." + a)
    for a in direct:
        role = "setter" if want == "w" else "getter"
        handled = False
        if cname and a != "*":
            found, fs = pkg.lookup_prop(cname, a, role, virtual=False)
            if found:
                handled = True
                out.add("self." + a)
                for f in fs:
                    if f.key != fi.key:
                        out |= _rw(pkg, f, cname, seen, want)
        if not handled:
            out.add("self." + a)
    if want == "w":
        # reads of properties do not write; but writes through property *setters* may read
        pass
    else:
        for a in sc.model_reads:
            out.add("model." + a)
        for a in sc.model_calls:
            out.add("model." + a + "()")
        # property setters executed by writes also read
        for a in sc.writes:
            if cname and a != "*":
                found, fs = pkg.lookup_prop(cname, a, "setter", virtual=False)
                for f in fs:
                    if f.key != fi.key:
                        out |= _rw(pkg, f, cname, seen, want)
    # reads of properties execute getters: their writes count as well (e.g. integral_scale)
    if want == "w":
        for a in sc.reads:
            if cname and a != "*":
                found, fs = pkg.lookup_prop(cname, a, "getter", virtual=False)
                for f in fs:
                    if f.key != fi.key:
                        out |= _rw(pkg, f, cname, seen, want)
    for c in sc.calls:
        if isinstance(c, tuple):
            ms = []
            if fi.cls:
                for b in pkg.mro(fi.cls)[1:]:
                    if c[1] in pkg.classes[b].methods:
                        ms = [pkg.classes[b].methods[c[1]]]
                        break
        else:
            ms = pkg.lookup_method(cname, c, virtual=False) if cname else []
        for m in ms:
            out |= _rw(pkg, m, cname, seen, want)
    for fname, idx in sc.fn_calls:
        r = pkg.resolve_symbol(fi.module.name, fname)
        if r and r[0] == "fn":
            g = r[1]
            names = [p for p, _ in g.params]
            pname = names[idx] if isinstance(idx, int) and idx < len(names) else idx
            if pname in names:
                out |= _rw_param(pkg, g, pname, cname, seen, want)
    return out


def _rw_param(pkg, g, pname, cname, seen, want):
    tag = (g.key, pname, cname)
    if tag in seen:
        return set()
    seen.add(tag)
    sc = _AttrScan(pname)
    for st in g.node.body:
        sc.visit(st)
    out = set()
    direct = sc.writes if want == "w" else sc.reads
    for a in direct:
        role = "setter" if want == "w" else "getter"
        out.add("self." + a)
        if cname and a != "*":
            found, fs = pkg.lookup_prop(cname, a, role, virtual=False)
            for f in fs:
                out |= _rw(pkg, f, cname, seen, want)
    if want == "w":
        for a in sc.reads:
            if cname and a != "*":
                found, fs = pkg.lookup_prop(cname, a, "getter", virtual=False)
                for f in fs:
                    out |= _rw(pkg, f, cname, seen, want)
    for c in sc.calls:
        if not isinstance(c, tuple) and cname:
            for m in pkg.lookup_method(cname, c, virtual=False):
                out |= _rw(pkg, m, cname, seen, want)
    for fname, idx in sc.fn_calls:
        r = pkg.resolve_symbol(g.module.name, fname)
        if r and r[0] == "fn":
            h = r[1]
            names = [p for p, _ in h.params]
            pn = names[idx] if isinstance(idx, int) and idx < len(names) else idx
            if pn in names:
                out |= _rw_param(pkg, h, pn, cname, seen, want)
    return out


def _find(pkg, module_relpath, qualname):
    key = module_relpath + ":" + qualname
    if key in pkg.funcs:
        return pkg.funcs[key]
    raise KeyError("frames: no function %s in the current source" % key)


def assigns(module_relpath, qualname, cls=None, src_root=None):
    """set of `self.<attr>` names written by the method, transitively through self.method()
    calls, property setters/getters executed, and module functions that receive `self`.
    `self.a.b` = attribute of a sub-object written; `self.a.m()` = a method of a sub-object is
    called (its effect on the sub-object is NOT followed).
    `cls` = dynamic class name when the method is inherited (default: the defining class).
    `self.*` means a dynamically named attribute (setattr(self, name, ...))."""
    pkg = get_package(src_root)
    fi = _find(pkg, module_relpath, qualname)
    return _rw(pkg, fi, cls or fi.cls, set(), "w")


def reads(module_relpath, qualname, cls=None, src_root=None):
    """set of `self.<attr>` / `model.<attr>` names read by the method (transitively as for
    assigns); `model.<m>()` marks a method of the model being called."""
    pkg = get_package(src_root)
    fi = _find(pkg, module_relpath, qualname)
    return _rw(pkg, fi, cls or fi.cls, set(), "r")


# =============================================================================================
def _compact(summary):
    cases = []
    for c in summary["cases"]:
        d = {"when": c["when"]}
        for k in ("modifies", "mutates_stored", "mod_containers", "retains"):
            if c.get(k):
                d[k] = c[k]
        if c.get("returns") is not None:
            d["returns"] = c["returns"]
        cases.append(d)
    return {"params": summary["params"], "flags": summary["flags"], "cases": cases}


def freeze(path=CONTRACT_FILE, src_root=None):
    ann = load_contract_file(path)
    pkg = Package(src_root or _src_root())
    eng = Engine(pkg, ann, frozen={})
    eng.infer()
    body = "CONTRACTS = " + pprint.pformat({k: _compact(v) for k, v in sorted(eng.summaries.items())},
                                           width=118, compact=True) + "\n"
    src = open(path).read()
    head = src.split(FROZEN_MARK)[0]
    with open(path, "w") as f:
        f.write(head + FROZEN_MARK + "\n# numpy alias table: %s; fixpoint rounds: %d; functions: %d\n"
                % (T.TABLE_VERSION, eng.rounds, len(eng.summaries)) + body)
    return eng


def main(argv=None):
    import argparse
    ap = argparse.ArgumentParser()
    ap.add_argument("--freeze", action="store_true")
    ap.add_argument("--dump", default=None, help="substring of function key: print summary + sites")
    ap.add_argument("--failing", action="store_true")
    a = ap.parse_args(argv)
    t0 = time.time()
    if a.freeze:
        eng = freeze()
        print("frozen %d contracts in %d rounds (%.1fs)" % (len(eng.summaries), eng.rounds,
                                                          time.time() - t0))
        return
    ann = load_contract_file()
    pkg = Package(_src_root())
    eng = Engine(pkg, ann)
    eng.infer()
    print("inferred %d summaries in %d rounds (%.1fs)" % (len(eng.summaries), eng.rounds,
                                                        time.time() - t0))
    if a.dump:
        for k, s in sorted(eng.summaries.items()):
            if a.dump in k:
                print(k)
                pprint.pprint(s, width=150, compact=True)
    if a.failing:
        obls, notes = eng.check()
        for o in obls:
            if not o["holds"]:
                print("FAIL", o["id"], "\n     ", o["detail"])
        for n in notes:
            print("NOTE", n)
        print("%d obligations, %d failing (%.1fs)" % (len(obls), sum(1 for o in obls if not o["holds"]),
                                                   time.time() - t0))


if __name__ == "__main__":
    main()
