"""Self test of the `frames` transfer functions: a battery of small functions with a known
in-place write on a parameter (f_*: an obligation MUST fail) and of look-alikes that only write
fresh memory (g_*: every obligation MUST hold).  Run on every C20 run as vacuity canaries."""
from .frames_pkg import Package

MICRO_SRC = '''
import numpy as np
from copy import copy, deepcopy

# ---------------- must FAIL (f_*)
def f_out_kw(x):
    y = np.asarray(x)
    np.add(y, 1, out=y)
def f_out_pos(x):
    np.multiply(x, 2, x)
def f_put(x):
    np.put(np.ravel(x), [0], 1.0)
def f_copyto(x):
    np.copyto(np.atleast_1d(x), 0.0)
def f_fill_diag(x):
    np.fill_diagonal(np.atleast_2d(x), 0.0)
def f_fill(x):
    np.asarray(x).fill(0)
def f_sort(x):
    y = np.reshape(x, -1)
    y.sort()
def f_flat(x):
    y = np.asanyarray(x)
    y.flat = 0.0
def f_rows(x):
    for row in np.atleast_2d(x):
        row += 1
def f_list_elem(xs):
    ys = [np.asarray(v) for v in xs]
    for i in range(len(ys)):
        ys[i] *= 2
def f_dict(x):
    d = {"a": np.asarray(x)}
    d["a"] -= 1
def f_tuple(x, y):
    a, b = np.asarray(x), np.array(y)
    a[0] = 0
def f_bool_aug(x, m):
    y = np.squeeze(x)
    y[m] += 1
def f_transpose(x):
    np.asarray(x).T[0] = 1
def f_swap(x):
    y = np.asarray(x, dtype=np.double).swapaxes(0, 1)
    y[...] = 0
def f_ma_data(x):
    m = np.ma.array(x)
    m[0] = 5.0
def f_ma_mask(m):
    q = np.ma.asarray(m)
    q.mask = True
def f_ifexp(x, c):
    y = np.asarray(x) if c else np.zeros(3)
    y += 1
def f_loop_carry(x):
    y = np.zeros(3)
    for i in range(3):
        y += 1
        y = np.asarray(x)
def f_while(x):
    y = np.zeros(3)
    k = 0
    while k < 3:
        y[0] = 1
        y = np.ravel(x)
        k += 1
def f_try(x):
    try:
        y = np.asarray(x)
    except ValueError:
        y = np.zeros(2)
    y *= 2
def f_array_copy_false(x):
    y = np.array(x, copy=False)
    y += 1
def f_filled(x):
    y = np.ma.array(x).filled()
    y += 1
def f_slice_chain(x):
    y = np.asarray(x)[1:][::2]
    y[0] = 3
def f_nested_call(x):
    def inner(z):
        z += 1
    inner(np.asarray(x))
def f_star(x):
    def h(a, b):
        b -= 1
    h(*(1, np.asarray(x)))
def f_kw(x):
    def h(a=None, b=None):
        b[0] = 1
    kw = dict(b=np.asarray(x))
    h(**kw)
def f_method_chain(x):
    np.asarray(x).reshape(-1).ravel().squeeze().fill(1)
def f_getattr_obj(o):
    d = getattr(o, "data")
    d += 1
def f_lambda(x):
    g = lambda z: z
    w = g(np.asarray(x))
    w += 1
def f_copy_tuple(xs):
    ys = copy(xs)
    ys[0] += 1
def f_resize(x):
    np.asarray(x).resize(3)
def f_where_out(x):
    np.sqrt(x, out=np.asarray(x))
def f_itemset(x):
    y = np.broadcast_to(x, (2, 3))
    y[0, 0] = 1

def f_mask_no_unshare(p):
    a = np.ma.array(p, ndmin=1, dtype=np.double)
    a.mask = np.isnan(a)
def f_data_after_unshare(p):
    a = np.ma.array(p, ndmin=1, dtype=np.double)
    a.unshare_mask()
    a[0] = 1.0
def f_aug_after_unshare(p):
    a = np.ma.array(p)
    a.unshare_mask()
    a += 1.0
def f_unshare_other_alias(p):
    a = np.ma.array(p)
    b = np.ma.array(p)
    a.unshare_mask()
    b.mask = np.isnan(b)
def f_unshare_same_object(p):
    a = np.ma.asanyarray(p)
    a.unshare_mask()
    a.mask = True
def f_unshare_param_itself(p):
    p.unshare_mask()
    p.mask = True
def f_unshare_then_rebind(p):
    a = np.ma.array(p)
    a.unshare_mask()
    a = np.ma.array(p)
    a.mask = True
def f_maskbuf_no_unshare(p):
    a = np.ma.array(p)
    a.mask[0] = True
def f_getmask_write(p):
    m = np.ma.getmaskarray(np.ma.array(p))
    m[...] = True

# ---------------- must HOLD (g_*)
def g_mask_after_unshare(p):
    a = np.ma.array(p, ndmin=1, dtype=np.double)
    a.unshare_mask()
    a.mask = np.logical_or(a.mask, np.isnan(a))
def g_mask_after_unshare_view(p):
    a = np.ma.array(p)[1:]
    a.unshare_mask()
    a.mask = True
    b = a.reshape(-1)
    b.mask = False
def g_maskbuf_after_unshare(p):
    a = np.ma.array(p)
    a.unshare_mask()
    a.mask[0] = True
def g_copy(x):
    y = np.asarray(x).copy()
    y += 1
    return y
def g_array(x):
    y = np.array(x, dtype=np.double)
    y[0] = 1
    return y
def g_arith(x):
    y = np.asarray(x) + 0
    y *= 2
    return y
def g_fancy(x):
    m = np.asarray(x) > 0
    y = np.asarray(x)[m]
    y += 1
    z = np.asarray(x)[[0, 1]]
    z[0] = 2
def g_concat(x):
    y = np.concatenate((np.asarray(x),))
    y[0] = 1
def g_ma_copy(x):
    m = np.ma.array(x, ndmin=2, dtype=np.double, copy=True)
    m[0] = 1
    m.mask = np.isnan(m)
def g_rebind_scalar(x, n):
    k = len(x)
    k -= 1
    t = 0.0
    t += n
    s = "a"
    s += "b"
def g_zeros_like(x):
    y = np.zeros_like(x)
    y[...] = x
    np.add(y, 1, out=y)
    return y
def g_deepcopy(x):
    y = deepcopy(x)
    y[0] = 1
def g_fresh_list(xs):
    ys = [np.array(v) for v in xs]
    ys[0] += 1
    ys.append(3)
def g_meta(m):
    q = np.ma.asarray(m)
    q.fill_value = 0.0
def g_astype(x):
    y = np.asarray(x).astype(np.double)
    y += 1
def g_pad(x):
    y = np.pad(np.atleast_1d(x), (0, 0), "edge")
    y[0] = 1
def g_local_dict():
    d = {}
    d["a"] = 1
    d.setdefault("b", 2)
def g_tolist(x):
    y = np.asarray(x).tolist()
    y[0] = 1
'''


def run_micro(frames):
    class Ann:
        PUBLIC = {}
        KINDS = {}
        PARAM_CLASSES = {}
        CONTRACTS = {}
    pkg = Package("", sources={"micro.py": MICRO_SRC})
    Ann.PUBLIC = {k: "" for k in pkg.funcs if "." not in k.split(":")[1]}
    eng = frames.Engine(pkg, Ann, frozen={})
    eng.infer()
    eng.frozen = dict(eng.summaries)
    obls, _ = eng.check()
    byfn = {}
    for o in obls:
        byfn.setdefault(o["id"].split("/")[0].split(".", 1)[1], []).append(o)
    must_fail = missed = 0
    false_alarms = []
    missed_l = []
    for k in sorted(pkg.funcs):
        q = k.split(":")[1]
        if "." in q:
            continue
        fails = [o for o in byfn.get(q, []) if not o["holds"]]
        if q.startswith("f_"):
            must_fail += 1
            if not fails:
                missed_l.append(q)
        elif q.startswith("g_") and fails:
            false_alarms.append(q)
    return must_fail, must_fail - len(missed_l), missed_l, false_alarms
