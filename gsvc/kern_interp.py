"""Plain interpretation of the lowered .pyx (tree walking, C semantics of the recorded types).

Used (a) to replay solver counterexamples / run the ground refutation search on the *current*
source and (b) as the reference side of the bounded artefact differential of C15.

Semantics: ``double`` -> numpy float64 (IEEE, division by zero gives inf/nan as with
cdivision=True), ``int`` -> Python int with a 32-bit range check, memoryviews -> numpy arrays
(views share memory), every element access is bounds-checked (an out-of-range or negative index is
reported as ``OutOfBounds`` -- with boundscheck=False/wraparound=False that is a memory error in the
compiled code), ``np.empty`` is filled with NaN so that reads of uninitialised scratch show up,
prange/parallel() run sequentially in index order.
"""
from __future__ import annotations

import ast

import numpy as np


class InterpError(Exception):
    pass


class OutOfBounds(InterpError):
    pass


class KernelRaise(Exception):
    def __init__(self, exc, line):
        Exception.__init__(self, "%s raised at line %s" % (exc, line))
        self.exc = exc
        self.line = line


class _Return(Exception):
    def __init__(self, v):
        self.v = v


class _Break(Exception):
    pass


class _Continue(Exception):
    pass


class FPtr:
    __slots__ = ("name",)

    def __init__(self, name):
        self.name = name

    def __eq__(self, o):
        return isinstance(o, FPtr) and o.name == self.name

    def __hash__(self):
        return hash(self.name)

    def __repr__(self):
        return "&" + self.name


_MATH1 = {"cos": np.cos, "sin": np.sin, "sqrt": np.sqrt, "acos": np.arccos, "fabs": np.fabs}


class Interp:
    def __init__(self, low, openmp=False, max_steps=50_000_000):
        self.low = low
        self.openmp = openmp
        self.steps = 0
        self.max_steps = max_steps

    # ---------------------------------------------------------------------------------------------
    def call(self, fname, args, kwargs=None):
        fi = self.low.funcs.get(fname)
        if fi is None:
            raise InterpError("no function %s" % fname)
        node = fi.node
        names = [a.arg for a in node.args.args]
        env = {}
        defaults = node.args.defaults
        ndef = len(defaults)
        for i, nm in enumerate(names):
            if i < len(args):
                v = args[i]
            elif kwargs and nm in kwargs:
                v = kwargs[nm]
            else:
                k = i - (len(names) - ndef)
                if k < 0:
                    raise InterpError("%s: missing argument %s" % (fname, nm))
                v = self.ev(defaults[k], {}, fi)
            env[nm] = self.coerce(v, fi.ctype(nm), nm)
        try:
            with np.errstate(all="ignore"):
                self.block(node.body, env, fi)
        except _Return as r:
            return r.v
        return None

    def coerce(self, v, ct, name):
        if ct is None:
            return v
        if ct.ndim:
            if not isinstance(v, np.ndarray) or v.ndim != ct.ndim:
                raise InterpError("%s: expected rank-%d array" % (name, ct.ndim))
            return v
        b = ct.base
        if b == "double":
            return np.float64(v)
        if b == "int":
            if isinstance(v, (float, np.floating)):
                raise InterpError("%s: float assigned to C int" % name)
            iv = int(v)
            if not -2 ** 31 <= iv < 2 ** 31:
                raise InterpError("%s: value %d does not fit a C int" % (name, iv))
            return iv
        if b in ("int64", "uint8"):
            return int(v)
        if b == "bint":
            return bool(v)
        return v

    # ---------------------------------------------------------------------------------------------
    def block(self, body, env, fi):
        for s in body:
            self.stmt(s, env, fi)

    def stmt(self, s, env, fi):
        self.steps += 1
        if self.steps > self.max_steps:
            raise InterpError("step budget exceeded")
        t = type(s)
        if t is ast.Assign:
            v = self.ev(s.value, env, fi)
            self.store(s.targets[0], v, env, fi)
        elif t is ast.AugAssign:
            cur = self.ev(_as_load(s.target), env, fi)
            v = self.binop(s.op, cur, self.ev(s.value, env, fi), s)
            self.store(s.target, v, env, fi)
        elif t is ast.For:
            args = [int(self.ev(a, env, fi)) for a in s.iter.args]
            rng = range(*args)
            var = s.target.id
            for x in rng:
                env[var] = x
                try:
                    self.block(s.body, env, fi)
                except _Continue:
                    continue
                except _Break:
                    break
        elif t is ast.If:
            if self.truth(self.ev(s.test, env, fi)):
                self.block(s.body, env, fi)
            else:
                self.block(s.orelse, env, fi)
        elif t is ast.Continue:
            raise _Continue()
        elif t is ast.Break:
            raise _Break()
        elif t is ast.Return:
            raise _Return(self.ev(s.value, env, fi) if s.value is not None else None)
        elif t is ast.Raise:
            exc = s.exc.func.id if isinstance(s.exc, ast.Call) else ast.unparse(s.exc)
            raise KernelRaise(exc, s.lineno)
        elif t is ast.Expr:
            self.ev(s.value, env, fi)
        elif t is ast.With:
            self.block(s.body, env, fi)
        elif t is ast.Pass:
            pass
        else:
            raise InterpError("statement %s" % t.__name__)

    def truth(self, v):
        if isinstance(v, np.ndarray):
            raise InterpError("truth value of an array")
        return bool(v)

    def store(self, target, v, env, fi):
        if isinstance(target, ast.Name):
            env[target.id] = self.coerce(v, fi.ctype(target.id), target.id)
            return
        arr = self.ev(target.value, env, fi)
        key = self.index(target.slice, arr, env, fi, target)
        arr[key] = v

    def index(self, sl, arr, env, fi, node):
        idx = list(sl.elts) if isinstance(sl, ast.Tuple) else [sl]
        if not isinstance(arr, np.ndarray):
            raise InterpError("line %d: subscript of non-array" % node.lineno)
        if len(idx) != arr.ndim:
            raise InterpError("line %d: %d indices for rank %d" % (node.lineno, len(idx), arr.ndim))
        key = []
        for ax, i in enumerate(idx):
            if isinstance(i, ast.Slice):
                key.append(slice(None))
                continue
            iv = self.ev(i, env, fi)
            if isinstance(iv, (float, np.floating)):
                raise InterpError("line %d: float index" % node.lineno)
            iv = int(iv)
            if not 0 <= iv < arr.shape[ax]:
                raise OutOfBounds("line %d: index %d out of bounds for axis %d with size %d in %s"
                                  % (node.lineno, iv, ax, arr.shape[ax], ast.unparse(node)))
            key.append(iv)
        return tuple(key)

    def binop(self, op, a, b, node):
        t = type(op)
        if t is ast.Add:
            return a + b
        if t is ast.Sub:
            return a - b
        if t is ast.Mult:
            return a * b
        if t is ast.Div:
            return np.float64(a) / np.float64(b)
        if t is ast.Pow:
            if isinstance(a, (int, np.integer)) and isinstance(b, (int, np.integer)):
                return int(a) ** int(b)
            return np.float64(a) ** b
        raise InterpError("operator %s" % t.__name__)

    def ev(self, n, env, fi):
        t = type(n)
        if t is ast.Constant:
            v = n.value
            if isinstance(v, float):
                return np.float64(v)
            return v
        if t is ast.Name:
            if n.id in env:
                return env[n.id]
            if n.id == "M_PI":
                return np.float64(np.pi)
            if n.id == "OPENMP":
                return self.openmp
            if n.id in self.low.funcs:
                return FPtr(n.id)
            if n.id in ("float",):
                return float
            if fi.ctype(n.id) is not None:
                raise InterpError("line %d: read of uninitialised C variable %s" % (n.lineno, n.id))
            raise InterpError("line %d: unknown name %s" % (n.lineno, n.id))
        if t is ast.BinOp:
            return self.binop(n.op, self.ev(n.left, env, fi), self.ev(n.right, env, fi), n)
        if t is ast.UnaryOp:
            v = self.ev(n.operand, env, fi)
            if isinstance(n.op, ast.Not):
                return not self.truth(v)
            return -v if isinstance(n.op, ast.USub) else v
        if t is ast.BoolOp:
            if isinstance(n.op, ast.And):
                v = True
                for e in n.values:
                    v = self.ev(e, env, fi)
                    if not self.truth(v):
                        return v
                return v
            v = False
            for e in n.values:
                v = self.ev(e, env, fi)
                if self.truth(v):
                    return v
            return v
        if t is ast.Compare:
            a = self.ev(n.left, env, fi)
            b = self.ev(n.comparators[0], env, fi)
            o = type(n.ops[0])
            if o is ast.Is:
                return a is b
            if o is ast.IsNot:
                return a is not b
            if o is ast.Eq:
                return a == b
            if o is ast.NotEq:
                return a != b
            if o is ast.Lt:
                return a < b
            if o is ast.LtE:
                return a <= b
            if o is ast.Gt:
                return a > b
            if o is ast.GtE:
                return a >= b
            raise InterpError("comparison")
        if t is ast.Subscript:
            if isinstance(n.value, ast.Attribute) and n.value.attr == "shape":
                a = self.ev(n.value.value, env, fi)
                return int(a.shape[n.slice.value])
            a = self.ev(n.value, env, fi)
            key = self.index(n.slice, a, env, fi, n)
            return a[key]
        if t is ast.Tuple:
            return tuple(self.ev(e, env, fi) for e in n.elts)
        if t is ast.Attribute:
            s = ast.unparse(n)
            if s == "np.int64":
                return np.int64
            raise InterpError("attribute " + s)
        if t is ast.Call:
            return self.callexpr(n, env, fi)
        raise InterpError("expression %s" % t.__name__)

    def callexpr(self, n, env, fi):
        name = ast.unparse(n.func)
        args = [self.ev(a, env, fi) for a in n.args]
        if name in _MATH1:
            return np.float64(_MATH1[name](np.float64(args[0])))
        if name == "atan2":
            return np.float64(np.arctan2(np.float64(args[0]), np.float64(args[1])))
        if name == "pow":
            return np.float64(np.float64(args[0]) ** np.float64(args[1]))
        if name == "isnan":
            return bool(np.isnan(args[0]))
        if name in ("max", "min"):
            return max(args) if name == "max" else min(args)
        if name == "len":
            return int(args[0].shape[0])
        if name in ("np.zeros", "np.empty"):
            dtype = np.float64
            for kw in n.keywords:
                if kw.arg == "dtype":
                    d = self.ev(kw.value, env, fi)
                    dtype = np.int64 if d is np.int64 else np.float64
                else:
                    raise InterpError("np.zeros keyword " + str(kw.arg))
            shape = args[0]
            if isinstance(shape, tuple):
                shape = tuple(int(x) for x in shape)
            else:
                shape = (int(shape),)
            if any(x < 0 for x in shape):
                raise KernelRaise("ValueError(negative dimensions)", n.lineno)
            if name == "np.zeros":
                return np.zeros(shape, dtype=dtype)
            return np.full(shape, np.nan)
        if name == "np.asarray":
            return args[0]
        if name == "openmp.omp_get_num_procs":
            return 1
        if name in ("ValueError",):
            return ("exc", name)
        if isinstance(n.func, ast.Name):
            target = None
            if n.func.id in env and isinstance(env[n.func.id], FPtr):
                target = env[n.func.id].name
            elif n.func.id in self.low.funcs:
                target = n.func.id
            if target is not None:
                kwargs = {kw.arg: self.ev(kw.value, env, fi) for kw in n.keywords}
                return self.call(target, args, kwargs)
        raise InterpError("line %d: call to %s" % (n.lineno, name))


def _as_load(target):
    import copy
    t = copy.copy(target)
    t.ctx = ast.Load()
    return t


def run(low, fname, inputs, copy=True):
    """inputs: dict param -> value (arrays are copied).  Returns ('ok', result) | ('raise', text) |
    ('oob', text) | ('error', text)"""
    fi = low.funcs[fname]
    args = []
    for nm, ct, _ in fi.params:
        if nm not in inputs:
            break
        v = inputs[nm]
        if isinstance(v, np.ndarray) and copy:
            v = v.copy()
        args.append(v)
    it = Interp(low)
    try:
        return ("ok", it.call(fname, args))
    except KernelRaise as e:
        return ("raise", str(e))
    except OutOfBounds as e:
        return ("oob", str(e))
    except InterpError as e:
        return ("error", str(e))
