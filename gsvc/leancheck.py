"""Lean/Mathlib lemma library check (thorough tier): every theorem of lean/GsLemmas.lean that a
property lists becomes one obligation with backend "lean".  The lemmas are pure mathematics
(independent of /repo); the glue between an SMT-level contract and the Lean statement is by hand
and listed as an assumption (T7)."""
import os
import re
import subprocess
import time

from .core import Obligation, DISCHARGED, ERROR, VERIF

FILE = os.path.join(VERIF, "lean", "GsLemmas.lean")
_CACHE = {}


def _run():
    if "res" in _CACHE:
        return _CACHE["res"]
    src = open(FILE).read()
    names = [(m.group(1), src[:m.start()].count("\n") + 1) for m in re.finditer(r"^theorem\s+(\w+)", src, re.M)]
    bad_words = [w for w in ("sorry", "admit", "axiom ") if re.search(r"\b%s" % re.escape(w.strip()), src)]
    t0 = time.time()
    try:
        p = subprocess.run(["lean", FILE], capture_output=True, text=True, timeout=1500)
        out = p.stdout + p.stderr
        rc = p.returncode
    except Exception as e:       # lean missing / timeout
        out, rc = "lean could not be run: %r" % (e,), 99
    dt = time.time() - t0
    err_lines = [int(m.group(1)) for m in re.finditer(r"GsLemmas\.lean:(\d+):\d+: error", out)]
    res = {"names": names, "rc": rc, "out": out[-2000:], "dt": dt, "err_lines": err_lines, "bad": bad_words}
    _CACHE["res"] = res
    return res


def add_lean_obligations(rep, prop, theorems):
    r = _run()
    starts = sorted(l for _, l in r["names"])
    for name in theorems:
        oid = "%s/lean/GsLemmas.%s" % (prop, name)
        line = dict(r["names"]).get(name)
        if line is None:
            rep.add(Obligation(oid, ERROR, "lean", 0.0, "theorem not found in lean/GsLemmas.lean"))
            continue
        nxt = min([s for s in starts if s > line] + [10 ** 9])
        errs = [e for e in r["err_lines"] if line <= e < nxt]
        if r["rc"] == 0 and not errs and not r["bad"]:
            rep.add(Obligation(oid, DISCHARGED, "lean", r["dt"] / max(len(r["names"]), 1),
                               "lean 4 + Mathlib accepted the theorem (no sorry/axiom in the file)",
                               functions=["lean/GsLemmas.lean:" + name]))
        else:
            # a failing lemma is a defect of the lemma library, not of /repo: checker error
            rep.add(Obligation(oid, ERROR, "lean", 0.0, "lean rc=%s errors at lines %s forbidden=%s\n%s"
                               % (r["rc"], errs, r["bad"], r["out"][-800:])))
    rep.trust("T7: Lean 4 kernel + Mathlib; hand-written glue between SMT-level contracts and the Lean statements")
