"""Regenerates MANIFEST.json from props/*.py metadata (MANIFEST dict in each props module) and
props/not_applicable.json.  Maintainer tool; not run by checks."""
import importlib
import json
import os
import sys

VERIF = os.path.dirname(os.path.dirname(os.path.abspath(__file__)))
sys.path.insert(0, VERIF)
BASE = "cd /repo && /venv/bin/python -m pytest -ra -q -p no:cacheprovider --timeout=900 --continue-on-collection-errors"


def main():
    ids = [json.loads(l)["id"] for l in open(os.path.join(VERIF, "properties.jsonl"))]
    na = json.load(open(os.path.join(VERIF, "props", "not_applicable.json")))
    checks = []
    not_app = []
    for pid in ids:
        p = os.path.join(VERIF, "props", pid + ".py")
        meta = None
        if os.path.exists(p) and os.path.exists(os.path.join(VERIF, "ledger", pid + ".json")):
            src = open(p).read()
            if "MANIFEST = " in src or "MANIFEST=" in src:
                ns = {}
                # metadata is a literal dict at module top: evaluate without importing engines
                import ast
                tree = ast.parse(src)
                for node in tree.body:
                    if isinstance(node, ast.Assign) and getattr(node.targets[0], "id", "") == "MANIFEST":
                        meta = ast.literal_eval(node.value)
        if meta is None:
            not_app.append({"property_id": pid, "reason": na.get(pid, "no check built yet")})
            continue
        checks.append({
            "property_id": pid,
            "quick_cmd": "./check %s --tier quick" % pid,
            "thorough_cmd": "./check %s --tier thorough" % pid,
            "evidence_file": "/verif/evidence/%s.json" % pid,
            "replay_cmd_template": "./check %s --replay {path}" % pid,
            "engine": meta["engine"],
            "level_claimed": {"category": meta["category"], "text": meta["text"],
                              "design_ref": meta.get("design_ref", "DESIGN.md section 6-" + pid)},
            "level_note": meta["level_note"],
            "technique": meta["technique"],
        })
    man = {
        "version": 1,
        "setup_cmd": "./setup.sh",
        "hooks": {"guard": "GSTOOLS_VERIF", "enable": "none needed: contracts are sidecar files under /verif/contracts, shims live in the verifier process only",
                  "baseline_off_cmd": BASE, "source_commits": [], "add_only": True},
        "engines": [
            {"name": "symrun", "path": "gsvc/symrun.py", "kind_free_text": "symbolic execution of the real Python functions on z3-backed reals; obligations discharged by z3/cvc5 (values unbounded, shapes enumerated)"},
            {"name": "kernvc", "path": "gsvc/kernvc.py", "kind_free_text": "mechanical .pyx lowering + loop-invariant VC generation for the Cython kernels; z3"},
            {"name": "frames", "path": "gsvc/frames.py", "kind_free_text": "modular write-set / alias (frame) checker over the real ast"},
        ],
        "checks": checks,
        "not_applicable": not_app,
        "notes": "See DESIGN.md. Exit 0 held / 1 violation / 2 undecided / 3 checker error.",
    }
    for e in man["engines"]:
        e["serves_properties"] = [c["property_id"] for c in checks if e["name"] in c["engine"]]
    json.dump(man, open(os.path.join(VERIF, "MANIFEST.json"), "w"), indent=1)
    import jsonschema
    jsonschema.validate(man, json.load(open("/root/.vp/MANIFEST.schema.json")))
    print("MANIFEST ok: %d checks, %d not_applicable" % (len(checks), len(not_app)))


main()
