"""Ring normal form back end: decides polynomial identities over Q modulo the ground facts
  sin(t)^2 -> 1 - cos(t)^2        (one rule per registered trig pair)
  v * (1/v) -> 1                  (only for atoms v with a hypothesis v > 0, v < 0 or v != 0)
  sqrt(t)^2 -> t                  (only if t >= 0 is a hypothesis or t is a sum of squares)
by expanding into monomials (the `ring` tactic of proof assistants).  It uses *fewer*
hypotheses than the SMT query, so a `True` answer is sound; `None` means "not decided here".
"""
from fractions import Fraction

import z3


class NotPoly(Exception):
    pass


def _mono_mul(m1, m2):
    if not m1:
        return m2
    if not m2:
        return m1
    d = dict(m1)
    for v, p in m2:
        d[v] = d.get(v, 0) + p
    return tuple(sorted(d.items()))


def p_add(a, b, sign=1):
    r = dict(a)
    for m, c in b.items():
        c2 = r.get(m, 0) + sign * c
        if c2 == 0:
            r.pop(m, None)
        else:
            r[m] = c2
    return r


def p_mul(a, b):
    r = {}
    for m1, c1 in a.items():
        for m2, c2 in b.items():
            m = _mono_mul(m1, m2)
            c = r.get(m, 0) + c1 * c2
            if c == 0:
                r.pop(m, None)
            else:
                r[m] = c
    return r


def p_const(c):
    c = Fraction(c)
    return {(): c} if c != 0 else {}


def p_var(v):
    return {((v, 1),): Fraction(1)}


class Ring:
    def __init__(self, trig_pairs=(), nonzero_ids=(), sqrt_pairs=()):
        # trig_pairs: list of (cos_term, sin_term); rule sin^2 -> 1 - cos^2
        self.atom_of = {}      # z3 ast id -> atom index
        self.atoms = []        # atom index -> z3 term
        self.sq_rules = {}     # atom s -> polynomial replacing s^2
        self.inv_of = {}       # atom v -> atom of 1/v
        self.nonzero = set(nonzero_ids)
        self.memo = {}
        for c, s in trig_pairs:
            ca, sa = self.atom(c), self.atom(s)
            self.sq_rules[sa] = p_add(p_const(1), p_mul(p_var(ca), p_var(ca)), -1)
        self._sqrt_pairs = list(sqrt_pairs)
        self.lin_rules = {}    # atom -> polynomial (from oriented hypothesis equalities)
        self._eq_sq = set()

    def add_equation_rules(self, hyps):
        """use hypotheses of the shape  atom == poly  or  atom*atom == poly  (atom an
        uninterpreted application not occurring in poly) as rewrite rules"""
        for h in hyps:
            for c in _conjuncts(h):
                if not z3.is_eq(c):
                    continue
                lhs, rhs = c.children()
                try:
                    if z3.is_app(lhs) and lhs.decl().kind() == z3.Z3_OP_UNINTERPRETED and lhs.num_args() > 0:
                        a = self.atom(lhs)
                        if a in self.lin_rules or a in self.sq_rules:
                            continue
                        rp = self.poly(rhs)
                        if any(v == a for m in rp for v, _ in m):
                            continue
                        self.lin_rules[a] = rp
                        self.memo.clear()
                    elif z3.is_app(lhs) and lhs.decl().kind() == z3.Z3_OP_MUL and lhs.num_args() == 2 \
                            and lhs.arg(0).eq(lhs.arg(1)) and z3.is_app(lhs.arg(0)) \
                            and lhs.arg(0).decl().kind() == z3.Z3_OP_UNINTERPRETED and lhs.arg(0).num_args() > 0:
                        a = self.atom(lhs.arg(0))
                        if a in self.lin_rules or a in self._eq_sq:
                            continue
                        self._eq_sq.add(a)      # explicit equations override the Pythagoras rule
                        rp = self.poly(rhs)
                        if any(v == a for m in rp for v, _ in m):
                            continue
                        self.sq_rules[a] = rp
                        self.memo.clear()
                except NotPoly:
                    continue

    def add_sqrt_rules(self):
        for t, r in self._sqrt_pairs:
            try:
                self.sq_rules[self.atom(r)] = self.poly(t)
            except NotPoly:
                pass

    def atom(self, t):
        k = t.get_id()
        if k not in self.atom_of:
            self.atom_of[k] = len(self.atoms)
            self.atoms.append(t)
        return self.atom_of[k]

    def poly(self, t):
        k = t.get_id()
        if k in self.memo:
            return self.memo[k][1]
        r = self._poly(t)
        self.memo[k] = (t, r)      # keep `t` alive: z3 re-uses ast ids after garbage collection
        return r

    def _poly(self, t):
        if z3.is_rational_value(t):
            return p_const(Fraction(t.numerator_as_long(), t.denominator_as_long()))
        if z3.is_int_value(t):
            return p_const(t.as_long())
        if not z3.is_app(t):
            raise NotPoly()
        k = t.decl().kind()
        ch = t.children()
        if k == z3.Z3_OP_ADD:
            r = {}
            for c in ch:
                r = p_add(r, self.poly(c))
            return r
        if k == z3.Z3_OP_SUB:
            r = self.poly(ch[0])
            for c in ch[1:]:
                r = p_add(r, self.poly(c), -1)
            return r
        if k == z3.Z3_OP_UMINUS:
            return p_mul(p_const(-1), self.poly(ch[0]))
        if k == z3.Z3_OP_MUL:
            r = p_const(1)
            for c in ch:
                r = self.reduce(p_mul(r, self.poly(c)))
            return r
        if k == z3.Z3_OP_DIV:
            num, den = self.poly(ch[0]), self.poly(ch[1])
            if len(den) == 1 and () in den:
                return p_mul(num, p_const(1 / den[()]))
            # single-atom (times constant) denominators only
            if len(den) == 1:
                (m, c), = den.items()
                if len(m) == 1 and m[0][1] == 1 and self.atoms[m[0][0]].get_id() in self.nonzero:
                    v = m[0][0]
                    if v not in self.inv_of:
                        self.inv_of[v] = self.atom(1 / self.atoms[v])
                    return p_mul(p_mul(num, p_const(1 / c)), p_var(self.inv_of[v]))
            raise NotPoly()
        if k == z3.Z3_OP_POWER:
            if z3.is_rational_value(ch[1]) and ch[1].denominator_as_long() == 1:
                n = ch[1].numerator_as_long()
                if 0 <= n <= 64:
                    r = p_const(1)
                    b = self.poly(ch[0])
                    for _ in range(n):
                        r = self.reduce(p_mul(r, b))
                    return r
            raise NotPoly()
        if k == z3.Z3_OP_TO_REAL:
            return self.poly(ch[0])
        if k == z3.Z3_OP_UNINTERPRETED:
            return p_var(self.atom(t))
        raise NotPoly()

    def reduce(self, p):
        changed = True
        while changed:
            changed = False
            out = {}
            for m, c in p.items():
                md = dict(m)
                # v * inv(v) -> 1
                for v, iv in self.inv_of.items():
                    if v in md and iv in md:
                        k = min(md[v], md[iv])
                        md[v] -= k
                        md[iv] -= k
                        changed = True
                repl = None
                for v, rule in self.lin_rules.items():
                    if md.get(v, 0) >= 1:
                        md[v] -= 1
                        repl = rule
                        changed = True
                        break
                if repl is None:
                    for s, rule in self.sq_rules.items():
                        if md.get(s, 0) >= 2:
                            md[s] -= 2
                            repl = rule
                            changed = True
                            break
                m2 = tuple(sorted((v, pw) for v, pw in md.items() if pw > 0))
                term = {m2: c}
                if repl is not None:
                    term = p_mul(term, repl)
                out = p_add(out, term)
            p = out
        return p

    def is_zero(self, t):
        return not self.reduce(self.poly(t))

    # --- rational functions: (numerator polynomial, list of denominator factor polynomials) ----
    def rat(self, t):
        k = ("rat", t.get_id())
        if k in self.memo:
            return self.memo[k][1]
        r = self._rat(t)
        self.memo[k] = (t, r)
        return r

    def _prod(self, polys):
        r = p_const(1)
        for q in polys:
            r = self.reduce(p_mul(r, q))
        return r

    def _rat(self, t):
        try:
            return self.poly(t), []
        except NotPoly:
            pass
        if not z3.is_app(t):
            raise NotPoly()
        k = t.decl().kind()
        ch = t.children()
        if k in (z3.Z3_OP_ADD, z3.Z3_OP_SUB):
            parts = [self.rat(c) for c in ch]
            dens = []
            for _, d in parts:
                dens = dens + d
            num = {}
            for i, (n, d) in enumerate(parts):
                other = []
                for j, (_, d2) in enumerate(parts):
                    if j != i:
                        other = other + d2
                term = self.reduce(p_mul(n, self._prod(other)))
                num = p_add(num, term, -1 if (k == z3.Z3_OP_SUB and i > 0) else 1)
            return num, dens
        if k == z3.Z3_OP_UMINUS:
            n, d = self.rat(ch[0])
            return p_mul(p_const(-1), n), d
        if k == z3.Z3_OP_MUL:
            num, dens = p_const(1), []
            for c in ch:
                n, d = self.rat(c)
                num = self.reduce(p_mul(num, n))
                dens = dens + d
            return num, dens
        if k == z3.Z3_OP_DIV:
            n1, d1 = self.rat(ch[0])
            n2, d2 = self.rat(ch[1])
            # (n1/d1) / (n2/d2) = n1 * prod(d2) / (d1 * n2)
            return self.reduce(p_mul(n1, self._prod(d2))), d1 + [n2]
        if k == z3.Z3_OP_POWER and z3.is_rational_value(ch[1]) and ch[1].denominator_as_long() == 1:
            e = ch[1].numerator_as_long()
            n, d = self.rat(ch[0])
            if 0 <= e <= 16:
                return self._prod([n] * e), d * e
        raise NotPoly()

    def _norm(self, q):
        q = self.reduce(q)
        if not q:
            return None
        lead = min(q)              # a canonical monomial
        c = q[lead]
        return frozenset((m, v / c) for m, v in q.items())

    def set_nonzero_polys(self, hyps):
        self.nz = set()
        for h in hyps:
            for c in _conjuncts(h):
                if not z3.is_app(c):
                    continue
                k = c.decl().kind()
                ch = c.children()
                pair = None
                if k in (z3.Z3_OP_GT, z3.Z3_OP_LT, z3.Z3_OP_DISTINCT) and len(ch) == 2:
                    pair = ch
                elif k == z3.Z3_OP_NOT and z3.is_app(ch[0]):
                    k2 = ch[0].decl().kind()
                    if k2 in (z3.Z3_OP_EQ, z3.Z3_OP_LE, z3.Z3_OP_GE) and len(ch[0].children()) == 2 \
                            and ch[0].children()[0].sort() == z3.RealSort():
                        pair = ch[0].children()
                if pair is None:
                    continue
                try:
                    n = self._norm(p_add(self.poly(pair[0]), self.poly(pair[1]), -1))
                except NotPoly:
                    continue
                if n is not None:
                    self.nz.add(n)

    def den_nonzero(self, q):
        q = self.reduce(q)
        if len(q) == 1 and () in q:
            return True
        n = self._norm(q)
        if n is None:
            return False
        if n in self.nz:
            return True
        # a product of known-nonzero atoms
        if len(q) == 1:
            (m, c), = q.items()
            return all(self.atoms[v].get_id() in self.nonzero for v, _ in m)
        return False

    def is_zero_rat(self, t):
        num, dens = self.rat(t)
        if self.reduce(num):
            return False
        return all(self.den_nonzero(d) for d in dens)


def _conjuncts(f):
    if z3.is_and(f):
        out = []
        for c in f.children():
            out.extend(_conjuncts(c))
        return out
    return [f]


def nonzero_atoms(hyps):
    ids = set()
    for h in hyps:
        for c in _conjuncts(h):
            if not z3.is_app(c):
                continue
            k = c.decl().kind()
            ch = c.children()
            if k in (z3.Z3_OP_GT, z3.Z3_OP_LT) and len(ch) == 2:
                a, b = ch
                if z3.is_rational_value(b) and b.numerator_as_long() == 0 and z3.is_const(a):
                    ids.add(a.get_id())
                if z3.is_rational_value(a) and a.numerator_as_long() == 0 and z3.is_const(b):
                    ids.add(b.get_id())
            if k == z3.Z3_OP_GT and len(ch) == 2 and z3.is_rational_value(ch[1]) and \
                    ch[1].numerator_as_long() > 0 and z3.is_const(ch[0]):
                ids.add(ch[0].get_id())
            if k == z3.Z3_OP_NOT and z3.is_eq(ch[0]):
                a, b = ch[0].children()
                if z3.is_rational_value(b) and b.numerator_as_long() == 0 and z3.is_const(a):
                    ids.add(a.get_id())
            if k == z3.Z3_OP_DISTINCT and len(ch) == 2:
                a, b = ch
                if z3.is_rational_value(b) and b.numerator_as_long() == 0 and z3.is_const(a):
                    ids.add(a.get_id())
    return ids


def prove_equalities(goal, trig_pairs, hyps, sqrt_pairs=()):
    """goal: z3 formula; returns True if it is a conjunction of equalities that all reduce to 0"""
    try:
        ring = Ring(trig_pairs, nonzero_atoms(hyps), sqrt_pairs)
        ring.add_sqrt_rules()
        ring.add_equation_rules(hyps)
        for c in _conjuncts(goal):
            if z3.is_true(c):
                continue
            if not z3.is_eq(c):
                return None
            a, b = c.children()
            try:
                ok = ring.is_zero(a - b)
            except NotPoly:
                ok = False
            if not ok:
                if getattr(ring, "nz", None) is None:
                    ring.set_nonzero_polys(hyps)
                if not ring.is_zero_rat(a - b):
                    return None
        return True
    except (NotPoly, RecursionError):
        return None
