"""Expression layer shared by the kernvc VC generator and the native replay harness.

* ``Tr``     translates Python expression asts (lowered kernel code *and* contract/spec text)
             into z3 terms over symbolic values ``V``;
* ``Specs``  registry of the recursive spec functions (sums with unfold axioms, definitions);
* ``Native`` evaluates the same contract text on numpy arrays / floats (replay, ground search).

Sort codes used in spec signatures:
  I Int, R Real, B Bool, S string code, F function code,
  A1/A2 real arrays of rank 1/2, A1i/A2i int arrays, A2n real rank-2 array *with NaN flags*.
"""
from __future__ import annotations

import ast
import math

import z3

INT, REAL, BOOL = z3.IntSort(), z3.RealSort(), z3.BoolSort()
A1 = z3.ArraySort(INT, REAL)
A2 = z3.ArraySort(INT, A1)
A1I = z3.ArraySort(INT, INT)
A2I = z3.ArraySort(INT, A1I)
A1B = z3.ArraySort(INT, BOOL)
A2B = z3.ArraySort(INT, A1B)


class SpecError(Exception):
    """Malformed contract / construct the VC generator cannot express: checker error."""


_fresh_n = [0]
FRESH_LOG = []


def fresh(name, sort):
    _fresh_n[0] += 1
    c = z3.Const("%s!%d" % (name, _fresh_n[0]), sort)
    FRESH_LOG.append(c)
    return c


def arr_sort(nd, elem):
    if elem == "real":
        return A1 if nd == 1 else A2
    if elem == "int":
        return A1I if nd == 1 else A2I
    if elem == "bool":
        return A1B if nd == 1 else A2B
    raise SpecError("array element kind " + elem)


_STR_CODES = {}


def str_code(s):
    if s not in _STR_CODES:
        _STR_CODES[s] = 1000 + len(_STR_CODES)
    return _STR_CODES[s]


class V:
    """symbolic value"""
    __slots__ = ("k", "t", "nd", "elem", "shape", "nan", "items", "isnone", "origin")

    def __init__(self, k, t=None, nd=0, elem=None, shape=None, nan=None, items=None, isnone=None,
                 origin=None):
        self.k = k              # int real bool str fptr obj arr tuple none
        self.t = t
        self.nd = nd
        self.elem = elem
        self.shape = shape
        self.nan = nan          # companion Bool array (NaN flags) or None
        self.items = items
        self.isnone = isnone    # for k == 'obj': Bool term "is None"
        self.origin = origin    # for views: (base name, 'row', index term)

    def __repr__(self):
        return "V(%s,%s)" % (self.k, self.t)


def vint(t):
    return V("int", t if z3.is_expr(t) else z3.IntVal(int(t)))


def vreal(t):
    return V("real", t)


def vbool(t):
    return V("bool", t if z3.is_expr(t) else z3.BoolVal(bool(t)))


def to_real(v):
    if v.k == "real":
        return v.t
    if v.k == "int":
        return z3.ToReal(v.t)
    if v.k == "bool":
        return z3.If(v.t, z3.RealVal(1), z3.RealVal(0))
    raise SpecError("cannot use %s as a real" % v.k)


def to_bool(v):
    if v.k == "bool":
        return v.t
    if v.k == "int":
        return v.t != 0
    raise SpecError("cannot use %s as a truth value" % v.k)


# uninterpreted; names prefixed so that they do not shadow theory symbols of cvc5 (sqrt, sin, ...)
UF_MATH = {n: z3.Function("libm_" + n, REAL, REAL) for n in ("cos", "sin", "sqrt", "acos")}
UF_MATH["atan2"] = z3.Function("libm_atan2", REAL, REAL, REAL)
UF_MATH["pow"] = z3.Function("libm_pow", REAL, REAL, REAL)
M_PI = z3.Const("M_PI", REAL)
OPENMP = z3.Const("OPENMP", BOOL)
COL = {"real": z3.Function("col", A2, INT, A1), "int": z3.Function("coli", A2I, INT, A1I)}
BACKGROUND = [M_PI > z3.RealVal("3.14159"), M_PI < z3.RealVal("3.1416")]

SORTS = {"I": INT, "R": REAL, "B": BOOL, "S": INT, "F": INT, "A1": A1, "A2": A2, "A1i": A1I,
         "A2i": A2I, "A2n": A2, "A2u": A2I}


class SpecFn:
    def __init__(self, name, d):
        self.name = name
        self.params = list(d["params"])
        self.ret = d.get("ret", "R")
        self.sum = d.get("sum")          # (boundvar, lo_text, upper_param)
        self.term = d.get("term")
        self.body = d.get("body")
        self.doc = d.get("doc", "")
        sorts = []
        for _, s in self.params:
            sorts.append(SORTS[s])
            if s == "A2n":
                sorts.append(A2B)
        self.uf = z3.Function("spec_" + name, *(sorts + [SORTS[self.ret]]))
        self._term_ast = ast.parse(self.term, mode="eval").body if self.term else None
        self._body_ast = ast.parse(self.body, mode="eval").body if self.body else None
        self._lo_ast = ast.parse(self.sum[1], mode="eval").body if self.sum else None


class Specs:
    def __init__(self, table):
        self.fns = {n: SpecFn(n, d) for n, d in table.items()}
        self.by_decl = {f.uf.name(): f for f in self.fns.values()}

    # -- helpers to go between V and flat z3 argument lists --------------------------------------
    def flatten(self, fn, vals):
        out = []
        if len(vals) != len(fn.params):
            raise SpecError("spec function %s expects %d arguments, got %d"
                            % (fn.name, len(fn.params), len(vals)))
        for (pn, s), v in zip(fn.params, vals):
            if s in ("I", "S", "F"):
                if v.k not in ("int", "str", "fptr"):
                    raise SpecError("%s(%s): expected Int, got %s" % (fn.name, pn, v.k))
                out.append(v.t)
            elif s == "R":
                out.append(to_real(v))
            elif s == "B":
                out.append(to_bool(v))
            else:
                nd = 1 if s.startswith("A1") else 2
                elem = "int" if s.endswith("i") or s.endswith("u") else "real"
                if v.k != "arr" or v.nd != nd or v.elem != elem:
                    raise SpecError("%s(%s): expected %s array, got %r/%s/%s"
                                    % (fn.name, pn, s, v.k, v.nd, v.elem))
                out.append(v.t)
                if s == "A2n":
                    out.append(v.nan if v.nan is not None
                               else z3.K(INT, z3.K(INT, z3.BoolVal(False))))
        return out

    def unflatten(self, fn, args):
        env = {}
        i = 0
        for pn, s in fn.params:
            a = args[i]
            i += 1
            if s == "I":
                env[pn] = V("int", a)
            elif s == "S":
                env[pn] = V("str", a)
            elif s == "F":
                env[pn] = V("fptr", a)
            elif s == "R":
                env[pn] = V("real", a)
            elif s == "B":
                env[pn] = V("bool", a)
            else:
                nd = 1 if s.startswith("A1") else 2
                elem = "int" if s.endswith("i") or s.endswith("u") else "real"
                nan = None
                if s == "A2n":
                    nan = args[i]
                    i += 1
                env[pn] = V("arr", a, nd=nd, elem=elem, shape=None, nan=nan)
        return env

    def wrap(self, fn, term):
        return V({"I": "int", "R": "real", "B": "bool", "S": "str", "F": "fptr"}[fn.ret], term)

    def apply(self, name, vals):
        fn = self.fns[name]
        return self.wrap(fn, fn.uf(*self.flatten(fn, vals)))

    # -- definitional instances -----------------------------------------------------------------
    def instance(self, app):
        """ground definitional equation for one application term of a spec UF"""
        fn = self.by_decl[app.decl().name()]
        if fn.sum is None and fn.body is None:
            return z3.BoolVal(True)          # opaque (uninterpreted) spec function: no definition
        args = [app.arg(i) for i in range(app.num_args())]
        env = self.unflatten(fn, args)
        tr = Tr(self, env, mode="spec")
        if fn.sum:
            bv, _, up = fn.sum
            n = env[up].t
            lo = tr.ev(fn._lo_ast)
            nm1 = z3.simplify(n - 1)
            env2 = dict(env)
            env2[bv] = V("int", nm1)
            term = Tr(self, env2, mode="spec").ev(fn._term_ast)
            args2 = list(args)
            # position of the upper parameter in the flat list
            pos = 0
            for pn, s in fn.params:
                if pn == up:
                    break
                pos += 2 if s == "A2n" else 1
            args2[pos] = nm1
            prev = fn.uf(*args2)
            if fn.ret == "I":
                if term.k == "bool":
                    tt = z3.If(term.t, z3.IntVal(1), z3.IntVal(0))
                elif term.k == "int":
                    tt = term.t
                else:
                    raise SpecError("sum %s: integer sum with %s term" % (fn.name, term.k))
                zero = z3.IntVal(0)
            else:
                tt = to_real(term)
                zero = z3.RealVal(0)
            return app == z3.If(n <= lo.t, zero, prev + tt)
        body = tr.ev(fn._body_ast)
        if fn.ret == "R":
            return app == to_real(body)
        if fn.ret == "B":
            return app == to_bool(body)
        return app == body.t

    def quantified_axiom(self, name):
        fn = self.fns[name]
        consts = []
        for pn, s in fn.params:
            consts.append(z3.Const("q_" + pn, SORTS[s]))
            if s == "A2n":
                consts.append(z3.Const("q_" + pn + "_nan", A2B))
        app = fn.uf(*consts)
        eq = self.instance(app)
        return z3.ForAll(consts, eq, patterns=[app])

    def collect_apps(self, exprs, seen_ids=None):
        """all ground applications of spec UFs inside the given formulas"""
        out = []
        seen = set() if seen_ids is None else seen_ids
        names = self.by_decl

        memo = {}
        keep = []       # z3 re-uses ast ids after garbage collection: keep every keyed term alive

        def has_var(e):
            k = e.get_id()
            if k in memo:
                return memo[k]
            keep.append(e)
            r = False
            if z3.is_var(e):
                r = True
            elif z3.is_quantifier(e):
                r = has_var(e.body())
            elif z3.is_app(e):
                r = any(has_var(c) for c in e.children())
            memo[k] = r
            return r

        def walk(e):
            k = e.get_id()
            if k in seen:
                return
            seen.add(k)
            keep.append(e)
            if z3.is_quantifier(e):
                walk(e.body())
                return
            if z3.is_app(e):
                if e.decl().name() in names and e.num_args() and not has_var(e):
                    out.append(e)
                for c in e.children():
                    walk(c)
        for e in exprs:
            walk(e)
        return out

    def col_instances(self, exprs):
        """ground instances  col(A, j)[x] == A[x][j]  for every such select occurring"""
        out = []
        seen = set()
        keep = []

        def walk(e):
            k = e.get_id()
            if k in seen:
                return
            seen.add(k)
            keep.append(e)
            if z3.is_quantifier(e):
                walk(e.body())
                return
            if z3.is_app(e):
                if z3.is_select(e) and z3.is_app(e.arg(0)) and e.arg(0).decl().name() in ("col", "coli"):
                    c = e.arg(0)
                    try:
                        out.append(e == z3.Select(z3.Select(c.arg(0), e.arg(1)), c.arg(1)))
                    except z3.Z3Exception:
                        pass
                for ch in e.children():
                    walk(ch)
        for e in exprs:
            walk(e)
        return out


# ------------------------------------------------------------------------------------------------
class Tr:
    """Python expression ast -> symbolic value.  ``mode`` 'code' (lowered kernel expressions, with
    obligation hooks) or 'spec' (contract text: adds forall / implies / ite / spec functions)."""

    def __init__(self, specs, env, mode="spec", hooks=None, abbrev=None, funcs=None,
                 entry_env=None, old_env=None):
        self.specs = specs
        self.env = env
        self.mode = mode
        self.hooks = hooks          # object with on_read/on_div/on_call/... (code mode)
        self.abbrev = abbrev or {}
        self.funcs = funcs or {}    # module function name -> code (function pointers)
        self.entry_env = entry_env
        self.old_env = old_env

    # ---------------------------------------------------------------------------------------------
    def ev(self, n):
        m = getattr(self, "ev_" + type(n).__name__, None)
        if m is None:
            raise SpecError("line %s: expression %s not supported" % (getattr(n, "lineno", "?"),
                                                                     type(n).__name__))
        return m(n)

    def ev_Constant(self, n):
        v = n.value
        if isinstance(v, bool):
            return vbool(v)
        if isinstance(v, int):
            return vint(v)
        if isinstance(v, float):
            return vreal(z3.RealVal(repr(v)))
        if isinstance(v, str):
            return V("str", z3.IntVal(str_code(v)))
        if v is None or v is Ellipsis:
            return V("none")
        raise SpecError("constant %r" % (v,))

    def ev_Name(self, n):
        if n.id in self.env:
            return self.env[n.id]
        if n.id == "M_PI":
            return vreal(M_PI)
        if n.id == "OPENMP":
            return vbool(OPENMP)
        if n.id in self.funcs:
            return V("fptr", z3.IntVal(self.funcs[n.id]))
        raise SpecError("line %s: unknown name %r" % (getattr(n, "lineno", "?"), n.id))

    def ev_Tuple(self, n):
        return V("tuple", items=[self.ev(e) for e in n.elts])

    def ev_UnaryOp(self, n):
        v = self.ev(n.operand)
        if isinstance(n.op, ast.Not):
            return vbool(z3.Not(to_bool(v)))
        if isinstance(n.op, ast.USub):
            if v.k == "int":
                return vint(-v.t)
            return vreal(-to_real(v))
        if isinstance(n.op, ast.UAdd):
            return v
        raise SpecError("unary operator")

    def ev_BoolOp(self, n):
        vals = [to_bool(self.ev(e)) for e in n.values]
        return vbool(z3.And(*vals) if isinstance(n.op, ast.And) else z3.Or(*vals))

    def ev_BinOp(self, n):
        a, b = self.ev(n.left), self.ev(n.right)
        return self.binop(n.op, a, b, n)

    def binop(self, op, a, b, n=None):
        if isinstance(op, ast.Pow):
            if not (b.k == "int" and z3.is_int_value(b.t) and 0 <= b.t.as_long() <= 8):
                raise SpecError("line %s: '**' only with a literal exponent 0..8"
                                % getattr(n, "lineno", "?"))
            e = b.t.as_long()
            if a.k == "int":
                r = z3.IntVal(1)
                for _ in range(e):
                    r = r * a.t
                return vint(r)
            r = z3.RealVal(1)
            for i in range(e):
                r = to_real(a) if i == 0 else r * to_real(a)
            return vreal(r)
        for x in (a, b):
            if x.k not in ("int", "real", "bool"):
                raise SpecError("line %s: arithmetic on %s" % (getattr(n, "lineno", "?"), x.k))
        if isinstance(op, ast.Div):
            if a.k == "int" and b.k == "int" and self.mode == "code":
                raise SpecError("line %s: int / int division is outside the subset"
                                % getattr(n, "lineno", "?"))
            den = to_real(b)
            if self.hooks is not None:
                self.hooks.on_div(den, n)
            return vreal(to_real(a) / den)
        both_int = a.k in ("int", "bool") and b.k in ("int", "bool")
        if both_int:
            x = a.t if a.k == "int" else z3.If(a.t, z3.IntVal(1), z3.IntVal(0))
            y = b.t if b.k == "int" else z3.If(b.t, z3.IntVal(1), z3.IntVal(0))
            if isinstance(op, ast.Add):
                return vint(x + y)
            if isinstance(op, ast.Sub):
                return vint(x - y)
            if isinstance(op, ast.Mult):
                return vint(x * y)
        else:
            x, y = to_real(a), to_real(b)
            if isinstance(op, ast.Add):
                return vreal(x + y)
            if isinstance(op, ast.Sub):
                return vreal(x - y)
            if isinstance(op, ast.Mult):
                return vreal(x * y)
        raise SpecError("line %s: operator %s not supported" % (getattr(n, "lineno", "?"),
                                                               type(op).__name__))

    def ev_Compare(self, n):
        if len(n.ops) != 1:
            # a <= b < c  (spec text only)
            if self.mode != "spec":
                raise SpecError("chained comparison in code")
            parts = []
            left = n.left
            for op, right in zip(n.ops, n.comparators):
                parts.append(self.ev_Compare(ast.Compare(left=left, ops=[op], comparators=[right])).t)
                left = right
            return vbool(z3.And(*parts))
        op = n.ops[0]
        a, b = self.ev(n.left), self.ev(n.comparators[0])
        if isinstance(op, (ast.Is, ast.IsNot)):
            if b.k != "none":
                raise SpecError("'is' only against None")
            if a.k == "obj":
                r = a.isnone
            elif a.k == "none":
                r = z3.BoolVal(True)
            else:
                r = z3.BoolVal(False)
            return vbool(r if isinstance(op, ast.Is) else z3.Not(r))
        if a.k in ("str", "fptr") or b.k in ("str", "fptr"):
            if a.k != b.k or not isinstance(op, (ast.Eq, ast.NotEq)):
                raise SpecError("line %s: comparison of %s with %s" % (getattr(n, "lineno", "?"), a.k, b.k))
            return vbool(a.t == b.t if isinstance(op, ast.Eq) else a.t != b.t)
        if a.k == "bool" and b.k == "bool":
            if isinstance(op, ast.Eq):
                return vbool(a.t == b.t)
            if isinstance(op, ast.NotEq):
                return vbool(a.t != b.t)
        if a.k == "arr" and b.k == "arr" and isinstance(op, ast.Eq) and self.mode == "spec":
            return vbool(a.t == b.t)
        if a.k in ("int", "bool") and b.k in ("int", "bool"):
            x = a.t if a.k == "int" else z3.If(a.t, z3.IntVal(1), z3.IntVal(0))
            y = b.t if b.k == "int" else z3.If(b.t, z3.IntVal(1), z3.IntVal(0))
        else:
            if a.k == "obj" or b.k == "obj":
                x = a.t if a.k in ("obj", "int") else None
                y = b.t if b.k in ("obj", "int") else None
                if x is None or y is None:
                    raise SpecError("comparison with python object")
            else:
                x, y = to_real(a), to_real(b)
        r = {ast.Eq: lambda: x == y, ast.NotEq: lambda: x != y, ast.Lt: lambda: x < y,
             ast.LtE: lambda: x <= y, ast.Gt: lambda: x > y, ast.GtE: lambda: x >= y}.get(type(op))
        if r is None:
            raise SpecError("comparison operator %s" % type(op).__name__)
        return vbool(r())

    # -- subscripts --------------------------------------------------------------------------------
    def ev_Attribute(self, n):
        raise SpecError("line %s: attribute %s outside X.shape[k] / np.f(...)"
                        % (getattr(n, "lineno", "?"), n.attr))

    def index_list(self, sl):
        return list(sl.elts) if isinstance(sl, ast.Tuple) else [sl]

    def ev_Subscript(self, n, want_nan=False):
        # X.shape[k]
        if isinstance(n.value, ast.Attribute) and n.value.attr == "shape":
            a = self.ev(n.value.value)
            if a.k != "arr" or not isinstance(n.slice, ast.Constant):
                raise SpecError("line %s: shape of a non-array / non-literal axis" % getattr(n, "lineno", "?"))
            if a.shape is None:
                raise SpecError("shape of an abstract spec array is not available")
            if n.slice.value >= a.nd:
                raise SpecError("line %s: axis %d of a rank-%d array" % (getattr(n, "lineno", "?"),
                                                                         n.slice.value, a.nd))
            return vint(a.shape[n.slice.value])
        a = self.ev(n.value)
        if a.k == "tuple":
            if not isinstance(n.slice, ast.Constant):
                raise SpecError("tuple index must be literal")
            return a.items[n.slice.value]
        if a.k != "arr":
            raise SpecError("line %s: subscript of %s" % (getattr(n, "lineno", "?"), a.k))
        idx = self.index_list(n.slice)
        if len(idx) != a.nd:
            # A[i] on rank 2 -> row (spec text only)
            if len(idx) == 1 and a.nd == 2 and self.mode == "spec" and not isinstance(idx[0], ast.Slice):
                i = self.ev(idx[0]).t
                return V("arr", z3.Select(a.t, i), nd=1, elem=a.elem,
                         shape=[a.shape[1]] if a.shape else None,
                         nan=z3.Select(a.nan, i) if a.nan is not None else None)
            raise SpecError("line %s: %d indices for a rank-%d array" % (getattr(n, "lineno", "?"),
                                                                         len(idx), a.nd))
        slices = [isinstance(i, ast.Slice) for i in idx]
        if any(slices):
            if a.nd != 2 or all(slices):
                raise SpecError("line %s: view form outside the subset" % getattr(n, "lineno", "?"))
            if slices[1]:       # A[d, :]  row view
                d = self.ev(idx[0])
                if self.hooks is not None:
                    self.hooks.on_view(n, a, 0, d.t)
                base = n.value.id if isinstance(n.value, ast.Name) else None
                return V("arr", z3.Select(a.t, d.t), nd=1, elem=a.elem,
                         shape=[a.shape[1]] if a.shape else None,
                         nan=z3.Select(a.nan, d.t) if a.nan is not None else None,
                         origin=(base, "row", d.t))
            j = self.ev(idx[1])  # A[:, j]  column view
            if self.hooks is not None:
                self.hooks.on_view(n, a, 1, j.t)
            if a.nan is not None:
                raise SpecError("column view of a NaN-flagged array")
            return V("arr", COL[a.elem](a.t, j.t), nd=1, elem=a.elem,
                     shape=[a.shape[0]] if a.shape else None, origin=(None, "col", j.t))
        its = [self.ev(i) for i in idx]
        for i in its:
            if i.k != "int":
                raise SpecError("line %s: non-integer index" % getattr(n, "lineno", "?"))
        its = [i.t for i in its]
        if self.hooks is not None:
            self.hooks.on_read(n, a, its, want_nan)
        t = a.t
        for i in its:
            t = z3.Select(t, i)
        if want_nan:
            if a.nan is None:
                raise SpecError("line %s: isnan() of an element of an array without NaN flag"
                                % getattr(n, "lineno", "?"))
            f = a.nan
            for i in its:
                f = z3.Select(f, i)
            return vbool(f)
        return V(a.elem, t)

    # -- calls ------------------------------------------------------------------------------------
    def ev_Call(self, n):
        f = n.func
        if isinstance(f, ast.Attribute):
            name = ast.unparse(f)
        elif isinstance(f, ast.Name):
            name = f.id
        else:
            raise SpecError("call form")
        # math intrinsics -------------------------------------------------------------------
        if name in ("cos", "sin", "sqrt", "acos"):
            (a,) = n.args
            return vreal(UF_MATH[name](to_real(self.ev(a))))
        if name == "atan2":
            a, b = n.args
            return vreal(UF_MATH["atan2"](to_real(self.ev(a)), to_real(self.ev(b))))
        if name == "pow":
            a, b = n.args
            bb = self.ev(b)
            if bb.k == "int" and z3.is_int_value(bb.t):
                return self.binop(ast.Pow(), vreal(to_real(self.ev(a))), bb, n)
            return vreal(UF_MATH["pow"](to_real(self.ev(a)), to_real(bb)))
        if name == "fabs":
            x = to_real(self.ev(n.args[0]))
            return vreal(z3.If(x >= 0, x, -x))
        if name == "isnan":
            a = n.args[0]
            if not isinstance(a, ast.Subscript):
                raise SpecError("line %s: isnan() only of an array element" % getattr(n, "lineno", "?"))
            return self.ev_Subscript(a, want_nan=True)
        if name in ("max", "min"):
            a, b = [self.ev(x) for x in n.args]
            if a.k == "int" and b.k == "int":
                c = a.t >= b.t if name == "max" else a.t <= b.t
                return vint(z3.If(c, a.t, b.t))
            x, y = to_real(a), to_real(b)
            c = x >= y if name == "max" else x <= y
            return vreal(z3.If(c, x, y))
        if name == "len":
            a = self.ev(n.args[0])
            if a.k != "arr" or a.shape is None:
                raise SpecError("len() of non-array")
            return vint(a.shape[0])
        if self.mode == "spec":
            r = self.spec_call(name, n)
            if r is not None:
                return r
        if self.hooks is not None:
            return self.hooks.on_call(name, n, self)
        raise SpecError("line %s: call to %r not supported here" % (getattr(n, "lineno", "?"), name))

    def bound(self, var, body_fn, lo=None, hi=None):
        x = z3.Const(var, INT)
        env2 = dict(self.env)
        env2[var] = V("int", x)
        sub = Tr(self.specs, env2, "spec", None, self.abbrev, self.funcs, self.entry_env, self.old_env)
        return x, sub

    def spec_call(self, name, n):
        if name in ("forall", "exists"):
            var, lo, hi, body = n.args
            if not isinstance(var, ast.Name):
                raise SpecError("forall(var, lo, hi, body)")
            x, sub = self.bound(var.id, None)
            lo_t, hi_t = self.ev(lo).t, self.ev(hi).t
            b = to_bool(sub.ev(body))
            rng = z3.And(lo_t <= x, x < hi_t)
            if name == "forall":
                xs = [x]
                # merge directly nested bounded quantifiers into one prenex quantifier
                while z3.is_quantifier(b) and b.is_forall() and z3.is_implies(b.body()):
                    cs = [z3.Const(b.var_name(i), b.var_sort(i)) for i in range(b.num_vars())]
                    inner = z3.substitute_vars(b.body(), *reversed(cs))
                    rng = z3.And(rng, inner.arg(0))
                    b = inner.arg(1)
                    xs.extend(cs)
                pats = _patterns(b, xs)
                q = None
                if pats:
                    try:
                        q = z3.ForAll(xs, z3.Implies(rng, b), patterns=pats)
                    except z3.Z3Exception:
                        good = []
                        for pt in pats:
                            try:
                                z3.ForAll(xs, z3.Implies(rng, b), patterns=[pt])
                                good.append(pt)
                            except z3.Z3Exception:
                                pass
                        q = z3.ForAll(xs, z3.Implies(rng, b), patterns=good) if good else None
                if q is None:
                    q = z3.ForAll(xs, z3.Implies(rng, b))
            else:
                q = z3.Exists([x], z3.And(rng, b))
            return vbool(q)
        if name == "implies":
            a, b = n.args
            return vbool(z3.Implies(to_bool(self.ev(a)), to_bool(self.ev(b))))
        if name == "iff":
            a, b = n.args
            return vbool(to_bool(self.ev(a)) == to_bool(self.ev(b)))
        if name == "ite":
            c, a, b = [self.ev(x) for x in n.args]
            if a.k == "int" and b.k == "int":
                return vint(z3.If(to_bool(c), a.t, b.t))
            if a.k == "bool" and b.k == "bool":
                return vbool(z3.If(to_bool(c), a.t, b.t))
            if a.k in ("fptr", "str") and b.k == a.k:
                return V(a.k, z3.If(to_bool(c), a.t, b.t))
            return vreal(z3.If(to_bool(c), to_real(a), to_real(b)))
        if name == "b2i":
            return vint(z3.If(to_bool(self.ev(n.args[0])), z3.IntVal(1), z3.IntVal(0)))
        if name == "real":
            return vreal(to_real(self.ev(n.args[0])))
        if name == "int32":
            x = self.ev(n.args[0]).t
            return vbool(z3.And(x >= -2 ** 31, x < 2 ** 31))
        if name == "fptr":
            nm = n.args[0].value
            if nm not in self.funcs:
                raise SpecError("fptr(%r): no such function in this module" % nm)
            return V("fptr", z3.IntVal(self.funcs[nm]))
        if name == "col":
            a, j = self.ev(n.args[0]), self.ev(n.args[1])
            return V("arr", COL[a.elem](a.t, j.t), nd=1, elem=a.elem,
                     shape=[a.shape[0]] if a.shape else None)
        if name == "row":
            a, d = self.ev(n.args[0]), self.ev(n.args[1])
            return V("arr", z3.Select(a.t, d.t), nd=1, elem=a.elem,
                     shape=[a.shape[1]] if a.shape else None,
                     nan=z3.Select(a.nan, d.t) if a.nan is not None else None)
        if name == "entry":
            if self.entry_env is None:
                raise SpecError("entry(x) used outside a loop invariant")
            return self.entry_env[n.args[0].id]
        if name == "old":
            if self.old_env is None:
                raise SpecError("old(x) used outside an ensures clause")
            return self.old_env[n.args[0].id]
        if name == "is_none":
            a = self.ev(n.args[0])
            return vbool(a.isnone if a.k == "obj" else z3.BoolVal(a.k == "none"))
        if name in self.abbrev:
            params, body = self.abbrev[name]
            if len(params) != len(n.args):
                raise SpecError("abbreviation %s expects %d arguments" % (name, len(params)))
            env2 = dict(self.env)
            for p, a in zip(params, n.args):
                env2[p] = self.ev(a)
            sub = Tr(self.specs, env2, "spec", None, self.abbrev, self.funcs, self.entry_env, self.old_env)
            return sub.ev(body)
        if name in self.specs.fns:
            return self.specs.apply(name, [self.ev(a) for a in n.args])
        return None


def _patterns(body, xs):
    """array-select terms that contain every bound variable (each is one alternative pattern)"""
    found = []
    seen = set()
    xids = {x.get_id() for x in xs}
    memo = {}

    keep = list(xs)

    def vars_in(e):
        k = e.get_id()
        if k in memo:
            return memo[k]
        keep.append(e)
        r = set()
        if k in xids:
            r = {k}
        elif z3.is_app(e):
            for c in e.children():
                r = r | vars_in(c)
        memo[k] = r
        return r

    ite_memo = {}

    def has_ite(e):
        k = e.get_id()
        if k in ite_memo:
            return ite_memo[k]
        keep.append(e)
        if not z3.is_app(e):
            r = z3.is_quantifier(e)
        elif e.decl().kind() == z3.Z3_OP_ITE:
            r = True
        else:
            r = any(has_ite(c) for c in e.children())
        ite_memo[k] = r
        return r

    def walk(e):
        if e.get_id() in seen or not z3.is_app(e):
            return
        seen.add(e.get_id())
        keep.append(e)
        if z3.is_select(e) and vars_in(e) == xids and not has_ite(e) and not any(
                z3.is_app(c) and c.decl().kind() in (z3.Z3_OP_ADD, z3.Z3_OP_SUB, z3.Z3_OP_MUL)
                for c in [e.arg(1)] + ([e.arg(0).arg(1)] if z3.is_select(e.arg(0)) else [])):
            found.append(e)
        for c in e.children():
            walk(c)
    walk(body)
    uniq, ids = [], set()
    for f in found:
        if f.get_id() not in ids:
            ids.add(f.get_id())
            uniq.append(f)
    return uniq[:4]


def parse_abbrev(table):
    """{'Cj(b, J)': 'text'} -> {name: ([params], ast)}"""
    out = {}
    for head, text in (table or {}).items():
        h = ast.parse(head, mode="eval").body
        if isinstance(h, ast.Name):
            out[h.id] = ([], ast.parse(text, mode="eval").body)
        else:
            out[h.func.id] = ([a.id for a in h.args], ast.parse(text, mode="eval").body)
    return out


# ================================================================================================
# native evaluation of contract text
# ================================================================================================
class Mismatch(Exception):
    pass


class Native:
    """Evaluates contract expressions on numpy arrays / Python scalars.

    ``==`` between floats is a tolerance comparison (rel 1e-9, abs 1e-12; NaN never equal); integer
    comparisons are exact.  The first failing equality is recorded in ``self.fail``."""

    RTOL, ATOL = 1e-9, 1e-12

    def __init__(self, spec_table, env, abbrev=None, funcs=None, entry_env=None, old_env=None):
        self.table = spec_table
        self.env = env
        self.abbrev = abbrev or {}
        self.funcs = funcs or {}
        self.entry_env = entry_env
        self.old_env = old_env
        self.fail = None
        self._memo = {}
        self._parsed = {}

    def sub(self, env):
        s = Native(self.table, env, self.abbrev, self.funcs, self.entry_env, self.old_env)
        s._memo = self._memo
        s._parsed = self._parsed
        s.fail = self.fail
        return s

    def check(self, text_or_ast):
        n = ast.parse(text_or_ast, mode="eval").body if isinstance(text_or_ast, str) else text_or_ast
        self.fail = None
        return bool(self.ev(n))

    def ev(self, n):
        import numpy as np
        t = type(n)
        if t is ast.Constant:
            return n.value
        if t is ast.Name:
            if n.id in self.env:
                return self.env[n.id]
            if n.id == "M_PI":
                return math.pi
            if n.id == "OPENMP":
                return False
            if n.id in self.funcs:
                return ("fptr", n.id)
            raise SpecError("native: unknown name " + n.id)
        if t is ast.Tuple:
            return tuple(self.ev(e) for e in n.elts)
        if t is ast.UnaryOp:
            v = self.ev(n.operand)
            if isinstance(n.op, ast.Not):
                return not v
            return -v if isinstance(n.op, ast.USub) else v
        if t is ast.BoolOp:
            if isinstance(n.op, ast.And):
                for e in n.values:
                    if not self.ev(e):
                        return False
                return True
            for e in n.values:
                if self.ev(e):
                    return True
            return False
        if t is ast.BinOp:
            a, b = self.ev(n.left), self.ev(n.right)
            with np.errstate(all="ignore"):
                if isinstance(n.op, ast.Add):
                    return a + b
                if isinstance(n.op, ast.Sub):
                    return a - b
                if isinstance(n.op, ast.Mult):
                    return a * b
                if isinstance(n.op, ast.Div):
                    return np.float64(a) / np.float64(b)
                if isinstance(n.op, ast.Pow):
                    return a ** b
            raise SpecError("native: operator")
        if t is ast.Compare:
            left = self.ev(n.left)
            for op, rn in zip(n.ops, n.comparators):
                right = self.ev(rn)
                if not self.cmp(op, left, right, n):
                    return False
                left = right
            return True
        if t is ast.Subscript:
            if isinstance(n.value, ast.Attribute) and n.value.attr == "shape":
                return int(self.ev(n.value.value).shape[n.slice.value])
            a = self.ev(n.value)
            if isinstance(a, tuple):
                return a[n.slice.value]
            idx = list(n.slice.elts) if isinstance(n.slice, ast.Tuple) else [n.slice]
            key = tuple(slice(None) if isinstance(i, ast.Slice) else int(self.ev(i)) for i in idx)
            for kk, dim in zip(key, a.shape):
                if not isinstance(kk, slice) and not (0 <= kk < dim):
                    raise Mismatch("spec reads %s out of bounds (contract is ill-formed here)"
                                   % ast.unparse(n))
            r = a[key]
            return r
        if t is ast.Call:
            return self.call(n)
        raise SpecError("native: node " + t.__name__)

    def cmp(self, op, a, b, n):
        import numpy as np
        if isinstance(op, (ast.Is, ast.IsNot)):
            r = a is b
            return r if isinstance(op, ast.Is) else not r
        if isinstance(a, np.ndarray) or isinstance(b, np.ndarray):
            if isinstance(op, ast.Eq):
                return bool(np.array_equal(a, b))
        isf = isinstance(a, (float, np.floating)) or isinstance(b, (float, np.floating))
        if isinstance(op, ast.Eq):
            if isf:
                ok = bool(np.isfinite(a) and np.isfinite(b) and
                          abs(a - b) <= self.ATOL + self.RTOL * max(abs(a), abs(b))) or \
                    (a == b)
            else:
                ok = a == b
            if not ok and self.fail is None:
                self.fail = {"clause": ast.unparse(n), "lhs": _py(a), "rhs": _py(b), "bindings": {}}
            return ok
        if isinstance(op, ast.NotEq):
            return a != b
        if isinstance(op, ast.Lt):
            return a < b
        if isinstance(op, ast.LtE):
            return a <= b
        if isinstance(op, ast.Gt):
            return a > b
        if isinstance(op, ast.GtE):
            return a >= b
        raise SpecError("native: comparison")

    def call(self, n):
        import numpy as np
        name = ast.unparse(n.func)
        with np.errstate(all="ignore"):
            if name in ("cos", "sin", "sqrt"):
                return float(getattr(np, name)(np.float64(self.ev(n.args[0]))))
            if name == "acos":
                return float(np.arccos(np.float64(self.ev(n.args[0]))))
            if name == "atan2":
                return float(np.arctan2(np.float64(self.ev(n.args[0])), np.float64(self.ev(n.args[1]))))
            if name == "pow":
                return float(np.float64(self.ev(n.args[0])) ** self.ev(n.args[1]))
            if name == "fabs":
                return abs(self.ev(n.args[0]))
        if name == "isnan":
            return bool(np.isnan(self.ev(n.args[0])))
        if name == "max":
            return max(self.ev(n.args[0]), self.ev(n.args[1]))
        if name == "min":
            return min(self.ev(n.args[0]), self.ev(n.args[1]))
        if name == "len":
            return int(self.ev(n.args[0]).shape[0])
        if name in ("forall", "exists"):
            var, lo, hi, body = n.args
            lo_v, hi_v = int(self.ev(lo)), int(self.ev(hi))
            for x in range(lo_v, hi_v):
                s = self.sub(dict(self.env, **{var.id: x}))
                s._bound = tuple(getattr(self, "_bound", ())) + (var.id,)
                r = bool(s.ev(body))
                if self.fail is None and s.fail is not None:
                    self.fail = s.fail
                    self.fail.setdefault("bindings", {})[var.id] = x
                if name == "forall" and not r:
                    return False
                if name == "exists" and r:
                    return True
            return name == "forall"
        if name == "implies":
            return (not self.ev(n.args[0])) or bool(self.ev(n.args[1]))
        if name == "iff":
            return bool(self.ev(n.args[0])) == bool(self.ev(n.args[1]))
        if name == "ite":
            return self.ev(n.args[1]) if self.ev(n.args[0]) else self.ev(n.args[2])
        if name == "b2i":
            return 1 if self.ev(n.args[0]) else 0
        if name == "real":
            return float(self.ev(n.args[0]))
        if name == "int32":
            return -2 ** 31 <= self.ev(n.args[0]) < 2 ** 31
        if name == "fptr":
            return ("fptr", n.args[0].value)
        if name == "col":
            return self.ev(n.args[0])[:, int(self.ev(n.args[1]))]
        if name == "row":
            return self.ev(n.args[0])[int(self.ev(n.args[1])), :]
        if name == "entry":
            return self.entry_env[n.args[0].id]
        if name == "old":
            return self.old_env[n.args[0].id]
        if name == "is_none":
            return self.ev(n.args[0]) is None
        if name in self.abbrev:
            params, body = self.abbrev[name]
            env2 = dict(self.env)
            for p, a in zip(params, n.args):
                env2[p] = self.ev(a)
            s = self.sub(env2)
            r = s.ev(body)
            if self.fail is None:
                self.fail = s.fail
            return r
        if name in self.table:
            return self.spec_apply(name, [self.ev(a) for a in n.args])
        raise SpecError("native: call to " + name)

    def spec_apply(self, name, vals):
        import numpy as np
        d = self.table[name]
        if name not in self._parsed:
            self._parsed[name] = (
                ast.parse(d["term"], mode="eval").body if d.get("term") else None,
                ast.parse(d["body"], mode="eval").body if d.get("body") else None,
                ast.parse(d["sum"][1], mode="eval").body if d.get("sum") else None)
        term, body, lo = self._parsed[name]
        env = {pn: v for (pn, _), v in zip(d["params"], vals)}
        # arrays are keyed by buffer address + layout; the memo value keeps them alive so that the
        # address cannot be re-used by another (temporary view) array while the key is in the table
        key = (name,) + tuple((v.__array_interface__["data"][0], v.shape, v.strides)
                              if isinstance(v, np.ndarray) else v for v in vals)
        if key in self._memo:
            return self._memo[key][0]
        s = self.sub(env)
        s.fail = None
        if d.get("sum"):
            bv, _, up = d["sum"]
            lo_v = int(s.ev(lo))
            acc = 0 if d.get("ret") == "I" else 0.0
            with np.errstate(all="ignore"):
                for x in range(lo_v, int(env[up])):
                    s.env[bv] = x
                    t = s.ev(term)
                    acc = acc + (int(t) if d.get("ret") == "I" else np.float64(t))
            r = acc
        else:
            r = s.ev(body)
        self._memo[key] = (r, vals)
        return r


def _py(x):
    import numpy as np
    if isinstance(x, np.generic):
        return x.item()
    if isinstance(x, np.ndarray):
        return x.tolist()
    return x
