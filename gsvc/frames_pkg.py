"""Package loader for the `frames` engine: parses the *current* gstools sources (never imports
them) and resolves names, imports, classes, properties and the syntactic site numbering."""
import ast
import os
import re

from . import frames_tables as T


class FuncInfo:
    __slots__ = ("key", "relpath", "qualname", "node", "cls", "module", "parent", "role",
                 "params", "is_method", "static")

    def __init__(self, key, relpath, qualname, node, cls, module, parent=None, role=None):
        self.key = key              # "relpath:qualname"
        self.relpath = relpath
        self.qualname = qualname
        self.node = node
        self.cls = cls              # class name or None
        self.module = module        # ModuleInfo
        self.parent = parent        # enclosing FuncInfo for nested functions
        self.role = role            # None | "getter" | "setter" | "deleter"
        a = node.args
        self.params = ([(x.arg, "pos") for x in a.posonlyargs + a.args]
                       + ([(a.vararg.arg, "var")] if a.vararg else [])
                       + [(x.arg, "kwonly") for x in a.kwonlyargs]
                       + ([(a.kwarg.arg, "kw")] if a.kwarg else []))
        decos = [ast.unparse(d) for d in node.decorator_list]
        self.static = "staticmethod" in decos
        self.is_method = cls is not None and parent is None and not self.static

    @property
    def modkey(self):
        return self.relpath[:-3].replace("/", ".")

    @property
    def oblname(self):
        return self.modkey + "." + self.qualname

    def defaults(self):
        """param name -> default expression node"""
        a = self.node.args
        out = {}
        pos = a.posonlyargs + a.args
        for p, d in zip(pos[len(pos) - len(a.defaults):], a.defaults):
            out[p.arg] = d
        for p, d in zip(a.kwonlyargs, a.kw_defaults):
            if d is not None:
                out[p.arg] = d
        return out


class ClassInfo:
    __slots__ = ("name", "module", "node", "bases", "methods", "props", "attrs")

    def __init__(self, name, module, node):
        self.name = name
        self.module = module
        self.node = node
        self.bases = []          # base class names (package classes) or dotted externals
        self.methods = {}        # name -> FuncInfo
        self.props = {}          # name -> {"getter": FuncInfo, "setter": FuncInfo, ...}
        self.attrs = {}          # class-level assignments name -> value node


class ModuleInfo:
    __slots__ = ("name", "relpath", "tree", "imports", "globals", "funcs", "classes", "src")

    def __init__(self, name, relpath, tree, src):
        self.name = name
        self.relpath = relpath
        self.tree = tree
        self.src = src
        self.imports = {}     # local name -> ("mod", dotted) | ("sym", dotted_module, name)
        self.globals = {}     # NAME -> value node (module level simple assignments)
        self.funcs = {}       # name -> FuncInfo
        self.classes = {}     # name -> ClassInfo


class Package:
    def __init__(self, src_root, pkgname="gstools", sources=None):
        """sources: optional {relpath: source text} (used by the canaries: synthetic modules)."""
        self.src_root = src_root
        self.pkgname = pkgname
        self.modules = {}        # dotted name -> ModuleInfo
        self.by_relpath = {}
        self.funcs = {}          # key -> FuncInfo
        self.classes = {}        # class name -> ClassInfo
        self.subclasses = {}     # class name -> set of (transitive) subclass names
        self.methods_by_name = {}
        self.props_by_name = {}
        self.parse_errors = []
        self._site_cache = {}
        root = os.path.join(src_root, pkgname)
        files = {}
        if sources is None:
            for dp, dn, fn in os.walk(root):
                dn.sort()
                for f in sorted(fn):
                    if f.endswith(".py"):
                        p = os.path.join(dp, f)
                        files[os.path.relpath(p, root)] = open(p, encoding="utf8").read()
        else:
            files = dict(sources)
        for rel, src in sorted(files.items()):
            self._load(rel, src)
        self._link()

    # ------------------------------------------------------------------
    def _load(self, rel, src):
        dotted = self.pkgname + "." + rel[:-3].replace(os.sep, ".")
        if dotted.endswith(".__init__"):
            dotted = dotted[: -len(".__init__")]
        try:
            tree = ast.parse(src)
        except SyntaxError as e:
            self.parse_errors.append("%s: %s" % (rel, e))
            return
        m = ModuleInfo(dotted, rel, tree, src)
        self.modules[dotted] = m
        self.by_relpath[rel] = m
        self._scan_body(m, tree.body, None, None, "")

    def _imports(self, m, node, table):
        if isinstance(node, ast.Import):
            for a in node.names:
                if a.asname:
                    table[a.asname] = ("mod", a.name)
                else:
                    table[a.name.split(".")[0]] = ("mod", a.name.split(".")[0])
        elif isinstance(node, ast.ImportFrom):
            mod = node.module or ""
            if node.level:
                base = m.name.split(".")
                if not m.relpath.endswith("__init__.py"):
                    base = base[:-1]
                base = base[: len(base) - (node.level - 1)]
                mod = ".".join(base + ([mod] if mod else []))
            for a in node.names:
                table[a.asname or a.name] = ("sym", mod, a.name)

    def _scan_body(self, m, body, cls, parent, prefix):
        for node in body:
            if isinstance(node, (ast.Import, ast.ImportFrom)) and cls is None and parent is None:
                self._imports(m, node, m.imports)
            elif isinstance(node, (ast.If, ast.Try)) and cls is None and parent is None:
                # conditional imports at module level (config._GSTOOLS_CORE_AVAIL ...)
                for sub in ast.walk(node):
                    if isinstance(sub, (ast.Import, ast.ImportFrom)):
                        self._imports(m, sub, m.imports)
            elif isinstance(node, (ast.FunctionDef, ast.AsyncFunctionDef)):
                self._add_func(m, node, cls, parent, prefix)
            elif isinstance(node, ast.ClassDef) and parent is None and cls is None:
                ci = ClassInfo(node.name, m, node)
                for b in node.bases:
                    ci.bases.append(ast.unparse(b))
                m.classes[node.name] = ci
                self.classes[node.name] = ci
                self._scan_body(m, node.body, ci, None, node.name + ".")
            elif isinstance(node, ast.Assign) and parent is None:
                for t in node.targets:
                    if isinstance(t, ast.Name):
                        if cls is None:
                            m.globals[t.id] = node.value
                        else:
                            cls.attrs[t.id] = node.value

    def _add_func(self, m, node, cls, parent, prefix):
        role = None
        pname = node.name
        for d in node.decorator_list:
            s = ast.unparse(d)
            if s == "property":
                role = "getter"
            elif s.endswith(".setter"):
                role = "setter"
                pname = s.split(".")[0]
            elif s.endswith(".deleter"):
                role = "deleter"
                pname = s.split(".")[0]
        qual = prefix + node.name
        if role in ("setter", "deleter"):
            qual = prefix + pname + "." + role
        key = m.relpath + ":" + qual
        fi = FuncInfo(key, m.relpath, qual, node, cls.name if cls else (parent.cls if parent else None),
                      m, parent, role)
        self.funcs[key] = fi
        if parent is None:
            if cls is None:
                m.funcs[node.name] = fi
            elif role:
                cls.props.setdefault(pname, {})[role] = fi
            else:
                cls.methods[node.name] = fi
        # nested functions
        for sub in _nested_defs(node):
            self._add_func(m, sub, None, fi, qual + ".")

    def _link(self):
        for c in self.classes.values():
            self.subclasses.setdefault(c.name, set())
        changed = True
        while changed:
            changed = False
            for c in self.classes.values():
                for b in c.bases:
                    b = b.split(".")[-1]
                    if b in self.classes:
                        s = self.subclasses[b]
                        new = {c.name} | self.subclasses[c.name]
                        if not new <= s:
                            s |= new
                            changed = True
        for c in self.classes.values():
            for n, f in c.methods.items():
                self.methods_by_name.setdefault(n, []).append(f)
            for n, d in c.props.items():
                self.props_by_name.setdefault(n, []).append((c, d))
        # methods attached dynamically (covmodel.tools._init_subclass: cls.variogram = variogram)
        for f in list(self.funcs.values()):
            for node in ast.walk(f.node):
                if isinstance(node, ast.Assign) and len(node.targets) == 1:
                    t = node.targets[0]
                    if (isinstance(t, ast.Attribute) and isinstance(t.value, ast.Name)
                            and t.value.id == "cls" and isinstance(node.value, ast.Name)):
                        k = f.key + "." + node.value.id
                        if k in self.funcs:
                            self.methods_by_name.setdefault(t.attr, []).append(self.funcs[k])

    # ------------------------------------------------------------------
    def mro(self, cname):
        out = []
        todo = [cname]
        while todo:
            c = todo.pop(0)
            if c in out or c not in self.classes:
                continue
            out.append(c)
            todo.extend(b.split(".")[-1] for b in self.classes[c].bases)
        return out

    def lookup_method(self, cname, name, virtual=True, after=None):
        """FuncInfos a call `obj.name(...)` may dispatch to when obj is a `cname` (or subclass)."""
        out = []
        mro = self.mro(cname)
        if after is not None and after in mro:
            mro = mro[mro.index(after) + 1:]
        for c in mro:
            if name in self.classes[c].methods:
                out.append(self.classes[c].methods[name])
                break
        if virtual and after is None:
            for s in sorted(self.subclasses.get(cname, ())):
                if name in self.classes[s].methods:
                    f = self.classes[s].methods[name]
                    if f not in out:
                        out.append(f)
        if not out:
            # dynamically attached (name-based)
            for f in self.methods_by_name.get(name, ()):
                if f.parent is not None and f not in out:
                    out.append(f)
        return out

    def lookup_prop(self, cname, name, role, virtual=True, after=None):
        out = []
        mro = self.mro(cname)
        if after is not None and after in mro:
            mro = mro[mro.index(after) + 1:]
        found = False
        for c in mro:
            if name in self.classes[c].props:
                found = True
                if role in self.classes[c].props[name]:
                    out.append(self.classes[c].props[name][role])
                break
        if virtual and after is None:
            for s in sorted(self.subclasses.get(cname, ())):
                d = self.classes[s].props.get(name)
                if d:
                    found = True
                    if role in d and d[role] not in out:
                        out.append(d[role])
        return found, out

    def has_member(self, cname, name):
        for c in self.mro(cname):
            ci = self.classes[c]
            if name in ci.methods or name in ci.props or name in ci.attrs:
                return True
        return False

    def class_attr(self, cname, name):
        for c in self.mro(cname):
            if name in self.classes[c].attrs:
                return self.classes[c], self.classes[c].attrs[name]
        return None, None

    # ------------------------------------------------------------------
    def resolve_symbol(self, modname, name, _depth=0):
        """Resolve `name` in module `modname` -> ("fn", FuncInfo) | ("cls", ClassInfo) |
        ("mod", dotted) | ("ext", dotted) | ("glob", ModuleInfo, name) | None"""
        if _depth > 8:
            return None
        m = self.modules.get(modname)
        if m is None:
            if modname.startswith(self.pkgname + ".") or modname == self.pkgname:
                if modname in T.KERNEL_MODULES:
                    return ("kern", modname + "." + name)
                return ("ext", modname + "." + name)
            return ("ext", modname + "." + name)
        if name in m.funcs:
            return ("fn", m.funcs[name])
        if name in m.classes:
            return ("cls", m.classes[name])
        if name in m.imports:
            imp = m.imports[name]
            if imp[0] == "mod":
                return ("mod", imp[1])
            sub = imp[1] + "." + imp[2]
            if sub in self.modules:
                return ("mod", sub)
            if imp[1] in self.modules:
                return self.resolve_symbol(imp[1], imp[2], _depth + 1)
            if imp[1] in T.KERNEL_MODULES:
                return ("kern", imp[1] + "." + imp[2])
            return ("ext", imp[1] + "." + imp[2])
        if name in m.globals:
            v = m.globals[name]
            if isinstance(v, ast.Name) and v.id != name:       # alias: f2 = f
                r = self.resolve_symbol(modname, v.id, _depth + 1)
                if r is not None:
                    return r
            return ("glob", m, name)
        return None

    def resolve_dotted(self, dotted):
        """dotted module path (+ attribute) -> same tuple as resolve_symbol"""
        if dotted in self.modules:
            return ("mod", dotted)
        if "." in dotted:
            mod, name = dotted.rsplit(".", 1)
            if mod in self.modules:
                return self.resolve_symbol(mod, name)
            if mod in T.KERNEL_MODULES:
                return ("kern", dotted)
        return ("ext", dotted)

    # ------------------------------------------------------------------
    def site_numbering(self, fi):
        """Syntactic numbering of the mutation-site candidates of a function, independent of
        the analysis result (stable obligation ids): node -> (text, op, ordinal)."""
        if fi.key in self._site_cache:
            return self._site_cache[fi.key]
        cands = []
        for node in _walk_own(fi.node):
            if isinstance(node, ast.AugAssign):
                cands.append((node.lineno, node.col_offset, node.target, _txt(node.target), "aug"))
            elif isinstance(node, (ast.Assign, ast.AnnAssign)):
                tg = node.targets if isinstance(node, ast.Assign) else [node.target]
                for t in tg:
                    for el in _flatten_targets(t):
                        if isinstance(el, ast.Subscript):
                            cands.append((el.lineno, el.col_offset, el, _txt(el), "set"))
                        elif isinstance(el, ast.Attribute):
                            cands.append((el.lineno, el.col_offset, el, _txt(el), "attr"))
            elif isinstance(node, (ast.For, ast.comprehension)):
                for el in _flatten_targets(node.target):
                    if isinstance(el, ast.Subscript):
                        cands.append((el.lineno, el.col_offset, el, _txt(el), "set"))
            elif isinstance(node, ast.Delete):
                for t in node.targets:
                    if isinstance(t, ast.Subscript):
                        cands.append((t.lineno, t.col_offset, t, _txt(t), "del"))
            elif isinstance(node, ast.Call):
                cands.append((node.lineno, node.col_offset, node, _txt(node.func), "call"))
        cands.sort(key=lambda c: (c[0], c[1]))
        counts = {}
        out = {}
        for _, _, node, text, op in cands:
            k = (text, op)
            counts[k] = counts.get(k, 0) + 1
            out[id(node)] = (text, op, counts[k])
        self._site_cache[fi.key] = out
        return out


def _txt(node):
    s = ast.unparse(node)
    s = re.sub(r"\s+", "", s).replace("/", "%")
    if len(s) > 48:
        import hashlib
        s = s[:36] + "~" + hashlib.sha1(s.encode()).hexdigest()[:6]
    return s


def _flatten_targets(t):
    if isinstance(t, (ast.Tuple, ast.List)):
        for e in t.elts:
            yield from _flatten_targets(e)
    elif isinstance(t, ast.Starred):
        yield from _flatten_targets(t.value)
    else:
        yield t


def _nested_defs(fnode):
    """function definitions nested directly inside fnode (not inside deeper defs/classes)"""
    out = []
    todo = list(fnode.body)
    while todo:
        n = todo.pop(0)
        if isinstance(n, (ast.FunctionDef, ast.AsyncFunctionDef)):
            out.append(n)
            continue
        if isinstance(n, (ast.ClassDef, ast.Lambda)):
            continue
        todo.extend(ast.iter_child_nodes(n))
    return out


def _walk_own(fnode):
    """walk the body of a function without descending into nested defs / classes"""
    todo = list(fnode.body)
    while todo:
        n = todo.pop(0)
        if isinstance(n, (ast.FunctionDef, ast.AsyncFunctionDef, ast.ClassDef)):
            continue
        yield n
        todo.extend(ast.iter_child_nodes(n))


# ---------------------------------------------------------------------------------------------
def kernel_contracts(src_root, pkgname="gstools"):
    """Frame facts of the compiled kernels read from the .pyx signatures: a memoryview
    parameter declared `const` cannot be written by the kernel; a non-const memoryview is
    reported as modified unless the body contains no store to it."""
    out = {}
    notes = []
    for mod, rel in T.KERNEL_MODULES.items():
        p = os.path.join(src_root, pkgname, rel)
        try:
            src = open(p).read()
        except OSError:
            notes.append("kernel source missing: " + rel)
            continue
        for m in re.finditer(r"^def (\w+)\((.*?)\):\s*$(.*?)(?=^def |^cdef |^cpdef |\Z)", src,
                             re.S | re.M):
            name, sig, body = m.group(1), m.group(2), m.group(3)
            sig = re.sub(r"#.*", "", sig)
            params = []
            modifies = []
            depth = 0
            cur = ""
            parts = []
            for ch in sig:
                if ch in "[(":
                    depth += 1
                elif ch in "])":
                    depth -= 1
                if ch == "," and depth == 0:
                    parts.append(cur)
                    cur = ""
                else:
                    cur += ch
            if cur.strip():
                parts.append(cur)
            for prm in parts:
                prm = prm.strip()
                if not prm:
                    continue
                decl = prm.split("=")[0].strip()
                pname = decl.split()[-1]
                params.append(pname)
                is_mv = "[" in decl
                if is_mv and not decl.startswith("const "):
                    if re.search(r"^\s*%s\s*\[[^\]]*\]\s*(\+|-|\*|/)?=(?!=)" % re.escape(pname),
                                 body, re.M):
                        modifies.append(pname)
                    else:
                        notes.append("%s.%s: memoryview `%s` is not const but never written"
                                     % (mod, name, pname))
            out[mod + "." + name] = {"params": params, "modifies": modifies}
    return out, notes
