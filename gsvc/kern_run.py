"""Driver: lowering -> VC generation -> parallel obligations -> solving -> verdicts -> core.Report."""
from __future__ import annotations

import json
import os
import time

from . import core, kern_native, kern_par, kern_solve, kernvc, lower_pyx
from .kern_spec import SpecError

SAFETY_KINDS = {"bounds", "div", "nan", "intfit", "alloc", "own", "par"}
FUNCTIONAL_KINDS = {"loop", "ensures", "call", "raises"}


def _fid(low, fname):
    return "%s:%s" % (low.short if not isinstance(low, str) else lower_pyx.short_of(low), fname)


def outside_subset(e):
    """the *code* uses a construct that the lowering / VC generation does not support (as opposed to a
    contract that does not fit the code, which stays a checker error)"""
    if isinstance(e, lower_pyx.LoweringError):
        return True
    msg = str(e)
    return isinstance(e, SpecError) and not msg.startswith("contract of") \
        and "outside the" in msg and "subset" in msg


def ledger_ids(rep):
    led = rep._ledger() or {}
    return sorted(set(led.get("discharged", []) + led.get("bounded", [])))


class KernRun:
    def __init__(self, rep, prop, contracts_mod, tier, seed, override=None):
        self.rep = rep
        self.prop = prop
        self.mod = contracts_mod
        self.tier = tier
        self.seed = seed
        self.eng = kernvc.Engine(contracts_mod.CONTRACTS, contracts_mod.SPEC, override=override)
        self.search_cache = {}
        self.stale = {}
        for rp, low in self.eng.lows.items():
            self.stale[rp] = lower_pyx.stale_lines(low)
        self._unlowered_done = set()
        self.files = list(lower_pyx.KERNEL_FILES)

    # ------------------------------------------------------------------------------------------
    def unlowered(self, relpath, fname, message, only=None):
        """The source of one function (fname) or of a whole kernel file (fname=None) is outside the
        supported subset: nothing can be proved about it.  Every obligation of it that is frozen in
        the ledger (proof obligations; the artefact.* ones are reported by kern_diff) is emitted as
        UNDECIDED, which core reports as VIOLATION ... no-failing-input-found.  Returns the number of
        obligations emitted."""
        key = (relpath, fname)
        if key in self._unlowered_done:
            return 0
        self._unlowered_done.add(key)
        if fname is None:
            prefix = "%s/%s." % (self.prop, lower_pyx.short_of(relpath)[:-4].replace("/", "."))
        else:
            prefix = "%s/%s/" % (self.prop, self.eng.id_stem(relpath, fname))
        n = 0
        for oid in ledger_ids(self.rep):
            if not oid.startswith(prefix) or "/artefact." in oid or (only and only not in oid):
                continue
            fn = fname if fname is not None else oid[len(prefix):].split("/")[0]
            self.rep.add(core.Obligation(oid, core.UNDECIDED, backend="kernvc",
                                         detail="source outside the supported subset: %s" % message,
                                         functions=[_fid(relpath, fn)]))
            n += 1
        what = lower_pyx.short_of(relpath) + (":" + fname if fname else "")
        self.rep.extra.setdefault("lowering_failed", {})[what] = message
        self.rep.notes.append("source of %s is outside the supported subset (%s): %d ledger obligations "
                              "reported as undecided" % (what, message, n))
        return n

    # ------------------------------------------------------------------------------------------
    def lowering_evidence(self, relpaths):
        rep = self.rep
        dropped = {}
        types = {}
        self.files = list(relpaths)         # the kernel files this property is about (see run)
        for rp in relpaths:
            if rp in self.eng.unlowered:
                rep.extra.setdefault("lowering_failed", {})[lower_pyx.short_of(rp)] = self.eng.unlowered[rp]
        relpaths = [rp for rp in relpaths if rp in self.eng.lows]
        for rp in relpaths:
            low = self.eng.lows[rp]
            dropped[low.short] = low.dropped
            types[low.short] = {fn: fi.to_json() for fn, fi in low.funcs.items()}
        rep.extra["lowering_dropped"] = dropped
        rep.extra["lowering_types"] = types
        rep.extra["lowering_source_sha"] = {self.eng.lows[rp].short: self.eng.lows[rp].sha for rp in relpaths}
        rep.extra["generated_c_stale_lines"] = {self.eng.lows[rp].short: self.stale[rp] for rp in relpaths}
        for rp in relpaths:
            if self.stale[rp]:
                rep.notes.append("WARNING: generated C / .so next to %s is stale w.r.t. the .pyx (%d lines differ)"
                                 % (self.eng.lows[rp].short, len(self.stale[rp])))

    # ------------------------------------------------------------------------------------------
    def run(self, targets, kinds, only=None, workers=12):
        """targets: [(relpath, fname)]; kinds: set of obligation kinds to emit"""
        rep = self.rep
        eng = self.eng
        pragma_cache = {}
        vcs = []
        par_summary = {}
        t_gen = time.time()
        for rp in self.files:               # files that could not be lowered at all have no targets
            if rp in eng.unlowered and (rp, None) not in self._unlowered_done:
                if not self.unlowered(rp, None, eng.unlowered[rp], only=only) and not only:
                    rep.error("%s cannot be lowered (%s) and the ledger has no obligation of it to report"
                              % (lower_pyx.short_of(rp), eng.unlowered[rp]))
        for rp, fn in targets:
            if rp in eng.unlowered:
                continue
            low = eng.lows[rp]
            if fn in low.failed:
                if not self.unlowered(rp, fn, low.failed[fn], only=only) and not only:
                    rep.add(core.Obligation("%s/%s/vcgen" % (self.prop, eng.id_stem(low, fn)), core.ERROR,
                                            backend="kernvc", detail="source outside the supported subset and no "
                                            "ledger obligation to report: %s" % low.failed[fn],
                                            functions=[_fid(low, fn)]))
                continue
            if fn not in low.funcs:
                rep.add(core.Obligation("%s/%s/present" % (self.prop, eng.id_stem(low, fn)), core.ERROR,
                                        detail="function %s not found in %s" % (fn, low.short),
                                        functions=[_fid(low, fn)]))
                continue
            try:
                vc = eng.generate(rp, fn)
            except (SpecError, lower_pyx.LoweringError, KeyError) as e:
                if outside_subset(e) and self.unlowered(rp, fn, str(e), only=only):
                    continue
                # the code of a function that verified on the pinned tree (it has ledger obligations) was
                # restructured so that the sidecar contract (loop invariants keyed by loop variable) no longer
                # fits: its obligations can no longer be established -> reported, not a checker crash
                if isinstance(e, SpecError) and self.unlowered(
                        rp, fn, "the sidecar contract no longer fits the restructured code (%s)" % e, only=only):
                    continue
                rep.add(core.Obligation("%s/%s/vcgen" % (self.prop, eng.id_stem(low, fn)), core.ERROR,
                                        backend="kernvc",
                                        detail="VC generation failed (construct outside the subset or contract "
                                               "does not fit the code): %r" % (e,), functions=[_fid(low, fn)]))
                continue
            # parallel regions
            regs = []
            uniq = {}
            for r in vc.par_regions:
                info = {"line": r["line"], "kind": r["kind"]}
                if r["kind"] == "prange":
                    info.update(kern_par.ownership(vc, r))      # every path instance of the region
                if id(r["node"]) in uniq:                        # dataflow facts: once per source region
                    continue
                uniq[id(r["node"])] = r
                r.update(kern_par.dataflow(vc, r))
                info["private_scalars"] = r.get("private_scalars")
                regs.append(info)
            if vc.par_regions:
                if rp not in pragma_cache:
                    pragma_cache[rp] = kern_par.parse_pragmas(low)
                aud = kern_par.pragma_audit(vc, list(uniq.values()), pragma_cache[rp], bool(self.stale[rp]))
                par_summary[_fid(low, fn)] = {"regions": regs, "pragma_audit": aud if aud is not None
                                              else "no generated C next to the .pyx: audit skipped"}
            vcs.append((rp, fn, vc))
        t_gen = time.time() - t_gen
        # jobs -----------------------------------------------------------------------------------
        jobs, index = [], []
        for rp, fn, vc in vcs:
            for oid in vc.order:
                ob = vc.obls[oid]
                if ob.kind not in kinds:
                    continue
                if only and only not in oid:
                    continue
                for qi, q in enumerate(ob.queries):
                    jobs.append({"facts": q.facts, "goal": q.goal, "kind": "vc", "params": vc.param_vals})
                    index.append(("vc", rp, fn, oid, qi))
            if "canary" in kinds and not only:
                for nm, facts, goal in vc.canaries:
                    jobs.append({"facts": facts, "goal": goal, "kind": "canary", "params": None})
                    index.append(("canary", rp, fn, nm, 0))
                import z3
                jobs.append({"facts": vc.cover, "goal": z3.BoolVal(False), "kind": "cover", "params": None})
                index.append(("cover", rp, fn, "cover", 0))
        t_solve = time.time()
        results = kern_solve.solve_all(eng.specs, jobs, workers=workers)
        t_solve = time.time() - t_solve
        byobl = {}
        for (kind, rp, fn, oid, qi), r in zip(index, results):
            byobl.setdefault((kind, rp, fn, oid), []).append(r)
        # verdicts -------------------------------------------------------------------------------
        for rp, fn, vc in vcs:
            low = eng.lows[rp]
            contract = vc.c
            fid = _fid(low, fn)
            for oid in vc.order:
                ob = vc.obls[oid]
                if ob.kind not in kinds or (only and only not in oid):
                    continue
                full = "%s/%s" % (self.prop, oid)
                if ob.static is not None:
                    ok, detail = ob.static
                    rep.add(core.Obligation(full, core.DISCHARGED if ok else core.FAILED, backend=ob.backend,
                                            detail=detail, witness=ob.witness, functions=[fid],
                                            replay=None if ok else {"kind": "static", "function": fid,
                                                                    "obligation": oid}))
                    continue
                rs = byobl.get(("vc", rp, fn, oid), [])
                tsum = sum(r["time"] for r in rs)
                if any(r["status"] == "error" for r in rs):
                    bad = [r for r in rs if r["status"] == "error"][0]
                    rep.add(core.Obligation(full, core.ERROR, time_s=tsum, detail=bad["detail"], functions=[fid]))
                    continue
                if rs and all(r["status"] == "unsat" for r in rs):
                    bk = sorted({r["backend"] for r in rs})
                    rep.add(core.Obligation(full, core.DISCHARGED, backend="+".join(bk), time_s=tsum,
                                            detail="%d queries" % len(rs), functions=[fid]))
                    continue
                self.refute(full, ob, rs, low, fn, contract, fid, tsum)
            if "canary" in kinds and not only:
                for nm, facts, goal in vc.canaries:
                    rs = byobl.get(("canary", rp, fn, nm), [])
                    rep.canaries += 1
                    if rs and rs[0]["status"] != "unsat":
                        rep.canaries_ok += 1
                    else:
                        rep.error("vacuity canary %s/%s/%s was PROVED (contradictory assumptions)"
                                  % (self.prop, eng.id_stem(low, fn), nm))
                rs = byobl.get(("cover", rp, fn, "cover"), [])
                if rs and rs[0]["status"] == "sat":
                    rep.covers += 1
                elif rs and rs[0]["status"] == "unsat":
                    rep.error("precondition of %s is unsatisfiable" % fid)
                else:
                    if kern_native.cover(eng, low, fn, contract, self.seed):
                        rep.covers += 1
                    else:
                        rep.notes.append("cover of %s: solver unknown and no generated input satisfied "
                                         "the precondition" % fid)
        rep.extra.setdefault("parallel", {}).update(par_summary)
        rep.extra.setdefault("timing", {}).update({"vcgen_s": round(t_gen, 2), "solve_wall_s": round(t_solve, 2),
                                                   "queries": len(jobs)})
        for a in sorted(eng.assumed):
            rep.assume(a)
        for st in ("np.zeros (fresh zero array of the given shape)", "np.empty (fresh array, arbitrary content)",
                   "np.asarray (same data)", "len(memoryview) = shape[0]", "max/min/fabs (exact)",
                   "cos/sin/sqrt/acos/atan2 (uninterpreted)", "openmp.omp_get_num_procs (int >= 1)"):
            rep.stubs.add(st)
        for h in sorted(eng.hints_used):
            rep.hints.add(h)
        rep.extra["contracts_used"] = sorted({getattr(vc, "contract_key", "") for _, _, vc in vcs})
        rep.extra["calls_by_contract"] = sorted("%s -> %s" % c for c in eng.calls)
        return vcs

    # ------------------------------------------------------------------------------------------
    def refute(self, full, ob, rs, low, fn, contract, fid, tsum):
        """not proved: model replay, then ground/native search; never FAILED without a reproduced witness"""
        rep = self.rep
        eng = self.eng
        log = "; ".join("[q%d %s] %s" % (i, r["status"], r["detail"]) for i, r in enumerate(rs)
                        if r["status"] != "unsat")[:1500]
        classes = contract.get("classes", {})
        label = ob.split[0] if ob.split else None
        cls_name = ob.split[1] if ob.split else None
        fi = low.funcs[fn]

        def accept(inp):
            # obligations of one split case only accept inputs of that input class; unsplit obligations
            # of a function with splits exclude the classes of all *other* split cases that are known
            # deviations (so that a known finding is not attributed to an unrelated obligation)
            if cls_name is not None and cls_name in classes:
                return classes[cls_name](inp)
            if cls_name is None and "coincident" in classes and contract.get("splits"):
                return not classes["coincident"](inp)
            return True

        witness = None
        how = ""
        for r in rs:
            mi = r.get("model_inputs")
            if not mi:
                continue
            try:
                inp = kern_native.to_native_inputs(fi, mi)
                if not accept(inp):
                    continue
                res = kern_native.check(eng, low, fn, contract, inp)
            except Exception as e:          # malformed model values: fall through to the search
                log += "; model replay failed: %r" % (e,)
                continue
            if res["verdict"] == "mismatch":
                witness, how = res, "solver model replayed natively"
                break
        if witness is None:
            key = (low.relpath, fn, id(contract), cls_name)
            if key not in self.search_cache:
                budget = 25.0 if self.tier == "quick" else 60.0
                self.search_cache[key] = kern_native.search(eng, low, fn, contract, self.seed,
                                                            budget_s=budget, max_trials=1500, accept=accept)
            w, stats = self.search_cache[key]
            log += "; ground search: %s" % json.dumps(stats)
            if w is not None:
                witness, how = w, "ground/native search (VERIF_SEED=%d)" % self.seed
        if witness is not None:
            wclass = []
            if label:
                wclass.append(label.replace("_", " "))
            for cn, pred in classes.items():
                try:
                    if pred(kern_native.inputs_from_json(fi, witness["inputs"])):
                        wclass.append(cn)
                except Exception:
                    pass
            wit = {"class": ", ".join(wclass) if wclass else "contract violated on concrete input",
                   "found_by": how, "function": fid, "inputs": witness["inputs"],
                   "interpretation_of_lowered_pyx": witness.get("interp"),
                   "compiled_kernel": witness.get("compiled"),
                   "compiled_equals_interpretation": witness.get("compiled_equals_interp"),
                   "observed_result": witness.get("interp_result")}
            rep.add(core.Obligation(full, core.FAILED, time_s=tsum, detail=log, witness=wit, functions=[fid],
                                    replay={"kind": "kernel", "relpath": low.relpath, "function": fn,
                                            "contract": getattr(eng.vcs[(low.relpath, fn)], "contract_key", None),
                                            "inputs": witness["inputs"]}))
        else:
            rep.add(core.Obligation(full, core.UNDECIDED, time_s=tsum,
                                    detail="not proved and no failing input found: " + log,
                                    functions=[fid]))


def replay_file(path, contracts_mod, override=None):
    """./check Cxx --replay path : re-run the recorded inputs against the current tree"""
    data = json.load(open(path))
    rp = data.get("replay") or {}
    if rp.get("kind") != "kernel":
        print("replay: obligation %s has no concrete input (%s)" % (data.get("obligation"), rp.get("kind")))
        print(json.dumps(data.get("witness"), indent=1)[:2000])
        return 1 if data.get("status") == core.FAILED else 2
    eng = kernvc.Engine(contracts_mod.CONTRACTS, contracts_mod.SPEC, override=override)
    low = eng.lows.get(rp["relpath"])
    if low is None or rp["function"] in low.tainted:
        print("replay: the current source of %s:%s is outside the supported subset (%s); the recorded input "
              "cannot be interpreted" % (rp["relpath"], rp["function"],
                                         eng.unlowered.get(rp["relpath"]) or low.failed))
        return 2
    fi = low.funcs[rp["function"]]
    contract = contracts_mod.CONTRACTS[rp["contract"]]
    inp = kern_native.inputs_from_json(fi, rp["inputs"])
    res = kern_native.check(eng, low, rp["function"], contract, inp)
    print(json.dumps({k: v for k, v in res.items() if k != "inputs"}, indent=1, default=str)[:3000])
    if res["verdict"] == "mismatch":
        print("REPRODUCED: %s" % data.get("obligation"))
        return 1
    print("not reproduced (verdict %s)" % res["verdict"])
    return 0
