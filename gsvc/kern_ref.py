"""Reference evaluations of the DEFINING SUMS of the 9 compiled kernel entry points (property C15).

Independent of the lowering and of the .pyx text: the functions below are written from the
mathematical definitions (the documented formulas of the randomization / Fourier / kriging /
variogram-estimation methods) as direct sums over modes and direct enumerations of point pairs in
plain numpy / python.  They are the reference side of the bounded obligation
``C15/<module>.<entry>/artefact.defining_sums`` (driver: ``kern_diff.run_differential`` / ``_one_defsum``): the
*installed compiled module* is called the way the Python callers call it (all arguments positional,
``num_threads`` last; see ``SIGNATURES``) and must agree with the reference within a tolerance for
re-ordered floating-point sums, and its results for the different ``num_threads`` values must be
bit-identical to each other.  Only the compiled module is needed (``kern_native.load_compiled_rel``),
so the obligation also works when the .pyx cannot be lowered.

Definitions (x_i: evaluation points = columns of ``pos``; k_j: wave vectors = columns of
``cov_samples`` / ``modes``; phase_ji = k_j . x_i over the ``pos.shape[0]`` coordinates):

  summate            r_i      = sum_j  z1_j cos(phase_ji) + z2_j sin(phase_ji)
  summate_incompr    r_di     = sum_j (e1_d - k_dj k_0j / |k_j|^2) (z1_j cos(phase_ji) + z2_j sin(phase_ji))
  summate_fourier    r_i      = sum_j  sf_j (z1_j cos(phase_ji) + z2_j sin(phase_ji))
  calc_field_krige(_and_variance)   with K = krig_mat, v_i = column i of krig_vecs, c = cond:
                     field_i  = c^T K v_i ,   variance_i = v_i^T K v_i
  unstructured       for every bin [b_k, b_{k+1}) the set P_k of (pair, field) combinations: pairs
                     a < b of points with b_k <= dist(a, b) < b_{k+1} (Euclidean, or haversine of
                     lat/lon in degrees on the unit sphere), fields m whose value is not NaN at both
                     points;  N_k = |P_k| (returned as counts, int64), dz = f_m(b) - f_m(a);
                       Matheron 'm':  gamma_k = 1/(2 N_k) sum dz^2
                       Cressie  'c':  gamma_k = ((1/N_k sum |dz|^0.5)^4 / (0.457 + 0.494/N_k + 0.045/N_k^2)) / 2
                     an empty bin gives 0 (and count 0)
  directional        as unstructured (Euclidean), per direction d: only pairs whose pair vector v
                     passes the direction test:  angle between v and the direction line
                     acos(|v.e_d| / |v|) < angles_tol (coincident points and |v.e_d| >= |v| pass), and,
                     if bandwidth > 0, distance of v from the direction line |v - (v.e_d) e_d| < bandwidth;
                     ``separate_dirs``: a pair belongs to the FIRST direction it passes only
                     (the kernel-level semantics of DESIGN.md Appendix A; the coincident-point
                     consequence of it is known finding F12 under C08)
  structured         along axis 0 of a regular grid f[n, J]:  lag k = 1..n-1 uses all (f[i, j], f[i+k, j]);
                     lag 0 gives 0;  Matheron / Cressie as above
  ma_structured      the same with pairs restricted to mask == 0 at both grid nodes

Conventions checked against the callers in gstools/variogram/variogram.py, field/generator.py,
krige/base.py: estimator_type 'm' / 'c', distance_type 'e' / 'h'; unstructured and directional
return (variogram, counts), directional with a leading direction axis; (ma_)structured return the
variogram only; ValueError for len(pos) != len(f), fewer than 2 bin edges, angles_tol <= 0,
haversine with dim != 2.
"""
from __future__ import annotations

import math

import numpy as np

RTOL = 1e-9
ATOL = 1e-12        # scaled by max(1, largest finite |reference value|)

FIELD = "src/gstools/field/summator.pyx"
KRIGE = "src/gstools/krige/krigesum.pyx"
VARIO = "src/gstools/variogram/estimator.pyx"

# positional calling convention of the compiled kernels (num_threads follows as last positional)
SIGNATURES = {
    "summate": ("cov_samples", "z_1", "z_2", "pos"),
    "summate_incompr": ("cov_samples", "z_1", "z_2", "pos"),
    "summate_fourier": ("spectrum_factor", "modes", "z_1", "z_2", "pos"),
    "calc_field_krige_and_variance": ("krig_mat", "krig_vecs", "cond"),
    "calc_field_krige": ("krig_mat", "krig_vecs", "cond"),
    "unstructured": ("f", "bin_edges", "pos", "estimator_type", "distance_type"),
    "directional": ("f", "bin_edges", "pos", "direction", "angles_tol", "bandwidth", "separate_dirs",
                    "estimator_type"),
    "structured": ("f", "estimator_type"),
    "ma_structured": ("f", "mask", "estimator_type"),
}
ENTRY_POINTS = [
    (FIELD, "summate"), (FIELD, "summate_incompr"), (FIELD, "summate_fourier"),
    (KRIGE, "calc_field_krige_and_variance"), (KRIGE, "calc_field_krige"),
    (VARIO, "unstructured"), (VARIO, "directional"), (VARIO, "structured"), (VARIO, "ma_structured"),
]
_DTYPES = {"mask": np.uint8}


class RefRaise(Exception):
    """the documented behaviour for these inputs is a ValueError"""


# ------------------------------------------------------------------------------------------------
# mode summation
# ------------------------------------------------------------------------------------------------
def _amplitudes(k, z_1, z_2, pos):
    """a_ji = z1_j cos(k_j . x_i) + z2_j sin(k_j . x_i)      (modes x points)"""
    dim = pos.shape[0]
    n_modes = k.shape[1]
    phase = np.einsum("dj,di->ji", k[:dim], pos)
    return z_1[:n_modes, None] * np.cos(phase) + z_2[:n_modes, None] * np.sin(phase)


def ref_summate(cov_samples, z_1, z_2, pos):
    return _amplitudes(cov_samples, z_1, z_2, pos).sum(axis=0)


def ref_summate_incompr(cov_samples, z_1, z_2, pos):
    dim = pos.shape[0]
    k = cov_samples[:dim]
    e1 = np.zeros(dim)
    e1[0] = 1.0
    with np.errstate(all="ignore"):
        projector = e1[:, None] - k * k[0][None, :] / (k * k).sum(axis=0)[None, :]      # dim x modes
        return np.einsum("dj,ji->di", projector, _amplitudes(k, z_1, z_2, pos))


def ref_summate_fourier(spectrum_factor, modes, z_1, z_2, pos):
    n_modes = modes.shape[1]
    return (spectrum_factor[:n_modes, None] * _amplitudes(modes, z_1, z_2, pos)).sum(axis=0)


# ------------------------------------------------------------------------------------------------
# kriging
# ------------------------------------------------------------------------------------------------
def ref_calc_field_krige_and_variance(krig_mat, krig_vecs, cond):
    m = krig_mat.shape[0]
    K, V, c = krig_mat[:m, :m], krig_vecs[:m], cond[:m]
    field = np.einsum("i,ij,jk->k", c, K, V)
    variance = np.einsum("ik,ij,jk->k", V, K, V)
    return field, variance


def ref_calc_field_krige(krig_mat, krig_vecs, cond):
    return ref_calc_field_krige_and_variance(krig_mat, krig_vecs, cond)[0]


# ------------------------------------------------------------------------------------------------
# variogram estimation
# ------------------------------------------------------------------------------------------------
def _estimate(dz, estimator_type):
    """estimator of one bin from the increments dz of all its (pair, field) combinations"""
    n = int(dz.size)
    if n == 0:
        return 0.0, 0
    if estimator_type == "m":
        return float(np.sum(dz * dz)) / (2.0 * n), n
    mean_root = float(np.sum(np.sqrt(np.abs(dz)))) / n
    return (mean_root ** 4 / (0.457 + 0.494 / n + 0.045 / n ** 2)) / 2.0, n


def _euclid(pos, a, b):
    acc = np.zeros(len(a))
    for c in range(pos.shape[0]):
        diff = pos[c, a] - pos[c, b]
        acc = acc + diff * diff
    return np.sqrt(acc)


def _haversine(pos, a, b):
    """great-circle distance on the unit sphere, lat = pos[0], lon = pos[1] in degrees"""
    rad = math.pi / 180.0
    out = np.zeros(len(a))
    for n, (p, q) in enumerate(zip(a, b)):
        dlat = (pos[0, q] - pos[0, p]) * rad
        dlon = (pos[1, q] - pos[1, p]) * rad
        h = math.sin(dlat / 2.0) ** 2 + math.cos(pos[0, p] * rad) * math.cos(pos[0, q] * rad) \
            * math.sin(dlon / 2.0) ** 2
        out[n] = 2.0 * math.atan2(math.sqrt(h), math.sqrt(1.0 - h))
    return out


def _check_common(f, bin_edges, pos):
    if pos.shape[1] != f.shape[1]:
        raise RefRaise("len(pos) != len(f)")
    if bin_edges.shape[0] < 2:
        raise RefRaise("len(bin_edges) too small")


def _binned(f, bin_edges, dist, a, b, member, estimator_type):
    """gamma_k, N_k over the pairs (a_p, b_p) selected by member[p], per bin"""
    nb = bin_edges.shape[0] - 1
    gamma = np.zeros(nb)
    counts = np.zeros(nb, dtype=np.int64)
    dz = f[:, b] - f[:, a]                                           # fields x pairs
    have = ~(np.isnan(f[:, a]) | np.isnan(f[:, b]))
    for k in range(nb):
        in_bin = (dist >= bin_edges[k]) & (dist < bin_edges[k + 1]) & member
        gamma[k], counts[k] = _estimate(dz[have & in_bin[None, :]], estimator_type)
    return gamma, counts


def ref_unstructured(f, bin_edges, pos, estimator_type="m", distance_type="e"):
    if distance_type != "e" and pos.shape[0] != 2:
        raise RefRaise("haversine needs dim == 2")
    _check_common(f, bin_edges, pos)
    a, b = np.triu_indices(pos.shape[1], k=1)
    dist = _euclid(pos, a, b) if distance_type == "e" else _haversine(pos, a, b)
    return _binned(f, bin_edges, dist, a, b, np.ones(len(a), dtype=bool), estimator_type)


def ref_directional(f, bin_edges, pos, direction, angles_tol=math.pi / 8.0, bandwidth=-1.0,
                    separate_dirs=False, estimator_type="m"):
    _check_common(f, bin_edges, pos)
    if angles_tol <= 0:
        raise RefRaise("angles_tol must be > 0")
    dim = pos.shape[0]
    a, b = np.triu_indices(pos.shape[1], k=1)
    dist = _euclid(pos, a, b)
    vec = pos[:, b] - pos[:, a]                                      # dim x pairs
    n_dir = direction.shape[0]
    nb = bin_edges.shape[0] - 1
    gamma = np.zeros((n_dir, nb))
    counts = np.zeros((n_dir, nb), dtype=np.int64)
    taken = np.zeros(len(a), dtype=bool)
    for d in range(n_dir):
        e = direction[d, :dim]
        along = np.zeros(len(a))
        for c in range(dim):
            along = along + vec[c] * e[c]
        in_band = np.ones(len(a), dtype=bool)
        if bandwidth > 0.0:
            off2 = np.zeros(len(a))
            for c in range(dim):
                perp = vec[c] - along * e[c]
                off2 = off2 + perp * perp
            in_band = np.sqrt(off2) < bandwidth
        with np.errstate(all="ignore"):
            cosine = np.abs(along) / dist
            angle = np.arccos(np.clip(cosine, 0.0, 1.0))
        in_angle = np.where((dist > 0.0) & (cosine < 1.0), angle < angles_tol, True)
        member = in_band & in_angle
        if separate_dirs:
            member = member & ~taken
            taken = taken | member
        gamma[d], counts[d] = _binned(f, bin_edges, dist, a, b, member, estimator_type)
    return gamma, counts


def _along_axis(f, usable, estimator_type):
    n = f.shape[0]
    gamma = np.zeros(n)
    for lag in range(1, n):
        dz = f[:n - lag] - f[lag:]
        gamma[lag] = _estimate(dz[usable[:n - lag] & usable[lag:]], estimator_type)[0]
    return gamma


def ref_structured(f, estimator_type="m"):
    return _along_axis(f, np.ones(f.shape, dtype=bool), estimator_type)


def ref_ma_structured(f, mask, estimator_type="m"):
    return _along_axis(f, mask == 0, estimator_type)


REFERENCES = {
    "summate": ref_summate, "summate_incompr": ref_summate_incompr, "summate_fourier": ref_summate_fourier,
    "calc_field_krige_and_variance": ref_calc_field_krige_and_variance, "calc_field_krige": ref_calc_field_krige,
    "unstructured": ref_unstructured, "directional": ref_directional,
    "structured": ref_structured, "ma_structured": ref_ma_structured,
}


# ------------------------------------------------------------------------------------------------
# running and comparing
# ------------------------------------------------------------------------------------------------
def _copy(v):
    return v.copy() if isinstance(v, np.ndarray) else v


def reference(entry, inp):
    """-> ('ok', value) | ('raise', 'ValueError')"""
    try:
        return "ok", REFERENCES[entry](*[_copy(inp[p]) for p in SIGNATURES[entry]])
    except RefRaise:
        return "raise", "ValueError"


def compiled(mod, entry, inp, num_threads):
    """the installed kernel, called as the Python callers do: all positional, num_threads last"""
    try:
        return "ok", getattr(mod, entry)(*[_copy(inp[p]) for p in SIGNATURES[entry]], num_threads)
    except ValueError:
        return "raise", "ValueError"
    except Exception as e:      # TypeError of a changed signature etc.
        return "error", repr(e)


def inputs_from_json(js):
    out = {}
    for k, v in js.items():
        if isinstance(v, dict) and "shape" in v:
            data = [np.nan if x is None else x for x in v["data"]]
            out[k] = np.array(data, dtype=_DTYPES.get(k, np.float64)).reshape(v["shape"])
        else:
            out[k] = v
    return out


def _parts(r):
    return list(r) if isinstance(r, tuple) else [r]


def _val(x):
    x = x.item() if isinstance(x, np.generic) else x
    return None if isinstance(x, float) and x != x else x


def compare(ref, got, stats=None):
    """None if the compiled result agrees with the reference, else a dict locating the first
    difference (component of a returned tuple, index, the two values).  stats["max_abs_dev"] /
    stats["max_tol_used"] record the largest deviation seen and the largest fraction of the
    tolerance used by an accepted element."""
    if isinstance(ref, tuple) != isinstance(got, tuple) or len(_parts(ref)) != len(_parts(got)):
        return {"what": "result structure", "reference": repr(type(ref)), "compiled": repr(type(got))}
    for comp, (r, g) in enumerate(zip(_parts(ref), _parts(got))):
        r, g = np.asarray(r), np.asarray(g)
        where = {"component": comp} if isinstance(ref, tuple) else {}
        if r.shape != g.shape:
            return dict(where, what="shape", reference=list(r.shape), compiled=list(g.shape))
        if r.dtype.kind in "iub":
            if g.dtype.kind not in "iub":
                return dict(where, what="dtype", reference=str(r.dtype), compiled=str(g.dtype))
            bad = r != g
        else:
            r = r.astype(float)
            g = g.astype(float)
            fin = np.isfinite(r) & np.isfinite(g)
            scale = float(np.max(np.abs(r[fin]))) if fin.any() else 0.0
            with np.errstate(all="ignore"):
                dev = np.abs(r - g)
                tol = ATOL * max(1.0, scale) + RTOL * np.maximum(np.abs(r), np.abs(g))
                close = dev <= tol
            if stats is not None and (fin & close).any():
                stats["max_abs_dev"] = max(stats.get("max_abs_dev", 0.0), float(dev[fin & close].max()))
                stats["max_tol_used"] = max(stats.get("max_tol_used", 0.0),
                                            float((dev[fin & close] / tol[fin & close]).max()))
            same_special = (np.isnan(r) & np.isnan(g)) | (np.isinf(r) & np.isinf(g) & (np.sign(r) == np.sign(g)))
            bad = ~np.where(fin, close, same_special)
        if bad.any():
            idx = tuple(int(i) for i in np.argwhere(bad)[0])
            return dict(where, what="value", index=list(idx), reference=_val(r[idx]), compiled=_val(g[idx]),
                        differing_elements=int(bad.sum()))
    return None


def bit_difference(x, y):
    """None if two compiled results are bit-identical, else the first differing element"""
    if isinstance(x, tuple) != isinstance(y, tuple) or len(_parts(x)) != len(_parts(y)):
        return {"what": "result structure"}
    for comp, (p, q) in enumerate(zip(_parts(x), _parts(y))):
        p, q = np.ascontiguousarray(p), np.ascontiguousarray(q)
        where = {"component": comp} if isinstance(x, tuple) else {}
        if p.shape != q.shape or p.dtype != q.dtype:
            return dict(where, what="shape/dtype", a=[list(p.shape), str(p.dtype)], b=[list(q.shape), str(q.dtype)])
        if p.tobytes() != q.tobytes():
            pb = p.reshape(-1).view(np.uint8).reshape(p.size, -1)
            qb = q.reshape(-1).view(np.uint8).reshape(q.size, -1)
            flat = int(np.argwhere((pb != qb).any(axis=1))[0][0])
            idx = tuple(int(i) for i in np.unravel_index(flat, p.shape))
            return dict(where, what="bits", index=list(idx), a=_val(p[idx]), b=_val(q[idx]))
    return None


def check_case(mod, entry, inp, threads, stats=None):
    """One input: reference vs compiled for every num_threads, then bit-identity across num_threads.
    -> None | witness dict (without the inputs)"""
    ref = reference(entry, inp)
    runs = []
    for t in threads:
        got = compiled(mod, entry, inp, t)
        runs.append((t, got))
        if got[0] == "error":
            return {"class": "compiled kernel cannot be called with the documented positional signature",
                    "entry": entry, "num_threads": t, "compiled": got[1], "checker_error": True}
        if got[0] != ref[0]:
            return {"class": "compiled kernel differs from the defining sums (exception behaviour)",
                    "entry": entry, "num_threads": t, "reference": list(ref) if ref[0] != "ok" else "returns a value",
                    "compiled": list(got) if got[0] != "ok" else "returns a value"}
        if got[0] == "ok":
            d = compare(ref[1], got[1], stats)
            if d is not None:
                return dict({"class": "compiled kernel differs from the defining sums", "entry": entry,
                             "num_threads": t}, **d)
    t0, first = runs[0]
    for t, got in runs[1:]:
        if first[0] == "ok" and got[0] == "ok":
            d = bit_difference(first[1], got[1])
            if d is not None:
                return dict({"class": "result depends on num_threads (not bit-identical)", "entry": entry,
                             "num_threads": t, "num_threads_other": t0}, **d)
    return None
