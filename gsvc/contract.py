"""Contract registry and obligation discharge for the symrun engine."""
from __future__ import annotations

import itertools
import json
import math
import multiprocessing as mp
import os
import random
import time
import traceback

import z3

from . import core, symrun, ringnf
from .core import Obligation, DISCHARGED, FAILED, UNDECIDED, BOUNDED, ERROR, SKIPPED


class Contract:
    def __init__(self, prop, cid, fn, params, functions, bounded, timeout, sampler, nsamples,
                 tiers, max_paths, search=300):
        self.search = search
        self.prop, self.cid, self.fn = prop, cid, fn
        self.params = params
        self.functions = tuple(functions)
        self.bounded = bounded
        self.timeout = timeout
        self.sampler = sampler
        self.nsamples = nsamples
        self.tiers = tiers
        self.max_paths = max_paths


REGISTRY = []


def contract(prop, cid, params=None, functions=(), bounded=None, timeout=30, sampler=None,
             nsamples=4, tiers=("quick", "thorough"), max_paths=3000, search=300):
    """register `fn(ctx, **params)`; `params` is a list of dicts or a dict name->list (product).
    `bounded`: string describing a shape bound => obligations are reported BOUNDED not proved."""
    if params is None:
        plist = [{}]
    elif isinstance(params, dict):
        keys = list(params)
        plist = [dict(zip(keys, vals)) for vals in itertools.product(*[params[k] for k in keys])]
    else:
        plist = list(params)

    def deco(fn):
        REGISTRY.append(Contract(prop, cid, fn, plist, functions, bounded, timeout, sampler,
                                 nsamples, tiers, max_paths, search))
        return fn
    return deco


def _pstr(p):
    if not p:
        return ""
    return "[" + ",".join("%s=%s" % (k, _short(v)) for k, v in p.items()) + "]"


def _short(v):
    if isinstance(v, type):
        return v.__name__
    if callable(v) and hasattr(v, "__name__"):
        return v.__name__
    return str(v).replace(" ", "")


# ---------------------------------------------------------------------------------------
def _default_sample(rng, hints):
    vals = {}
    for name, kw in hints.items():
        if "choices" in kw:
            vals[name] = rng.choice(kw["choices"])
        elif "lo" in kw and "hi" in kw:
            if kw.get("edge") and rng.random() < 0.5:
                # half of the samples hug the lower end (dimension-dependent lower bounds)
                vals[name] = kw["lo"] + (kw["hi"] - kw["lo"]) * 10 ** (-rng.uniform(0.5, 3))
            else:
                vals[name] = rng.uniform(kw["lo"], kw["hi"])
        elif kw.get("pos"):
            vals[name] = math.exp(rng.gauss(0, 0.7))
        elif kw.get("nonneg"):
            vals[name] = abs(rng.gauss(0, 1.0)) if rng.random() > 0.15 else 0.0
        elif kw.get("angle"):
            vals[name] = rng.uniform(-math.pi, math.pi)
        else:
            vals[name] = rng.gauss(0, 1.5)
    return vals


def run_concrete(c, p, values, rtol=1e-7, atol=1e-9):
    """run the contract natively on floats; returns dict ensure-name -> bool, or None if the
    sample was rejected by a `require`; raises on unexpected exceptions of the real code"""
    ctx = symrun.ConcCtx(values, rtol=rtol, atol=atol)
    try:
        c.fn(ctx, **p)
    except symrun._ContractReturn:
        pass
    except symrun.Reject:
        # a `require` constrains the ensures stated AFTER it only: an ensure that was already false when
        # the sample was rejected is a counterexample to that ensure
        bad = {k: v for k, v in ctx.results.items() if v is False}
        return bad or None
    return ctx.results


class _SymCtxH(symrun.SymCtx):
    def __init__(self, path, hints):
        super().__init__(path)
        self._hints = hints

    def real(self, name, **kw):
        self._hints[name] = kw
        return super().real(name, **kw)


def discharge(path, hyps, post, timeout):
    """ring normal form first (polynomial identities), then SMT per conjunct"""
    t0 = time.time()
    if ringnf.prove_equalities(post, [(c, s) for (_, c, s) in path.trig], hyps):
        return "unsat", None, "ring-nf", time.time() - t0
    conj = ringnf._conjuncts(post)
    backends = set()
    for cj in conj:
        if len(conj) > 1 and ringnf.prove_equalities(cj, [(c, s) for (_, c, s) in path.trig], hyps):
            backends.add("ring-nf")
            continue
        st, model, backend, _ = symrun.solve(hyps + [z3.Not(cj)], timeout_s=timeout)
        backends.add(backend)
        if st != "unsat":
            return st, model, backend, time.time() - t0
    return "unsat", None, "+".join(sorted(backends)), time.time() - t0


def run_job(args):
    """one (contract, params) unit in a worker process; returns a list of result dicts"""
    idx, pi, tier, seed = args
    c = REGISTRY[idx]
    p = c.params[pi]
    base = "%s/%s" % (c.prop, c.cid)
    ps = _pstr(p)
    t0 = time.time()
    out = []
    hints = {}
    info = {"paths": 0, "infeasible_paths": 0, "exc_paths": 0, "hints": [], "covers": 0,
            "canaries": 0, "canaries_ok": 0}

    def res(name, status, backend="z3", t=0.0, detail="", witness=None):
        return {"id": "%s/%s%s" % (base, name, ps), "status": status, "backend": backend,
                "time_s": t, "detail": detail, "witness": witness, "functions": c.functions,
                "bound": c.bounded, "contract": idx, "param": pi}

    rng = random.Random((seed * 1000003 + idx * 7919 + pi) & 0xFFFFFFFF)

    def sample_values():
        if c.sampler is not None:
            return c.sampler(rng, **p)
        return _default_sample(rng, hints)

    def native_only(err):
        """the symbolic run could not be completed (unsupported construct, path limit): the
        obligations are undecided, but a native counterexample on in-contract inputs is still a
        violation with a witness"""
        res_list = [err]
        bad = {}
        n_ok = 0
        for _ in range(max(c.search, 6 * c.nsamples)):
            vals = sample_values()
            try:
                r = run_concrete(c, p, vals)
            except Exception as e:
                bad.setdefault("path-exception", (vals, "native exception %r" % (e,)))
                continue
            if r is None:
                continue
            n_ok += 1
            for name, ok in r.items():
                if not ok:
                    bad.setdefault(name, (vals, "native search: ensure false"))
            if n_ok >= 20 or (bad and n_ok >= 3):
                break
        for name, (vals, why) in bad.items():
            res_list.append(res(name, FAILED, "native", 0.0, why + " (symbolic run incomplete)",
                                {"inputs": vals, "params": {k: _short(v) for k, v in p.items()}, "how": why}))
        return res_list, info

    try:
        ex = symrun.Explorer(max_paths=c.max_paths)
        paths = ex.run(lambda path: c.fn(_SymCtxH(path, hints), **p))
    except symrun.PathLimit as e:
        return native_only(res("explore", ERROR, detail="path limit: %s" % e))
    except Exception:
        return native_only(res("explore", ERROR, detail=traceback.format_exc()[-1500:]))
    info["paths"] = len(paths)
    if paths and all(pp.outcome[0] == "exc" for pp in paths):
        return native_only(res("path-exception", ERROR, detail=paths[0].outcome[1]))

    def native_search(name, n):
        """look for a native counterexample to ensure `name`"""
        for _ in range(n):
            vals = sample_values()
            try:
                r = run_concrete(c, p, vals)
            except Exception as e:  # real code crashed natively on in-contract input
                return vals, "exception %r" % (e,)
            if r is not None and r.get(name) is False:
                return vals, "ensure false natively"
        return None, None

    per_name = {}
    feasible_with_obls = 0
    failed_any = False
    confirmed = 0
    for path in paths:
        if path.outcome[0] == "exc":
            info["exc_paths"] += 1
            out.append(res("path-exception", ERROR, detail=path.outcome[1]))
            continue
        for h in path.hints:
            if h not in info["hints"]:
                info["hints"].append(h)
        if not path.obls:
            continue
        hbase = path.facts + path.pc
        # vacuity guard: requires + hints + path condition (NOT the lemmas, which are themselves
        # obligations) must not be contradictory
        lem = path.lemma_idx
        hyps0 = hbase + [f for i, f in enumerate(path.assume) if i not in lem]
        st, _, _, _ = symrun.solve(hyps0, timeout_s=5)
        max_nass = None
        if st == "unsat":
            # the hypotheses of the whole path are contradictory.  A `require` constrains only the
            # ensures stated after it, so the ensures stated BEFORE the contradicting require still
            # carry obligations: keep those whose own prefix of the assumptions is satisfiable
            for n in sorted({o[2] for o in path.obls}):
                hp = hbase + [f for i, f in enumerate(path.assume[:n]) if i not in lem]
                s2, _, _, _ = symrun.solve(hp, timeout_s=5)
                if s2 == "unsat":
                    break
                max_nass, st = n, s2
            if max_nass is None:
                # an explored path whose condition is in fact infeasible (the branch solver timed
                # out): it carries no obligations; the job must still have a feasible path
                info["infeasible_paths"] += 1
                continue
            info["truncated_paths"] = info.get("truncated_paths", 0) + 1
        info["canaries"] += 1          # "false" is not provable from this path's hypotheses
        info["canaries_ok"] += 1
        if st == "sat":
            info["covers"] += 1
        feasible_with_obls += 1
        for oi, (name, post, nass, using) in enumerate(path.obls):
            if max_nass is not None and nass > max_nass:
                continue            # stated after the contradicting require: vacuous on this path
            if confirmed >= 3:
                ent = per_name.setdefault(name, {"status": SKIPPED, "t": 0.0, "backends": set(),
                                                 "detail": "not attempted: earlier obligations of this "
                                                 "contract instance already failed with native witnesses",
                                                 "witness": None, "n": 0})
                ent["n"] += 1
                continue
            if using is None:
                hy = hbase + path.assume[:nass]
            elif oi in path.gen:
                sub = []
                for k, t in enumerate(path.gen[oi]):
                    g = z3.Real("gen!%d!%d" % (oi, k))
                    sub.append((t, g))
                    ts = z3.simplify(t)       # function applications hold simplified arguments
                    if not ts.eq(t):
                        sub.append((ts, g))
                fs = [z3.substitute(f, *sub) for f in path.facts]
                us = [z3.substitute(f, *sub) for f in using]
                post = z3.substitute(post, *sub)
                hy = symrun.relevant_facts(fs, us + [post], None) + us
            else:
                hy = symrun.relevant_facts(path.facts, using + [post], path) + using
            # once something in this job failed, later obligations get a short budget (they often
            # depend on the failed step; their verdict can add noise but cannot hide the failure)
            st, model, backend, dt = discharge(path, hy, post,
                                               c.timeout if not failed_any else min(c.timeout, 3))
            ent = per_name.setdefault(name, {"status": DISCHARGED, "t": 0.0, "backends": set(),
                                             "detail": "", "witness": None, "n": 0})
            if ent["status"] == SKIPPED:
                ent["status"] = DISCHARGED
            ent["t"] += dt
            ent["n"] += 1
            ent["backends"].add(backend)
            if st == "unsat":
                continue
            failed_any = True
            witness = None
            why = ""
            if st == "sat":
                vals = symrun.model_values(model, path.inputs)
                try:
                    r = run_concrete(c, p, vals)
                    if r is not None and r.get(name) is False:
                        witness, why = vals, "solver model replayed natively: ensure false"
                except Exception as e:
                    witness, why = vals, "solver model replayed natively: exception %r" % (e,)
            if witness is None:
                witness, why = native_search(name, c.search if tier == "quick" else 10 * c.search)
            if witness is not None:
                confirmed += 1
                ent["status"] = FAILED
                ent["witness"] = {"inputs": witness, "params": {k: _short(v) for k, v in p.items()},
                                  "how": why}
                ent["detail"] = "solver: %s (%s); %s" % (st, backend, why)
            elif ent["status"] != FAILED:
                ent["status"] = UNDECIDED
                ent["detail"] = "solver: %s (%s) on path with %d decisions; no native counterexample " \
                                "found" % (st, backend, len(path.decisions))
    if not feasible_with_obls and not out:
        out.append(res("vacuity", ERROR, detail="no feasible path reaches an ensure"))

    # native spot check of every ensure on random in-contract inputs
    spot_fail = {}
    spot_n = 0
    for _ in range(c.nsamples * 6):
        if spot_n >= c.nsamples:
            break
        vals = sample_values()
        try:
            r = run_concrete(c, p, vals, rtol=1e-5, atol=1e-7)
        except Exception as e:
            spot_fail.setdefault("path-exception", (vals, "native exception %r" % (e,)))
            spot_n += 1
            continue
        if r is None:
            continue
        spot_n += 1
        for name, ok in r.items():
            if not ok and name not in spot_fail:
                spot_fail[name] = (vals, "native spot check: ensure false")
    info["spot_samples"] = spot_n

    for name, ent in per_name.items():
        status = ent["status"]
        if name in spot_fail and status != FAILED:
            vals, why = spot_fail[name]
            status = FAILED
            ent["witness"] = {"inputs": vals, "params": {k: _short(v) for k, v in p.items()},
                              "how": why + " (symbolic verdict was %s)" % ent["status"]}
            ent["detail"] = why
        if status == DISCHARGED and c.bounded:
            status = BOUNDED
        r = res(name, status, "+".join(sorted(ent["backends"])), ent["t"],
                ent["detail"] + (" [%d path instance(s)]" % ent["n"]), ent["witness"])
        out.append(r)
    info["wall"] = time.time() - t0
    info["job"] = "%s%s" % (base, ps)
    return out, info


JOB_WALL_LIMIT = {"quick": 900, "thorough": 3600}


def _job_main(conn, job):
    try:
        conn.send(run_job(job))
    except BaseException:
        c = REGISTRY[job[0]]
        conn.send(([{"id": "%s/%s/job-crash%s" % (c.prop, c.cid, _pstr(c.params[job[1]])),
                     "status": ERROR, "backend": "-", "time_s": 0.0,
                     "detail": traceback.format_exc()[-1500:], "witness": None,
                     "functions": c.functions, "bound": c.bounded, "contract": job[0], "param": job[1]}],
                   {}))
    finally:
        conn.close()


def _run_pool(jobs, workers, wall_limit):
    """one forked process per job, at most `workers` at a time, each with a wall-clock limit: a
    solver call that ignores its timeout cannot hang the check (the job becomes a checker error)"""
    ctx = mp.get_context("fork")
    pending = list(enumerate(jobs))
    running = {}
    results = [None] * len(jobs)
    while pending or running:
        while pending and len(running) < workers:
            k, job = pending.pop(0)
            parent, child = ctx.Pipe(duplex=False)
            pr = ctx.Process(target=_job_main, args=(child, job))
            pr.start()
            child.close()
            running[k] = (pr, parent, time.time(), job)
        done = []
        for k, (pr, parent, t0, job) in running.items():
            if parent.poll(0.02):
                try:
                    results[k] = parent.recv()
                except EOFError:
                    results[k] = None
                pr.join(5)
                done.append(k)
            elif not pr.is_alive():
                pr.join()
                done.append(k)
            elif time.time() - t0 > wall_limit:
                pr.terminate()
                pr.join(5)
                done.append(k)
        for k in done:
            pr, parent, t0, job = running.pop(k)
            if results[k] is None:
                c = REGISTRY[job[0]]
                results[k] = ([{"id": "%s/%s/job-timeout%s" % (c.prop, c.cid, _pstr(c.params[job[1]])),
                                "status": ERROR, "backend": "-", "time_s": time.time() - t0,
                                "detail": "job exceeded its wall-clock limit or died (exit code %s)" % pr.exitcode,
                                "witness": None, "functions": c.functions, "bound": c.bounded,
                                "contract": job[0], "param": job[1]}], {})
            parent.close()
        if not done:
            time.sleep(0.02)
    return results


def run_all(rep, prop, tier, seed, only=None, workers=12):
    jobs = []
    for idx, c in enumerate(REGISTRY):
        if c.prop != prop or tier not in c.tiers:
            continue
        for pi, p in enumerate(c.params):
            if only and only not in ("%s%s" % (c.cid, _pstr(p))):
                continue
            jobs.append((idx, pi, tier, seed))
    if not jobs:
        rep.error("no contracts registered for %s" % prop)
        return
    if len(jobs) == 1 or os.environ.get("GSVC_SERIAL"):
        results = [run_job(j) for j in jobs]
    else:
        results = _run_pool(jobs, workers, JOB_WALL_LIMIT[tier])
    npaths = 0
    for (obls, info) in results:
        npaths += info.get("paths", 0)
        rep.canaries += info.get("canaries", 0)
        rep.canaries_ok += info.get("canaries_ok", 0)
        rep.covers += info.get("covers", 0)
        for h in info.get("hints", []):
            rep.hints.add(h)
        for r in obls:
            rep.add(Obligation(r["id"], r["status"], r["backend"], r["time_s"], r["detail"],
                               r["witness"], r["bound"], r["functions"],
                               replay={"contract": REGISTRY[r["contract"]].cid, "param": r["param"],
                                       "witness": r["witness"]}))
    rep.extra["symbolic_paths"] = rep.extra.get("symbolic_paths", 0) + npaths
    rep.extra["jobs"] = rep.extra.get("jobs", 0) + len(jobs)
    rep.extra.setdefault("shims", sorted(set(symrun.SHIM_LOG)))


def replay_file(prop, path):
    """re-run the native witness of a replay file against the current tree; exit 1 if the
    ensure still fails natively"""
    data = json.load(open(path))
    rp = data.get("replay") or {}
    wit = rp.get("witness") or data.get("witness")
    if not wit or "inputs" not in wit:
        print("replay file carries no native witness (obligation %s): %s"
              % (data.get("obligation"), (data.get("solver_output") or "")[:300]))
        return 0
    oid = data["obligation"]
    for c in REGISTRY:
        if c.prop == prop and c.cid == rp.get("contract"):
            p = c.params[rp["param"]]
            name = oid[len(prop) + 1 + len(c.cid) + 1:]
            name = name[:len(name) - len(_pstr(p))] if _pstr(p) else name
            try:
                r = run_concrete(c, p, wit["inputs"])
            except Exception as e:
                print("replay: real code raised %r" % (e,))
                print("VIOLATION property=%s replay=%s" % (prop, path))
                return 1
            print("replay %s inputs=%s -> %s" % (oid, wit["inputs"], r))
            if r is not None and r.get(name) is False:
                print("VIOLATION property=%s replay=%s" % (prop, path))
                return 1
            return 0
    print("contract not found for", oid)
    return 3


COMMON_TRUST = [
    "T1 floats are treated as mathematical reals (no rounding, overflow, NaN unless stated)",
    "T2 numpy object-dtype execution follows the float64 rules for indexing/broadcasting/ufunc dispatch",
    "T3 shim table of gsvc/symrun.py (module-global np/float/scipy.special rebinding inside the verifier process only)",
    "T4 ground facts for transcendental functions (gsvc/symrun.py:_facts_for) and logged hints",
    "z3 5.1 (nlsat) / cvc5 1.0 soundness; ring-nf back end (gsvc/ringnf.py)",
]


def standard_run(rep, prop, modules, tier, seed, only):
    import importlib
    import gstools  # noqa: F401  the real code under verification (from core.REPO/src)
    symrun.install_shims()
    for m in modules:
        importlib.import_module(m)
    for t in COMMON_TRUST:
        rep.trust(t)
    rep.assume("gstools imported from %s" % os.path.dirname(gstools.__file__))
    run_all(rep, prop, tier, seed, only)


def standard_replay(prop, modules, path):
    import importlib
    import gstools  # noqa: F401
    symrun.install_shims()
    for m in modules:
        importlib.import_module(m)
    return replay_file(prop, path)
