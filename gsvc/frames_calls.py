"""Call semantics of the `frames` abstract interpreter (mixin for FnAnalyzer)."""
import ast

from . import frames_tables as T
from .frames_dom import (AV, ARRAYISH, BOTTOM, NONE, NOCONST, SCALAR, STR, array_deep_orig, const,
                         deep_orig, join, join_all, ret_to_av)
from .frames_expr import CONTAINER, CONTAINER_ONLY_METHODS, CallArgs, _cap


class CallMixin:
    # ------------------------------------------------------------------ entry
    def ev_Call(self, node, st):
        f = node.func
        # special forms that need the syntax
        if isinstance(f, ast.Name) and f.id not in st.env and f.id not in self.closure:
            if f.id in ("getattr", "setattr", "delattr", "hasattr", "super", "isinstance"):
                r = self.special_builtin(f.id, node, st)
                if r is not None:
                    return r
        if isinstance(f, ast.Attribute) and f.attr in T.ARR_UNSHARE_METHODS and not node.args:
            recv = self.ev(f.value, st)
            if recv.kinds & {"ma", "nd", "any"} and not self.classes_of(recv):
                # x.unshare_mask(): never changes caller visible content.  If x is known to be a
                # new array object (view created by np.ma.array / slicing / reshape ...) its mask
                # is private afterwards; if x may be the caller's own object nothing can be said
                if isinstance(f.value, ast.Name) and f.value.id in st.env and recv.ident is False:
                    st.env[f.value.id] = recv.replace(msh=frozenset())
                return NONE
        fav = self.ev(f, st)
        ca = self.eval_args(node, st)
        return self.call_av(fav, ca, node, st)

    def eval_args(self, node, st):
        ca = CallArgs()
        for a in node.args:
            if isinstance(a, ast.Starred):
                if isinstance(a.value, (ast.Tuple, ast.List)) and not any(
                        isinstance(e, ast.Starred) for e in a.value.elts):
                    for e in a.value.elts:        # f(*(a, b, c)) == f(a, b, c)
                        ca.nodes[("pos", len(ca.pos))] = e
                        ca.pos.append((self.ev(e, st), False))
                    continue
                v = self.ev(a.value, st)
                if v.items is not None and v.kinds <= {"tuple"}:
                    for it in v.items:
                        ca.pos.append((it, False))
                    continue
                ca.nodes[("pos", len(ca.pos))] = a
                ca.pos.append((v, True))
            else:
                ca.nodes[("pos", len(ca.pos))] = a
                ca.pos.append((self.ev(a, st), False))
        for k in node.keywords:
            if k.arg is None:
                ca.starkw.append(self.ev(k.value, st))
            else:
                ca.kw[k.arg] = self.ev(k.value, st)
                ca.nodes[("kw", k.arg)] = k.value
        return ca

    def special_builtin(self, name, node, st):
        args = node.args
        if name == "super":
            return AV(("obj",), ("P:self",), refs=(("super", self.fi.cls),), cls=())
        if name == "isinstance":
            for a in args:
                self.ev(a, st)
            return SCALAR
        if name == "hasattr":
            for a in args:
                self.ev(a, st)
            return SCALAR
        if name == "getattr" and len(args) >= 2:
            base = self.ev(args[0], st)
            k = self.ev(args[1], st)
            dflt = self.ev(args[2], st) if len(args) > 2 else BOTTOM
            if isinstance(k.const, str):
                return join(self.attr_of(base, k.const, node, st), dflt)
            for r in base.refs:
                if r[0] in ("mod", "npmod"):
                    return AV(("func", "any"), (), refs=(("ext", r[1] + ".<dynamic>"),))
            self.reads.add("*")
            return join(AV(("any",), self.recv_paths(base, "*")), dflt)
        if name == "setattr" and len(args) == 3:
            base = self.ev(args[0], st)
            k = self.ev(args[1], st)
            val = self.ev(args[2], st)
            self.store_attr(base, k.const if isinstance(k.const, str) else "*", val, node, st,
                            dynamic=not isinstance(k.const, str))
            return NONE
        if name == "delattr" and len(args) == 2:
            base = self.ev(args[0], st)
            k = self.ev(args[1], st)
            if "P:self" in base.orig:
                self.assigns.add(k.const if isinstance(k.const, str) else "*")
            return NONE
        return None

    # ------------------------------------------------------------------ dispatch
    def call_av(self, fav, ca, node, st):
        results = []
        handled = False
        for r in sorted(fav.refs, key=repr):
            k = r[0]
            if k == "np":
                results.append(self.call_np(r[1], ca, node, st))
            elif k == "builtin":
                results.append(self.call_builtin(r[1], ca, node, st))
            elif k == "fn":
                fi = self.pkg.funcs.get(r[1])
                if fi is None:
                    continue
                if fi.cls is not None and fi.parent is None and not fi.static:
                    # unbound method reference Class.method(obj, ...)
                    recv = ca.pos[0][0] if ca.pos else BOTTOM
                    ca2 = CallArgs()
                    ca2.pos = ca.pos[1:]
                    ca2.kw = ca.kw
                    ca2.starkw = ca.starkw
                    results.append(self.call_fn(fi, recv, ca2, node, st))
                else:
                    results.append(self.call_fn(fi, None, ca, node, st))
            elif k == "cls":
                results.append(self.call_cls(r[1], ca, node, st))
            elif k == "ext":
                results.append(self.call_ext(r[1], ca, node, st))
            elif k == "kern":
                results.append(self.call_kern(r[1], ca, node, st))
            elif k == "meth":
                results.append(self.call_meth(r[1], r[2], ca, node, st))
            elif k == "lambda":
                results.append(self.call_lambda(r[1], ca, node, st))
            elif k == "partial":
                inner, pos, kws = r[1], r[2], r[3]
                ca2 = CallArgs()
                ca2.pos = [(p, False) for p in pos] + ca.pos
                ca2.kw = dict(kws)
                ca2.kw.update(ca.kw)
                ca2.starkw = ca.starkw
                results.append(self.call_av(inner, ca2, node, st))
            elif k in ("mod", "npmod", "super"):
                continue
            else:
                continue
            handled = True
        if fav.kinds & {"obj", "any"}:
            for c in sorted(self.classes_of(fav)):
                if c == "<ext>":
                    results.append(self.call_meth("__call__", fav, ca, node, st))
                    handled = True
                    continue
                for m in self.pkg.lookup_method(c, "__call__"):
                    results.append(self.call_fn(m, fav, ca, node, st))
                    handled = True
        if not handled or (fav.kinds & {"any"} and not fav.refs) \
                or (fav.kinds & {"any"} and all(r[0] == "meth" for r in fav.refs) and not handled):
            results.append(self.call_user(fav, ca, node, st))
        elif fav.kinds & {"any"} and fav.orig:
            # value may also be a user supplied callable (e.g. `gen = GENERATOR[..] if .. else generator`)
            results.append(self.call_user(fav, ca, node, st))
        return join_all(results)

    # ------------------------------------------------------------------ user callables
    def call_user(self, fav, ca, node, st):
        """user supplied callable (mean / trend / drift / transform function, pseudo inverse ...):
        ASSUMED not to write its arguments and to return newly allocated values"""
        txt = ast.unparse(node.func)
        self.assumed_callables.add(txt)
        lab = self.label(node, "u")
        if self.loop_depth:
            self.recency(st, lab)
        return AV(("any",), (lab,))

    def call_lambda(self, lid, ca, node, st):
        lnode, env = self.lambdas[lid]
        sub = st.copy()
        for k, v in env.items():
            sub.env.setdefault(k, v)
        a = lnode.args
        names = [x.arg for x in a.posonlyargs + a.args]
        pos = [p for p, s in ca.pos if not s]
        for n, v in zip(names, pos):
            sub.env[n] = v
        for n in names[len(pos):]:
            sub.env[n] = ca.kw.get(n, AV(("any",), ()))
        if a.vararg:
            sub.env[a.vararg.arg] = AV(("tuple",), elem=join_all([p for p, s in ca.pos]))
        r = self.ev(lnode.body, sub)
        st.esc.update(sub.esc)
        return r

    # ------------------------------------------------------------------ classes
    def call_cls(self, cname, ca, node, st):
        ci = self.pkg.classes[cname]
        obj = self.fresh(node, ("obj",), cls=(cname,), st=st, tag="o")
        inits = self.pkg.lookup_method(cname, "__init__", virtual=False)
        extra = set()
        for ini in inits:
            self.call_fn(ini, obj, ca, node, st, ctor=extra)
        if extra:
            obj = obj.replace(orig=obj.orig | extra)
        return obj

    # ------------------------------------------------------------------ methods
    def call_meth(self, name, recv, ca, node, st):
        parts = []
        for r in recv.refs:
            if r[0] == "super":
                ms = []
                for c in self.pkg.mro(r[1])[1:]:
                    if name in self.pkg.classes[c].methods:
                        ms = [self.pkg.classes[c].methods[name]]
                        break
                selfav = st.env.get("self", AV(("obj",), ("P:self",), cls=(r[1],)))
                for m in ms:
                    parts.append(self.call_fn(m, selfav, ca, node, st))
                if not ms:
                    parts.append(NONE)      # object.__init__ / external base class
                return join_all(parts)
        classes = self.classes_of(recv)
        done = False
        if "<ext>" in classes:
            # method of an object of an external library (scipy / emcee / hankel / RandomState):
            # assumed not to write its array arguments; result is a new object
            self.assumed_callables.add("<external object>." + name)
            for a in ca.all_avs():
                if a.refs and any(r[0] in ("fn", "lambda", "meth") for r in a.refs):
                    self.call_av(AV(("func",), refs=[r for r in a.refs if r[0] in ("fn", "lambda", "meth")]),
                                 CallArgs(), node, st)
            return AV(("any",), (self.label(node, "x"),), cls=("<ext>",))
        if classes:
            for c in sorted(classes):
                for m in self.pkg.lookup_method(c, name):
                    parts.append(self.call_fn(m, recv, ca, node, st))
                    done = True
            if done:
                return join_all(parts)
        arr_names = (T.ARR_VIEW_METHODS | T.ARR_FRESH_METHODS | T.ARR_MUTATE_METHODS
                     | T.ARR_META_METHODS)
        if recv.kinds & {"str"} and name in T.STR_METHODS or (
                recv.kinds & {"any"} and name in T.STR_METHODS and name not in arr_names
                and name not in CONTAINER_ONLY_METHODS and name not in self.pkg.methods_by_name):
            parts.append(self.fresh(node, ("list",), elem=STR, st=st) if name in
                         ("split", "rsplit", "splitlines") else STR)
            done = True
        arr_names = (T.ARR_VIEW_METHODS | T.ARR_FRESH_METHODS | T.ARR_MUTATE_METHODS
                     | T.ARR_META_METHODS)
        if recv.kinds & {"nd", "ma"} or (recv.kinds & {"any"} and name in arr_names
                                          and name not in CONTAINER_ONLY_METHODS):
            parts.append(self.call_arrmeth(name, recv, ca, node, st))
            done = True
        if recv.kinds & CONTAINER or (recv.kinds & {"any"} and name in
                                      (CONTAINER_ONLY_METHODS | {"copy", "sort"})):
            parts.append(self.call_contmeth(name, recv, ca, node, st))
            done = True
        if recv.kinds & {"obj", "any"} and not classes:
            ms = [m for m in self.pkg.methods_by_name.get(name, ())
                  if m.relpath not in self.eng.SKIP and m.key not in self.eng.SKIP_FN]
            for m in ms:
                parts.append(self.call_fn(m, recv, ca, node, st))
                done = True
        if not done:
            parts.append(self.unknown_call(node, "method ." + name, recv, ca, st))
        return join_all(parts)

    def call_arrmeth(self, name, recv, ca, node, st):
        k = (recv.kinds & {"nd", "ma"}) or {"nd"}
        out = ca.kw.get("out")
        if out is not None and "none" not in out.kinds:
            self.site(node, "array", out.orig if out.arrayish else (), why="out= argument")
            return out
        if name in T.ARR_MUTATE_METHODS:
            if name == "byteswap" and not (ca.get(0, "inplace") is not None):
                return self.fresh(node, k, st=st)
            self.site(node, "array", recv.orig, why="in-place method ." + name)
            return NONE
        if name in T.ARR_META_METHODS:
            return NONE
        if name == "astype":
            c = ca.kw.get("copy")
            if c is not None and c.const is not True:
                return join(AV(k, recv.orig), self.fresh(node, k, st=st))
            return self.fresh(node, k, st=st)
        if name == "filled":
            return join(AV(("nd",), recv.orig), self.fresh(node, ("nd",), st=st))
        if name in T.ARR_VIEW_METHODS:
            return AV(k, recv.orig, msh=recv.msh,
                      ident=False if name in T.ARR_NEWOBJ_VIEW_METHODS else None)
        if name == "tolist":
            return self.fresh(node, ("list", "scalar"), elem=SCALAR, st=st)
        if name in ("item", "any", "all", "__len__", "tobytes", "tostring", "argmin", "argmax",
                    "count", "iscontiguous"):
            return SCALAR
        if name == "copy":
            return self.fresh(node, k, st=st)
        if name in T.ARR_FRESH_METHODS:
            return self.fresh(node, set(k) | {"scalar"}, st=st)
        return self.unknown_call(node, "array method ." + name, recv, ca, st)

    def call_contmeth(self, name, recv, ca, node, st):
        args = [a for a, s in ca.pos]
        el = recv.element()
        if name in ("append", "insert", "add"):
            v = args[-1] if args else BOTTOM
            self.container_mut(node, recv, st, v)
            return NONE
        if name in ("extend", "update", "__iadd__"):
            v = join_all([a.element() for a in args] + list(ca.kw.values()))
            self.container_mut(node, recv, st, v)
            return NONE
        if name == "setdefault":
            v = args[1] if len(args) > 1 else NONE
            self.container_mut(node, recv, st, v)
            return join(el, v)
        if name in ("pop", "popitem", "remove", "clear", "reverse", "sort", "__delitem__"):
            if name == "sort" and recv.kinds & ARRAYISH:
                return NONE          # handled by call_arrmeth
            self.container_mut(node, recv, st, None)
            if name == "pop":
                return join(el, args[1] if len(args) > 1 else BOTTOM)
            return NONE if name != "popitem" else self.fresh(node, ("tuple",), items=(STR, el), st=st)
        if name == "get":
            return join(el, args[1] if len(args) > 1 else NONE)
        if name == "items":
            return self.fresh(node, ("list",), elem=AV(("tuple",), (self.label(node, "t"),),
                                                     items=(AV(("str", "scalar")), el)), st=st)
        if name == "keys":
            return self.fresh(node, ("list",), elem=AV(("str", "scalar")), st=st)
        if name == "values":
            return self.fresh(node, ("list",), elem=el, st=st)
        if name == "copy":
            if recv.kinds & ARRAYISH and not recv.kinds & CONTAINER:
                return BOTTOM
            return self.fresh(node, recv.kinds & CONTAINER or {"dict"}, elem=el, st=st)
        if name in ("index", "count", "__len__", "__contains__"):
            return SCALAR
        if name == "join":
            return STR
        return self.unknown_call(node, "container method ." + name, recv, ca, st)

    def container_mut(self, node, recv, st, newelem):
        o = {x for x in recv.orig if x.startswith(("P:", "S:", "G:"))}
        self.site(node, "container", o, why="container mutation")
        if newelem is not None:
            self.weak_update(st, recv, newelem)
            # the stored element escapes into the container
            if any(x.startswith(("P:", "S:")) for x in recv.orig):
                for lab in deep_orig(newelem):
                    if lab.startswith("N:"):
                        pass

    def weak_update(self, st, recv, newelem):
        labs = {o for o in recv.orig if o.startswith("N:")}
        if not labs:
            return
        for k in list(st.env):
            v = st.env[k]
            if v.orig & labs and v.kinds & CONTAINER:
                if v.items is not None:
                    st.env[k] = AV(v.kinds, v.orig, elem=join(join_all(v.items), newelem),
                                   cls=v.cls)
                else:
                    st.env[k] = v.replace(elem=join(v.elem, newelem))

    # ------------------------------------------------------------------ builtins
    def call_builtin(self, name, ca, node, st):
        args = [a for a, s in ca.pos]
        if name in T.BUILTIN_SCALAR or name in ("slice", "dir", "vars", "open", "object"):
            if name in ("bool", "int", "float", "str") and args and args[0].const is not NOCONST:
                try:
                    return const({"bool": bool, "int": int, "float": float, "str": str}[name](
                        args[0].const))
                except Exception:
                    pass
            return STR if name in ("str", "repr", "format") else SCALAR
        if name in T.BUILTIN_CONTAINER:
            kind = T.BUILTIN_CONTAINER[name]
            if name == "dict":
                vals = [a.element().items[1] if (a.element().items and len(a.element().items) == 2)
                        else a.element() for a in args] + list(ca.kw.values()) \
                    + [d.element() for d in ca.starkw]
                return self.fresh(node, ("dict",), elem=join_all(vals) if vals else None, st=st)
            if not args:
                return self.fresh(node, (kind,), st=st)
            a = args[0]
            if a.items is not None and kind == "tuple":
                return self.fresh(node, ("tuple",), items=a.items, st=st)
            return self.fresh(node, (kind,), elem=a.element(), st=st)
        if name in ("iter", "reversed"):
            a = args[0] if args else BOTTOM
            return self.fresh(node, ("list",), elem=a.element(), st=st)
        if name == "next":
            return join_all([a.element() for a in args[:1]] + args[1:])
        if name == "enumerate":
            a = args[0] if args else BOTTOM
            return self.fresh(node, ("list",), elem=AV(("tuple",), (self.label(node, "t"),),
                                                     items=(SCALAR, a.element())), st=st)
        if name == "zip":
            items = [a.element() if not s else a.element().element() for a, s in ca.pos]
            if any(s for _, s in ca.pos):
                return self.fresh(node, ("list",), elem=AV(("tuple",), (self.label(node, "t"),),
                                                         elem=join_all(items)), st=st)
            return self.fresh(node, ("list",), elem=AV(("tuple",), (self.label(node, "t"),),
                                                     items=items), st=st)
        if name == "range":
            return self.fresh(node, ("list",), elem=SCALAR, st=st)
        if name in ("map", "filter"):
            if name == "filter":
                return self.fresh(node, ("list",), elem=args[1].element() if len(args) > 1
                                  else BOTTOM, st=st)
            ca2 = CallArgs()
            ca2.pos = [(a.element(), False) for a in args[1:]]
            r = self.call_av(args[0], ca2, node, st) if args else BOTTOM
            return self.fresh(node, ("list",), elem=r, st=st)
        if name in T.BUILTIN_REDUCE:
            if name in ("any", "all"):
                return SCALAR
            els = [a.element() if len(args) == 1 else a for a in args]
            e = join_all(els)
            if name == "sum":
                return join(SCALAR, self.fresh(node, ("nd", "scalar"), st=st)) \
                    if not e.only_immutable else SCALAR
            return e
        if name in ("property", "staticmethod", "classmethod"):
            return args[0] if args else BOTTOM
        # exception constructors and the like
        return AV(("obj",), (self.label(node),))

    # ------------------------------------------------------------------ numpy
    def _alias_arg(self, a, node, st, kinds, newobj=False):
        """result of a view-returning function applied to argument a"""
        if a is None:
            return BOTTOM
        parts = []
        if a.kinds & ARRAYISH:
            parts.append(AV(kinds, a.orig, msh=a.msh, ident=False if newobj else None))
        if (a.kinds - {"nd", "ma"}) or not a.kinds:
            parts.append(self.fresh(node, kinds, st=st))
        return join_all(parts)

    def call_np(self, name, ca, node, st):
        kinds = {"ma", "nd"} if name.startswith("ma.") else {"nd"}
        base = name.split(".")[-1]
        # in-place through out=
        out = ca.kw.get("out")
        if out is None and name in T.NP_UFUNC_NIN:
            out = ca.get(T.NP_UFUNC_NIN[name], None)
        if out is None and name in T.NP_OUT_POS:
            out = ca.get(T.NP_OUT_POS[name], None)
        if out is not None and not (out.kinds <= {"none"}):
            self.site(node, "array", array_deep_orig(out), why="out= argument of np." + name)
            return out
        if name in T.NP_MUTATE:
            for i, kw in T.NP_MUTATE[name]:
                a = ca.get(i, kw)
                if a is not None:
                    self.site(node, "array", array_deep_orig(a), why="np.%s writes its argument" % name)
            return NONE
        if name in T.NP_SCALAR or base in ("finfo", "iinfo"):
            if name == "shape":
                return AV(("tuple",), elem=SCALAR)
            return SCALAR
        if name in T.NP_COPY_KW:
            default, specs = T.NP_COPY_KW[name]
            c = ca.kw.get("copy")
            if c is None:
                copies = default
            elif c.const is True:
                copies = True
            elif c.const is False or c.const is None:
                copies = False
            else:
                copies = None
            if name == "meshgrid":
                el = self.fresh(node, ("nd",), st=st)
                if copies is not True:
                    el = join(el, join_all([self._alias_arg(a.element() if s else a, node, st, {"nd"})
                                            for a, s in ca.pos]))
                return self.fresh(node, ("list", "tuple"), elem=el, st=st, tag="m")
            if copies is True:
                return self.fresh(node, kinds, st=st)
            parts = [self._alias_arg(ca.get(i, kw), node, st, kinds, newobj=name in T.NP_NEWOBJ_VIEW)
                     for i, kw in specs]
            if copies is None:
                parts.append(self.fresh(node, kinds, st=st))
            r = join_all(parts)
            return r if not r.is_bottom else self.fresh(node, kinds, st=st)
        if name in T.NP_VIEW:
            specs = T.NP_VIEW[name]
            if name.startswith("atleast_") and len(ca.pos) > 1:
                return self.fresh(node, ("list", "tuple"),
                                  elem=join_all([self._alias_arg(a, node, st, kinds)
                                                 for a, s in ca.pos]), st=st, tag="m")
            if base in ("split", "array_split", "hsplit", "vsplit", "dsplit", "broadcast_arrays"):
                return self.fresh(node, ("list",), elem=join_all(
                    [self._alias_arg(ca.get(i, kw), node, st, kinds) for i, kw in specs
                     if ca.get(i, kw) is not None]), st=st, tag="m")
            if base in ("getmask", "getmaskarray"):
                a0 = ca.get(0, None)
                if a0 is not None:       # the mask buffer (or a fresh all-False array)
                    return join(AV(("nd",), a0.mask_orig if a0.kinds & ARRAYISH else ()),
                                self.fresh(node, ("nd",), st=st))
            parts = [self._alias_arg(ca.get(i, kw), node, st, kinds, newobj=name in T.NP_NEWOBJ_VIEW)
                     for i, kw in specs if ca.get(i, kw) is not None]
            if any(s for _, s in ca.pos):
                parts += [self._alias_arg(a.element(), node, st, kinds) for a, s in ca.pos if s]
            r = join_all(parts)
            a0 = ca.get(0, None)
            if a0 is not None and "ma" in a0.kinds and base not in ("asarray", "getdata", "filled",
                                                                    "getmask", "getmaskarray"):
                r = r.replace(kinds=r.kinds | {"ma"})
            return r if not r.is_bottom else self.fresh(node, kinds, st=st)
        if name.startswith("random.") or name in ("vectorize", "frompyfunc", "errstate"):
            if base in ("RandomState", "default_rng", "Generator", "vectorize", "frompyfunc",
                        "errstate"):
                return AV(("any",), (self.label(node),), cls=("<ext>",))
            return self.fresh(node, ("nd", "scalar"), st=st)
        if base in ("diag_indices", "indices", "where", "nonzero", "unravel_index", "triu_indices",
                    "tril_indices", "ix_", "unique", "histogram", "linalg.eigh", "eigh", "eig",
                    "svd", "qr", "slogdet", "gradient"):
            return self.fresh(node, ("tuple", "nd"), elem=self.fresh(node, ("nd",), st=st, tag="e"),
                              st=st)
        if base in ("isnan", "isclose", "isfinite", "isinf", "logical_and", "logical_or", "logical_not",
                    "logical_xor", "invert", "greater", "greater_equal", "less", "less_equal", "equal",
                    "not_equal", "isin", "in1d", "signbit"):
            # boolean result: as an index always advanced indexing (a copy)
            return self.fresh(node, ("nd",), st=st)
        # everything else in the numpy namespace allocates its result
        k = set(kinds)
        k.add("scalar")
        return self.fresh(node, k, st=st)

    # ------------------------------------------------------------------ externals / kernels
    def call_ext(self, dotted, ca, node, st):
        spec = T.EXTERNAL.get(dotted)
        if spec is None and dotted.startswith(T.EXTERNAL_PURE_PREFIX):
            spec = T.PURE
        if spec is None and dotted.startswith(T.KERNEL_EXTERNAL_PREFIX):
            k = self.eng.kernel_by_name(dotted.split(".")[-1])
            if k is not None:
                return self.apply_kernel(k, dotted, ca, node, st)
        if spec is None:
            return self.unknown_call(node, "external " + dotted, None, ca, st)
        if spec.get("partial"):
            inner = ca.pos[0][0] if ca.pos else BOTTOM
            return AV(("func",), refs=(("partial", inner, tuple(a for a, s in ca.pos[1:]),
                                        tuple(sorted(ca.kw.items(), key=lambda kv: kv[0]))),))
        if spec.get("shallow_copy"):
            a = ca.pos[0][0] if ca.pos else BOTTOM
            parts = []
            if a.kinds & CONTAINER:
                parts.append(self.fresh(node, a.kinds & CONTAINER, elem=a.elem, items=a.items, st=st))
            if a.kinds - CONTAINER - {"scalar", "none", "str"}:
                # copy.copy of an array / object: new top level object; if the value may be a
                # container (kind any) its elements are shared
                parts.append(self.fresh(node, a.kinds - CONTAINER, cls=a.cls, st=st, tag="c",
                                        elem=AV(("any",), a.orig) if "any" in a.kinds else None))
            if a.kinds & {"scalar", "none", "str"}:
                parts.append(AV(a.kinds & {"scalar", "none", "str"}, const=a.const))
            return join_all(parts)
        if dotted == "copy.deepcopy":
            a = ca.pos[0][0] if ca.pos else BOTTOM
            return self.fresh(node, a.kinds or ("any",), cls=a.cls, st=st)
        # callables handed to a pure external (curve_fit(f=...), minimize(fun), root(curve)) may be
        # called by it: their effects are those of a call with unknown arguments
        for a in ca.all_avs():
            if a.refs and any(r[0] in ("fn", "lambda", "meth") for r in a.refs):
                self.call_av(AV(("func",), refs=[r for r in a.refs if r[0] in ("fn", "lambda", "meth")]),
                             CallArgs(), node, st)
        return AV(("any",), (self.label(node, "x"),), cls=("<ext>",))

    def call_kern(self, dotted, ca, node, st):
        k = self.eng.kernels.get(dotted)
        if k is None:
            return self.unknown_call(node, "kernel " + dotted, None, ca, st)
        return self.apply_kernel(k, dotted, ca, node, st)

    def apply_kernel(self, k, dotted, ca, node, st):
        for i, p in enumerate(k["params"]):
            if p in k["modifies"]:
                a = ca.get(i, p)
                if a is not None:
                    self.site(node, "array", array_deep_orig(a),
                              why="kernel %s writes memoryview %s" % (dotted, p), sub=p)
        return AV(("any",), (self.label(node, "k"),))

    def unknown_call(self, node, what, recv, ca, st):
        o = set()
        if recv is not None:
            o |= array_deep_orig(recv)
        for a in ca.all_avs():
            o |= array_deep_orig(a)
        self.site(node, "unknown", o, why="call to %s is not in the alias table" % what)
        return AV(("any",), o | {self.label(node, "?")})

    # ------------------------------------------------------------------ package functions
    def bind(self, fi, recv, ca):
        """bind call arguments to the parameters of fi: name -> AV (None = unbound/default)"""
        params = list(fi.params)
        bound = {}
        if fi.is_method and params:
            bound[params[0][0]] = recv if recv is not None else BOTTOM
            params = params[1:]
        posn = [p for p, k in params if k == "pos"]
        var = [p for p, k in params if k == "var"]
        kwn = [p for p, k in params if k in ("pos", "kwonly")]
        kwv = [p for p, k in params if k == "kw"]
        i = 0
        extra = []
        star_seen = False
        for a, s in ca.pos:
            if s:
                star_seen = True
                e = a.element()
                for p in posn[i:]:
                    bound[p] = join(bound.get(p), e)
                extra.append(e)
                continue
            if star_seen:
                for p in posn[i:]:
                    bound[p] = join(bound.get(p), a)
                extra.append(a)
                continue
            if i < len(posn):
                bound[posn[i]] = a
                i += 1
            else:
                extra.append(a)
        kwextra = []
        for n, a in ca.kw.items():
            if n in kwn:
                bound[n] = a
            else:
                kwextra.append(a)
        for d in ca.starkw:
            e = d.element()
            for p in kwn:
                if p not in bound or star_seen:
                    bound[p] = join(bound.get(p), e) if p in bound else _opt(e)
            kwextra.append(e)
        if var:
            bound[var[0]] = AV(("tuple",), ("N:args",), elem=join_all(extra) if extra else None)
        if kwv:
            bound[kwv[0]] = AV(("dict",), ("N:kwargs",), elem=join_all(kwextra) if kwextra else None)
        return bound

    def call_fn(self, fi, recv, ca, node, st, ctor=None):
        summ = self.eng.summary_for(fi.key, self)
        self.callees.add(fi.key)
        if summ is None:
            return BOTTOM
        bound = self.bind(fi, recv, ca)
        if self.eng.spec_depth < 2 and (fi.key in self.eng.INLINE or self._wants_spec(summ, bound)):
            sp = self.eng.specialized(fi, bound)
            if sp is not None:
                summ = sp
                self.eng.inlined.add(fi.key)
        # known flag values
        known = {}
        dflt = None
        for f in summ.get("flags", ()):
            a = bound.get(f)
            if a is None:
                if dflt is None:
                    dflt = fi.defaults()
                d = dflt.get(f)
                if isinstance(d, ast.Constant):
                    known[f] = bool(d.value)
                continue
            if getattr(a, "_optional", False):
                continue
            if a.const is not NOCONST and isinstance(a.const, (bool, type(None), int, str)):
                known[f] = bool(a.const)
            else:
                # a flag of the caller handed through
                an = self._arg_node_for(fi, f, ca)
                if isinstance(an, ast.Name) and an.id in self.facts and an.id not in self.rebound:
                    known[f] = self.facts[an.id]
        cases = [c for c in summ["cases"] if all(known.get(k, v) == v for k, v in c["when"].items())]
        if not cases:
            cases = summ["cases"]

        pnames = {p for p, _ in fi.params}

        def subst(t):
            if t == "N":
                lab = self.label(node, "r")
                return (lab,)
            if t.startswith("P:"):
                if t[2:] not in pnames:
                    return (t,)          # free variable of a closure: parameter of the enclosing fn
                return deep_orig(bound.get(t[2:]))
            if t.startswith("S:"):
                head, _, path = t[2:].partition(".")
                b = bound.get(head)
                out = set()
                if b is not None:
                    for o in b.orig:
                        if o.startswith("P:"):
                            out.add(_cap("S:" + o[2:] + "." + path))
                        elif o.startswith("S:"):
                            out.add(_cap(o + "." + path))
                        else:
                            out.add(o)
                return out
            return (t,)

        result = BOTTOM
        for c in cases:
            for p, roots in c.get("modifies", {}).items():
                a = bound.get(p)
                if a is None:
                    continue
                self.site(node, "array", array_deep_orig(a), sub=p, callee=fi,
                          why="callee %s modifies its argument `%s`" % (fi.oblname, p), roots=roots)
            for t, roots in c.get("mutates_stored", {}).items():
                self.site(node, "array", set(subst(t)), sub="~stored", callee=fi,
                          why="callee %s mutates stored state %s" % (fi.oblname, t), roots=roots)
            for p in c.get("mod_containers", ()):
                a = bound.get(p)
                if a is not None:
                    self.site(node, "container", {o for o in deep_orig(a)
                                                  if o.startswith(("P:", "S:"))},
                              sub=p, callee=fi, why="callee mutates container argument " + p)
        for c in cases:
            for src, dst in c.get("retains", ()):
                so = set(subst(src))
                for d in subst(dst):
                    self.retain(so, d, st, ctor)
            if c.get("returns") is not None:
                result = join(result, ret_to_av(c["returns"], subst))
        if self.loop_depth:
            self.recency(st, self.label(node, "r"))
        return result

    def _wants_spec(self, summ, bound):
        """the generic contract says `modifies p` but the argument is a pure python container
        (dict / list of non-arrays): re-analyse the callee with the argument kinds"""
        for c in summ["cases"]:
            for p in c.get("modifies", {}):
                a = bound.get(p)
                if a is not None and a.kinds and a.kinds <= CONTAINER and a.kinds & {"dict"}:
                    return True
        return False

    def _arg_node_for(self, fi, pname, ca):
        if ("kw", pname) in ca.nodes:
            return ca.nodes[("kw", pname)]
        params = [p for p, k in fi.params if k == "pos"]
        if fi.is_method:
            params = params[1:]
        if pname in params:
            i = params.index(pname)
            if i < len(ca.pos) and not any(s for _, s in ca.pos[: i + 1]):
                return ca.nodes.get(("pos", i))
        return None

    def retain(self, src_origins, dst, st, ctor=None):
        """src memory becomes reachable from stored location dst"""
        if dst.startswith("N:"):
            # stored into a locally owned object: the object now reaches src
            if ctor is not None:
                ctor.update(o for o in src_origins if not o.startswith("N:") or o != dst)
            else:
                for o in src_origins:
                    if o.startswith("N:") and o != dst:
                        st.esc.setdefault(o, dst)
            return
        for o in src_origins:
            if o.startswith("N:"):
                st.esc[o] = dst
            elif o.startswith(("P:", "S:", "G:")):
                if o != dst:
                    self.retains.add((o, dst))


def _opt(av):
    a = AV(av.kinds, av.orig, av.elem, av.items, av.refs, av.cls, NOCONST)
    return a
