"""Statement semantics + per-function analyzer of the `frames` abstract interpreter."""
import ast

from . import frames_tables as T
from .frames_calls import CallMixin
from .frames_dom import (AV, ARRAYISH, BOTTOM, NONE, NOCONST, SCALAR, STR, array_deep_orig,
                         av_to_ret, deep_orig, join, join_all)
from .frames_expr import CONTAINER, CallArgs, ExprMixin
from .frames_pkg import _flatten_targets, _txt, _walk_own

MAX_FLAGS = 4


class State:
    __slots__ = ("env", "esc", "dead")

    def __init__(self, env=None, esc=None, dead=False):
        self.env = env if env is not None else {}
        self.esc = esc if esc is not None else {}
        self.dead = dead

    def copy(self):
        return State(dict(self.env), dict(self.esc), self.dead)

    def same(self, other):
        return self.env == other.env and self.esc == other.esc


def join_states(a, b):
    if a is None or a.dead:
        return b.copy() if b is not None else None
    if b is None or b.dead:
        return a.copy()
    env = dict(a.env)
    for k, v in b.env.items():
        env[k] = join(env.get(k), v) if k in env else v
    esc = dict(a.esc)
    for k, v in b.esc.items():
        esc.setdefault(k, v)
    return State(env, esc, False)


def find_flags(fi):
    """parameters that are never re-bound and are used as bare truth values in tests"""
    params = [p for p, k in fi.params if k in ("pos", "kwonly")]
    if fi.is_method:
        params = params[1:]
    rebound = stored_names(fi.node)
    counts = {}

    def visit_test(t):
        if isinstance(t, ast.Name):
            if t.id in params and t.id not in rebound:
                counts[t.id] = counts.get(t.id, 0) + 1
        elif isinstance(t, ast.UnaryOp) and isinstance(t.op, ast.Not):
            visit_test(t.operand)
        elif isinstance(t, ast.BoolOp):
            for v in t.values:
                visit_test(v)

    for n in _walk_own(fi.node):
        if isinstance(n, (ast.If, ast.IfExp, ast.While)):
            visit_test(n.test)
    # parameters with a boolean default that are never re-bound (e.g. `info * info_ret`)
    for p, d in fi.defaults().items():
        if isinstance(d, ast.Constant) and isinstance(d.value, bool) and p in params \
                and p not in rebound and p not in counts:
            uses = sum(1 for n in _walk_own(fi.node) if isinstance(n, ast.Name) and n.id == p
                       and isinstance(n.ctx, ast.Load))
            only_forwarded = all(_is_call_arg(fi.node, p))
            if uses and not only_forwarded:
                counts[p] = uses
    flags = sorted(counts, key=lambda k: (-counts[k], k))[:MAX_FLAGS]
    return sorted(flags)


def _is_call_arg(fnode, p):
    """yields True for each use of name p that is merely an argument of a call"""
    parents = {}
    for n in ast.walk(fnode):
        for ch in ast.iter_child_nodes(n):
            parents[id(ch)] = n
    for n in _walk_own(fnode):
        if isinstance(n, ast.Name) and n.id == p and isinstance(n.ctx, ast.Load):
            par = parents.get(id(n))
            yield isinstance(par, (ast.Call, ast.keyword))


def stored_names(fnode):
    out = set()
    for n in _walk_own(fnode):
        if isinstance(n, ast.Name) and isinstance(n.ctx, (ast.Store, ast.Del)):
            out.add(n.id)
        elif isinstance(n, (ast.FunctionDef, ast.ClassDef)):
            out.add(n.name)
        elif isinstance(n, (ast.Import, ast.ImportFrom)):
            for a in n.names:
                out.add((a.asname or a.name).split(".")[0])
    for n in fnode.body:
        if isinstance(n, (ast.FunctionDef, ast.ClassDef)):
            out.add(n.name)
    for n in ast.walk(fnode):
        if isinstance(n, (ast.FunctionDef,)) and n is not fnode:
            out.add(n.name)
    return out


class FnAnalyzer(ExprMixin, CallMixin):
    def __init__(self, eng, fi, facts):
        self.eng = eng
        self.pkg = eng.pkg
        self.fi = fi
        self.facts = dict(facts)
        self.closure = eng.closures.get(fi.key, {}) if fi.parent is not None else {}
        self.rebound = stored_names(fi.node)
        self.local_names = set(self.rebound) | {p for p, _ in fi.params}
        self.sites = {}
        self.returns = []
        self.retains = set()
        self.assigns = set()
        self.reads = set()
        self.callees = set()
        self.assumed_callables = set()
        self.lambdas = eng.lambdas
        self.loop_depth = 0
        self.breaks = []
        self.continues = []
        self._st = None
        self.numbering = self.pkg.site_numbering(fi)
        self.final_env = {}

    # ------------------------------------------------------------------ run
    preset_env = None

    def initial_state(self):
        if self.preset_env is not None:
            return State(dict(self.preset_env))
        env = {}
        kinds = self.eng.kind_annotations(self.fi)
        first = True
        for p, k in self.fi.params:
            if first and self.fi.is_method:
                first = False
                env[p] = AV(("obj",), ("P:" + p,), cls=(self.fi.cls,))
                continue
            first = False
            if k == "var":
                env[p] = AV(("tuple",), ("N:args",), elem=AV(("any",), ("P:" + p,)))
            elif k == "kw":
                env[p] = AV(("dict",), ("N:kwargs",), elem=AV(("any",), ("P:" + p,)))
            else:
                env[p] = self.eng.param_av(self.fi, p, kinds.get(p))
        return State(env)

    def run(self):
        st = self.initial_state()
        st = self.exec_block(self.fi.node.body, st)
        if not st.dead:
            self.returns.append((NONE, dict(st.esc)))
        self.final_env = st.env
        return self

    # ------------------------------------------------------------------ sites
    def site(self, node, kind, origins, why="", sub=None, callee=None, roots=None):
        st = self._st
        bad = set()
        for o in origins:
            if o.startswith("N:"):
                if st is not None and o in st.esc:
                    bad.add(st.esc[o])
                elif o in ("N:args", "N:kwargs"):
                    continue
            else:
                bad.add(o)
        key = (id(node), sub)
        rec = self.sites.get(key)
        if rec is None:
            rec = {"node": node, "sub": sub, "kind": kind, "bad": set(), "all": set(),
                   "why": why, "callee": callee, "roots": set(), "line": getattr(node, "lineno", 0),
                   "col": getattr(node, "col_offset", 0)}
            self.sites[key] = rec
        if kind == "array" and rec["kind"] == "container":
            rec["kind"] = "array"
        elif kind == "unknown":
            rec["kind"] = "unknown"
        rec["bad"] |= bad
        rec["all"] |= set(origins)
        if roots:
            rec["roots"] |= set(roots)
        return rec

    # ------------------------------------------------------------------ blocks
    def exec_block(self, stmts, st):
        for s in stmts:
            if st.dead:
                break
            self._st = st
            m = getattr(self, "ex_" + type(s).__name__, None)
            if m is None:
                for ch in ast.iter_child_nodes(s):
                    if isinstance(ch, ast.expr):
                        self.ev(ch, st)
                continue
            r = m(s, st)
            if r is not None:
                st = r
        return st

    def ex_Expr(self, s, st):
        self.ev(s.value, st)

    def ex_Pass(self, s, st):
        pass

    def ex_Global(self, s, st):
        pass

    ex_Nonlocal = ex_Global

    def ex_Return(self, s, st):
        v = self.ev(s.value, st) if s.value is not None else NONE
        self.returns.append((v, dict(st.esc)))
        st.dead = True

    def ex_Raise(self, s, st):
        if s.exc is not None:
            self.ev(s.exc, st)
        st.dead = True

    def ex_Assert(self, s, st):
        self.ev(s.test, st)
        r = self.refined(s.test, st, True)
        st.env = r.env

    def ex_Break(self, s, st):
        if self.breaks:
            self.breaks[-1].append(st.copy())
        st.dead = True

    def ex_Continue(self, s, st):
        if self.continues:
            self.continues[-1].append(st.copy())
        st.dead = True

    def ex_Import(self, s, st):
        table = {}
        self.pkg._imports(self.fi.module, s, table)
        for name, imp in table.items():
            if imp[0] == "mod":
                st.env[name] = self.symbol_av(("mod", imp[1]))
            else:
                st.env[name] = self.symbol_av(self.pkg.resolve_dotted(imp[1] + "." + imp[2]))

    ex_ImportFrom = ex_Import

    def ex_FunctionDef(self, s, st):
        key = self.fi.key + "." + s.name
        env = dict(self.closure)
        env.update(st.env)
        self.eng.set_closure(key, env)
        st.env[s.name] = AV(("func",), refs=(("fn", key),))
        for d in s.args.defaults + [d for d in s.args.kw_defaults if d is not None]:
            self.ev(d, st)

    def ex_ClassDef(self, s, st):
        st.env[s.name] = AV(("func", "any"), ())

    def ex_Delete(self, s, st):
        for t in s.targets:
            if isinstance(t, ast.Name):
                st.env.pop(t.id, None)
            elif isinstance(t, ast.Subscript):
                base = self.ev(t.value, st)
                self.index_kind(t.slice, st)
                if base.kinds & {"obj"} or (base.cls and not base.kinds & CONTAINER):
                    ms = []
                    for c in sorted(self.classes_of(base)):
                        ms += self.pkg.lookup_method(c, "__delitem__")
                    ca = CallArgs()
                    ca.pos.append((self.ev(t.slice, st) if not isinstance(t.slice, ast.Slice)
                                   else SCALAR, False))
                    for m in ms:
                        self.call_fn(m, base, ca, t, st)
                else:
                    self.site(t, "container", {o for o in base.orig if o.startswith(("P:", "S:"))},
                              why="del item")
            elif isinstance(t, ast.Attribute):
                base = self.ev(t.value, st)
                if "P:self" in base.orig:
                    self.assigns.add(t.attr)
                for c in sorted(self.classes_of(base)):
                    found, dl = self.pkg.lookup_prop(c, t.attr, "deleter")
                    for d in dl:
                        self.call_fn(d, base, CallArgs(), t, st)

    # ------------------------------------------------------------------ control flow
    def ex_If(self, s, st):
        t = self.truth(s.test, st)
        self.ev(s.test, st)
        if t is True:
            r = self.exec_block(s.body, self.refined(s.test, st, True))
            return r
        if t is False:
            return self.exec_block(s.orelse, self.refined(s.test, st, False))
        a = self.exec_block(s.body, self.refined(s.test, st, True))
        b = self.exec_block(s.orelse, self.refined(s.test, st, False))
        if a.dead and b.dead:
            a.dead = True
            return a
        return join_states(a, b)

    def _loop(self, s, st, is_for):
        self.loop_depth += 1
        self.breaks.append([])
        self.continues.append([])
        entry = st.copy()
        head = entry
        it = None
        for _ in range(8):
            cur = head.copy()
            self._st = cur
            if is_for:
                it = self.ev(s.iter, cur)
                self.bind_target(s.target, self.iter_elem(it, s.iter, cur), cur, s)
                body_in = cur
            else:
                self.ev(s.test, cur)
                body_in = self.refined(s.test, cur, True)
            out = self.exec_block(s.body, body_in)
            for c in self.continues[-1]:
                out = join_states(out, c)
            self.continues[-1] = []
            new_head = join_states(entry, out) if out is not None else entry.copy()
            if new_head.same(head):
                head = new_head
                break
            head = new_head
        brk = self.breaks.pop()
        self.continues.pop()
        self.loop_depth -= 1
        exit_st = head.copy()
        if is_for:
            pass
        else:
            t = self.truth(s.test, head)
            if t is True:          # while True: only leaves through break
                exit_st.dead = True
        if s.orelse and not exit_st.dead:
            exit_st = self.exec_block(s.orelse, exit_st)
        for b in brk:
            exit_st = join_states(exit_st, b)
        return exit_st

    def ex_For(self, s, st):
        return self._loop(s, st, True)

    def ex_While(self, s, st):
        return self._loop(s, st, False)

    def ex_With(self, s, st):
        for item in s.items:
            v = self.ev(item.context_expr, st)
            if item.optional_vars is not None:
                self.bind_target(item.optional_vars, v, st, s)
        return self.exec_block(s.body, st)

    def ex_Try(self, s, st):
        pre = st.copy()
        body = self.exec_block(s.body, st)
        mid = State(body.env, body.esc, False)
        hin = join_states(pre, mid)
        outs = []
        if not body.dead:
            outs.append(self.exec_block(s.orelse, body) if s.orelse else body)
        for h in s.handlers:
            hs = hin.copy()
            if h.type is not None:
                self.ev(h.type, hs)
            if h.name:
                hs.env[h.name] = AV(("obj",), ())
            outs.append(self.exec_block(h.body, hs))
        out = None
        for o in outs:
            if not o.dead:
                out = join_states(out, o) if out is not None else o
        if out is None:
            out = hin.copy()
            out.dead = True
            if s.finalbody:
                f = State(out.env, out.esc, False)
                self.exec_block(s.finalbody, f)
            return out
        if s.finalbody:
            out = self.exec_block(s.finalbody, out)
        return out

    # ------------------------------------------------------------------ assignments
    def ex_Assign(self, s, st):
        v = self.ev(s.value, st)
        for t in s.targets:
            self.bind_target(t, v, st, s)

    def ex_AnnAssign(self, s, st):
        if s.value is not None:
            self.bind_target(s.target, self.ev(s.value, st), st, s)

    def bind_target(self, t, v, st, ctx):
        if isinstance(t, ast.Name):
            st.env[t.id] = v
        elif isinstance(t, (ast.Tuple, ast.List)):
            n = len(t.elts)
            star = any(isinstance(e, ast.Starred) for e in t.elts)
            exact = (v.items is not None and len(v.items) == n and not star)
            for i, e in enumerate(t.elts):
                if isinstance(e, ast.Starred):
                    self.bind_target(e.value, AV(("list",), (self.label(e),), elem=v.element()),
                                     st, ctx)
                elif exact and v.kinds <= {"tuple"}:
                    self.bind_target(e, v.items[i], st, ctx)
                elif exact:
                    self.bind_target(e, join(v.items[i], AV(v.kinds - {"tuple"}, v.orig).element()
                                             if (v.kinds - {"tuple"}) else v.items[i]), st, ctx)
                else:
                    self.bind_target(e, v.element(), st, ctx)
        elif isinstance(t, ast.Subscript):
            self.store_subscript(t, v, st)
        elif isinstance(t, ast.Attribute):
            base = self.ev(t.value, st)
            self.store_attr(base, t.attr, v, t, st)
        elif isinstance(t, ast.Starred):
            self.bind_target(t.value, v, st, ctx)

    def store_subscript(self, t, v, st):
        base = self.ev(t.value, st)
        ik = self.index_kind(t.slice, st)
        key_only = ik == "key" and not (base.kinds & {"nd", "ma"})
        if base.kinds & ARRAYISH and not key_only:
            # a masked array item store writes data and mask
            self.site(t, "array", base.orig | base.mask_orig, why="subscript store into an array")
        if base.kinds & CONTAINER or (key_only and base.kinds & {"any"}):
            self.container_mut(t, base, st, v)
            if isinstance(t.value, ast.Name) and t.value.id in st.env:
                cur = st.env[t.value.id]
                if cur.kinds & CONTAINER:
                    if cur.items is not None:
                        st.env[t.value.id] = AV(cur.kinds, cur.orig,
                                                elem=join(join_all(cur.items), v), cls=cur.cls)
                    else:
                        st.env[t.value.id] = cur.replace(elem=join(cur.elem, v))
        if base.kinds & {"obj"} and not base.kinds & (ARRAYISH | CONTAINER):
            # item store into an object (external mesh objects ...): the value escapes
            for o in deep_orig(v):
                if o.startswith("N:"):
                    st.esc.setdefault(o, "X:" + _txt(t.value))

    def store_attr(self, base, attr, v, node, st, dynamic=False):
        if base.kinds & ARRAYISH and not dynamic:
            if attr in T.ARR_MUTATE_ATTR_STORES:
                self.site(node, "array", base.mask_orig if attr in ("mask", "_mask", "recordmask")
                          else (base.orig | base.mask_orig),
                          why="attribute store .%s writes array memory in place%s"
                              % (attr, " (a masked array created with copy=False shares its mask)"
                                 if attr == "mask" else ""))
                if not base.kinds - {"nd", "ma"}:
                    return
            elif attr in T.ARR_META_ATTR_STORES and not base.kinds - {"nd", "ma"}:
                return
        if any(r[0] in ("mod", "npmod", "cls") for r in base.refs) and not base.orig:
            return
        if not (base.kinds & {"obj", "any"}):
            return
        classes = self.classes_of(base)
        handled = False
        ca = CallArgs()
        ca.pos.append((v, False))
        if not dynamic:
            if classes:
                for c in sorted(classes):
                    found, setters = self.pkg.lookup_prop(c, attr, "setter")
                    if found:
                        handled = True
                        for sfi in setters:
                            self.call_fn(sfi, base, ca, node, st)
                    for m in self.pkg.lookup_method(c, "__setattr__"):
                        self.call_fn(m, base, CallArgs(), node, st)
            else:
                for ci, d in self.pkg.props_by_name.get(attr, ()):
                    handled = True
                    if "setter" in d:
                        self.call_fn(d["setter"], base, ca, node, st)
            if "P:self" in base.orig and attr in self.pkg.props_by_name and handled:
                self.assigns.add(attr)
        if handled:
            return
        if "P:self" in base.orig:
            self.assigns.add(attr)
        self.eng.note_attr(attr, v)
        if not v.only_immutable:
            so = deep_orig(v)
            for dst in self.recv_paths(base, attr):
                self.retain(so, dst, st)

    def ex_AugAssign(self, s, st):
        t = s.target
        rhs = self.ev(s.value, st)
        if isinstance(t, ast.Name):
            cur = self.lookup(t.id, st, t)
            if cur.kinds & ARRAYISH:
                self.site(t, "array", cur.orig | cur.mask_orig,
                          why="augmented assignment on an array operates in place")
            if cur.kinds & {"list", "dict", "set"}:
                self.container_mut(t, cur, st, rhs.element())
                cur = st.env.get(t.id, cur)
            if cur.only_immutable:
                if rhs.only_immutable:
                    st.env[t.id] = STR if "str" in cur.kinds else SCALAR
                else:
                    st.env[t.id] = self.fresh(s, ("nd", "scalar"), st=st)
            elif cur.kinds - ARRAYISH - {"list", "dict", "set"}:
                st.env[t.id] = join(cur, self.fresh(s, ("nd", "scalar"), st=st))
            return
        if isinstance(t, ast.Subscript):
            base = self.ev(t.value, st)
            ik = self.index_kind(t.slice, st)
            cur = self.subscript_of(base, ik, t, st)
            o = set()
            kind = None
            key_only = ik == "key" and not (base.kinds & {"nd", "ma"})
            if base.kinds & ARRAYISH and not key_only:
                o |= base.orig | base.mask_orig
                kind = "array"
            if cur.kinds & ARRAYISH:
                o |= cur.orig | cur.mask_orig
                kind = "array"
            if kind:
                self.site(t, "array", o, why="augmented assignment on an array element/slice "
                                             "operates in place")
            if base.kinds & CONTAINER or key_only:
                self.container_mut(t, base, st, None if cur.kinds & ARRAYISH else rhs)
            return
        if isinstance(t, ast.Attribute):
            base = self.ev(t.value, st)
            cur = self.attr_of(base, t.attr, t, st)
            if cur.kinds & ARRAYISH:
                self.site(t, "array", cur.orig, why="augmented assignment on an array attribute "
                                                    "operates in place")
            self.store_attr(base, t.attr, join(cur, rhs) if not cur.only_immutable else SCALAR,
                            t, st)

    # ------------------------------------------------------------------ summary of this run
    def case_summary(self):
        params = {p for p, _ in self.fi.params}
        modifies = {}
        stored = {}
        contain = set()
        for rec in self.sites.values():
            if rec["kind"] == "container":
                for o in rec["bad"]:
                    if o.startswith("P:") and o[2:] in params:
                        contain.add(o[2:])
                continue
            roots = rec["roots"] or {("self", id(rec["node"]), rec["sub"])}
            for o in rec["bad"]:
                if o.startswith("P:"):
                    modifies.setdefault(o[2:], set()).update(roots)
                elif o.startswith(("S:", "G:")):
                    stored.setdefault(o, set()).update(roots)
        ret = None
        for v, esc in self.returns:
            from .frames_dom import join_ret
            ret = join_ret(ret, av_to_ret(v, esc))
        return {"modifies": modifies, "mutates_stored": stored, "mod_containers": contain,
                "returns": ret, "retains": set(self.retains)}
