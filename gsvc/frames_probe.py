"""Native aliasing probes for the `frames` engine.

run_probes(probes, src, python) executes the probe table in ONE subprocess of the given
interpreter with PYTHONPATH=<src> first (so a scratch copy of gstools is the one under test),
and returns one result per probe.

A probe is a dict  {id, entry, opts, setup, call}.  `setup` and `call` are python source.
After `setup` every numpy array (or masked array, or list/tuple of arrays) bound to a name
not starting with `_` in the probe namespace is snapshotted byte-for-byte (data and mask);
after `call` the snapshots are compared.  Variable names are the parameter names of the entry
point (role of the array); names starting with `stored_` / `returned_` are arrays stored in an
object or returned by an earlier call.

When run as a script:  python frames_probe.py <probes.json>   (prints a JSON list)
"""
import json
import os
import subprocess
import sys
import tempfile


def _harness(path):
    import warnings
    import numpy as np
    warnings.simplefilter("ignore")
    import gstools as gs
    probes = json.load(open(path))
    out = []

    def A(x, dtype=np.float64):
        """aliasing layout: float64, C-contiguous, owns its data"""
        return np.array(x, dtype=dtype, order="C", copy=True)

    def snap(v):
        if isinstance(v, np.ma.MaskedArray):
            return ("ma", np.ma.getdata(v).tobytes(), np.ma.getmaskarray(v).tobytes(),
                    v.shape, str(v.dtype))
        return ("nd", v.tobytes(), b"", v.shape, str(v.dtype))

    def collect(ns):
        tr = {}
        for k, v in ns.items():
            if k.startswith("_") or k in ("np", "gs", "A", "rng"):
                continue
            if isinstance(v, np.ndarray):
                tr[k] = v
            elif isinstance(v, (list, tuple)) and v and all(isinstance(e, np.ndarray) for e in v):
                for i, e in enumerate(v):
                    tr["%s[%d]" % (k, i)] = e
        return tr

    def short(v):
        if isinstance(v, np.ma.MaskedArray):
            return {"data": np.ma.getdata(v).ravel()[:6].tolist(),
                    "mask": np.ma.getmaskarray(v).ravel()[:6].tolist()}
        return v.ravel()[:6].tolist()

    for i, p in enumerate(probes):
        res = {"id": p["id"], "entry": p["entry"], "opts": p.get("opts", ""), "changed": {},
               "error": None, "tracked": []}
        ns = {"np": np, "gs": gs, "A": A, "rng": np.random.RandomState(p.get("seed", 20201 + i))}
        try:
            exec(p["setup"], ns)
            tr = collect(ns)
            res["tracked"] = sorted(tr)
            before = {k: (snap(v), short(v)) for k, v in tr.items()}
        except Exception as e:           # noqa
            import traceback
            res["error"] = "setup: %s: %s | %s" % (type(e).__name__, e,
                                                   traceback.format_exc().strip().split("\n")[-3:])
            out.append(res)
            continue
        try:
            exec(p["call"], ns)
        except Exception as e:           # noqa
            import traceback
            res["error"] = "%s: %s | %s" % (type(e).__name__, e,
                                            traceback.format_exc().strip().split("\n")[-3:])
        # arrays are compared even if the call raised: a write before the exception counts
        for k, v in tr.items():
            s = snap(v)
            if s != before[k][0]:
                res["changed"][k] = {"before": before[k][1], "after": short(v),
                                     "shape": list(v.shape), "dtype": str(v.dtype)}
        out.append(res)
    json.dump({"gstools": os.path.dirname(os.path.abspath(gs.__file__)), "results": out}, sys.stdout)


def run_probes(probes, src, python, timeout=600):
    with tempfile.TemporaryDirectory(prefix="frames_probe_") as d:
        pth = os.path.join(d, "probes.json")
        json.dump(probes, open(pth, "w"))
        env = dict(os.environ)
        env["PYTHONPATH"] = src + os.pathsep + env.get("PYTHONPATH", "")
        env["PYTHONDONTWRITEBYTECODE"] = "1"
        env.setdefault("OMP_NUM_THREADS", "1")
        env["MPLBACKEND"] = "Agg"
        r = subprocess.run([python, os.path.abspath(__file__), pth], capture_output=True,
                           text=True, env=env, timeout=timeout, cwd=d)
        if r.returncode != 0:
            raise RuntimeError("probe harness failed: " + r.stderr[-2000:])
        txt = r.stdout
        data = json.loads(txt[txt.index('{"gstools"'):])
        want = os.path.realpath(os.path.join(src, "gstools"))
        if os.path.realpath(data["gstools"]) != want:
            raise RuntimeError("probe harness imported gstools from %s, expected %s"
                               % (data["gstools"], want))
        return data["results"]


if __name__ == "__main__":
    _harness(sys.argv[1])
