"""Bounded stand-in for T6 (Cython + gcc + OpenMP translate the .pyx faithfully); never a proof.

(1) interpretation of the lowered current .pyx  vs  the compiled .so next to it, on VERIF_SEED
    driven inputs of sizes 0,1,2,... (status BOUNDED with the bound spelled out; a difference is
    FAILED with the concrete input -- this also fires when the artefact is stale w.r.t. the source);
(2) thorough tier: the Cython generated C is recompiled with -fopenmp into a mktemp directory
    outside /repo and /verif (deleted afterwards) and the kernels are run in a fresh interpreter for
    num_threads in {None,1,2,3,4,8,16}; results must be bit-identical;
(3) ``artefact.defining_sums`` (both tiers, independent of the lowering): the installed compiled
    kernel vs the reference evaluation of the defining sums in kern_ref.py, for every num_threads in
    THREADS, plus bit-identity of the compiled results across those num_threads values.

A function whose source (or the source of a callee) is outside the lowering subset cannot be
interpreted: its ``artefact.differential`` obligation is UNDECIDED (never held); (3) still runs.
"""
from __future__ import annotations

import hashlib
import json
import os
import shutil
import subprocess
import sys
import sysconfig
import tempfile
import time
import zlib

import numpy as np

from . import core, kern_interp, kern_native, kern_ref, lower_pyx

THREADS = [None, 1, 2, 3, 4, 8, 16]


# ------------------------------------------------------------------------------------------------
# inputs: exact principal size n
# ------------------------------------------------------------------------------------------------
def _pos(rng, D, n, latlon=False):
    if latlon:
        return np.vstack([rng.uniform(-80, 80, size=n), rng.uniform(-170, 170, size=n)])
    if rng.random() < 0.5:
        p = rng.integers(0, 5, size=(D, n)).astype(float)
    else:
        p = rng.normal(size=(D, n))
    return p


def _field(rng, F, n, nan=True):
    f = rng.normal(size=(F, n))
    if nan and rng.random() < 0.7:
        f[rng.random((F, n)) < 0.2] = np.nan
    return f


def _edges(rng, scale=1.0):
    nb = int(rng.integers(1, 6))
    if rng.random() < 0.5:
        st = rng.integers(1, 3, size=nb).astype(float)
    else:
        st = rng.uniform(0.2, 1.5, size=nb)
    first = 0.0 if rng.random() < 0.7 else 0.5
    return (np.concatenate([[first], first + np.cumsum(st)]) * scale)


def gen_inputs(entry, rng, n):
    if entry in ("summate", "summate_incompr", "summate_fourier"):
        D = int(rng.integers(1, 4))
        N = int(rng.integers(0, n + 1)) if rng.random() < 0.5 else n
        cov = rng.normal(size=(D, N))
        base = {"z_1": rng.normal(size=N), "z_2": rng.normal(size=N), "pos": rng.normal(size=(D, n))}
        if entry == "summate_fourier":
            return {"spectrum_factor": rng.uniform(0, 1, size=N), "modes": cov, **base}
        return {"cov_samples": cov, **base}
    if entry in ("calc_field_krige", "calc_field_krige_and_variance"):
        m = min(n, 24)
        return {"krig_mat": rng.normal(size=(m, m)), "krig_vecs": rng.normal(size=(m, n)),
                "cond": rng.normal(size=m)}
    if entry == "unstructured":
        latlon = rng.random() < 0.3
        D = 2 if latlon else int(rng.integers(1, 4))
        return {"f": _field(rng, int(rng.integers(1, 3)), n), "bin_edges": _edges(rng, 0.3 if latlon else 1.0),
                "pos": _pos(rng, D, n, latlon), "estimator_type": "mc"[int(rng.integers(0, 2))],
                "distance_type": "h" if latlon else "e"}
    if entry == "directional":
        D = int(rng.integers(2, 4))
        Dn = int(rng.integers(1, 4))
        d = rng.normal(size=(Dn, D)) if rng.random() < 0.5 else np.eye(D)[np.arange(Dn) % D]
        d = d / np.linalg.norm(d, axis=1, keepdims=True)
        return {"f": _field(rng, int(rng.integers(1, 3)), n), "bin_edges": _edges(rng), "pos": _pos(rng, D, n),
                "direction": np.ascontiguousarray(d), "angles_tol": float([np.pi / 8, 0.4, 1.2][int(rng.integers(0, 3))]),
                "bandwidth": float([-1.0, 0.7, 3.0][int(rng.integers(0, 3))]),
                "separate_dirs": bool(rng.integers(0, 2)), "estimator_type": "mc"[int(rng.integers(0, 2))]}
    if entry in ("structured", "ma_structured"):
        J = int(rng.integers(0, 5))
        inp = {"f": rng.normal(size=(n, J))}
        if entry == "ma_structured":
            inp["mask"] = (rng.random((n, J)) < 0.3).astype(np.uint8)
        inp["estimator_type"] = "mc"[int(rng.integers(0, 2))]
        return inp
    if entry == "set_num_threads":
        return {"num_threads": [None, 1, 2, 5][n % 4]}
    raise KeyError(entry)


ENTRY_POINTS = [
    ("src/gstools/field/summator.pyx", "summate"), ("src/gstools/field/summator.pyx", "summate_incompr"),
    ("src/gstools/field/summator.pyx", "summate_fourier"),
    ("src/gstools/krige/krigesum.pyx", "calc_field_krige_and_variance"),
    ("src/gstools/krige/krigesum.pyx", "calc_field_krige"),
    ("src/gstools/variogram/estimator.pyx", "unstructured"), ("src/gstools/variogram/estimator.pyx", "directional"),
    ("src/gstools/variogram/estimator.pyx", "structured"), ("src/gstools/variogram/estimator.pyx", "ma_structured"),
    ("src/gstools/field/summator.pyx", "set_num_threads"), ("src/gstools/krige/krigesum.pyx", "set_num_threads"),
    ("src/gstools/variogram/estimator.pyx", "set_num_threads"),
]


def _args(fi, inp):
    out = []
    for pn, ct, _ in fi.params:
        if pn not in inp:
            break
        v = inp[pn]
        out.append(v.copy() if isinstance(v, np.ndarray) else v)
    return out


def _cmp(a, b):
    """-> (agree, bitwise, maxrel)"""
    if isinstance(a, tuple) or isinstance(b, tuple):
        if not (isinstance(a, tuple) and isinstance(b, tuple) and len(a) == len(b)):
            return False, False, float("inf")
        rs = [_cmp(x, y) for x, y in zip(a, b)]
        return all(r[0] for r in rs), all(r[1] for r in rs), max([r[2] for r in rs] + [0.0])
    x, y = np.asarray(a), np.asarray(b)
    if x.shape != y.shape:
        return False, False, float("inf")
    if x.dtype.kind in "iub" and y.dtype.kind in "iub":
        eq = bool(np.array_equal(x, y))
        return eq, eq, 0.0 if eq else float("inf")
    bit = bool(np.array_equal(x, y, equal_nan=True))
    if bit:
        return True, True, 0.0
    x = x.astype(float)
    y = y.astype(float)
    nanx, nany = np.isnan(x), np.isnan(y)
    if not np.array_equal(nanx, nany):
        return False, False, float("inf")
    with np.errstate(all="ignore"):
        fin = ~nanx
        if not np.array_equal(np.isinf(x), np.isinf(y)):
            return False, False, float("inf")
        fin &= ~np.isinf(x)
        den = np.maximum(np.maximum(np.abs(x[fin]), np.abs(y[fin])), 1e-300)
        rel = float(np.max(np.abs(x[fin] - y[fin]) / den)) if fin.any() else 0.0
    return rel <= 1e-12, False, rel


def sizes_for(tier, entry):
    if tier == "quick":
        return list(range(0, 41))
    big = [48, 64, 96, 128] if entry not in ("unstructured", "directional") else [48, 64, 80]
    return list(range(0, 41)) + big


def _one_entry(args):
    relpath, entry, tier, seed = args
    try:
        low = lower_pyx.lower_file(relpath)
    except lower_pyx.LoweringError as e:
        return {"status": "unlowered", "detail": str(e)}
    if entry in low.tainted:
        return {"status": "unlowered", "detail": low.failed.get(entry) or "; ".join(
            "callee %s: %s" % kv for kv in sorted(low.failed.items()))}
    fi = low.funcs[entry]
    mod = kern_native.load_compiled(low)
    if mod is None or not hasattr(mod, entry):
        return {"status": "error", "detail": "compiled artefact for %s not loadable: %s"
                % (low.short, kern_native._SO_CACHE.get(relpath + "!err", "missing"))}
    rng = np.random.default_rng([seed, zlib.crc32(entry.encode()) % 100003, 5])
    sizes = sizes_for(tier, entry)
    ncase = nbit = 0
    maxrel = 0.0
    t0 = time.time()
    for n in sizes:
        for rep_ in range(2 if n <= 8 else 1):
            inp = gen_inputs(entry, rng, n)
            it = kern_interp.Interp(low)
            try:
                r_i = ("ok", it.call(entry, _args(fi, inp)))
            except kern_interp.KernelRaise as e:
                r_i = ("raise", e.exc.split("(")[0])
            except kern_interp.InterpError as e:
                r_i = ("interp-error", str(e))
            try:
                r_c = ("ok", getattr(mod, entry)(*_args(fi, inp)))
            except ValueError:
                r_c = ("raise", "ValueError")
            except Exception as e:
                r_c = ("error", repr(e))
            ncase += 1
            if r_i[0] != r_c[0]:
                agree, bit, rel = False, False, float("inf")
            elif r_i[0] == "ok":
                agree, bit, rel = _cmp(r_i[1], r_c[1])
            else:
                agree, bit, rel = (r_i[1] == r_c[1]), True, 0.0
            nbit += bool(bit)
            if rel != float("inf"):
                maxrel = max(maxrel, rel)
            if not agree:
                return {"status": "failed", "cases": ncase,
                        "witness": {"class": "compiled artefact differs from the interpretation of its source",
                                    "entry": entry, "size": n, "inputs": kern_native.jsonable_inputs(inp),
                                    "interpretation": (r_i[0], kern_native._res_json(r_i[1]) if r_i[0] == "ok" else r_i[1]),
                                    "compiled": (r_c[0], kern_native._res_json(r_c[1]) if r_c[0] == "ok" else r_c[1])},
                        "inputs": kern_native.jsonable_inputs(inp)}
    return {"status": "ok", "cases": ncase, "bitwise_equal": nbit, "max_rel_dev": maxrel,
            "sizes": [sizes[0], sizes[-1]], "time": time.time() - t0}


def defsum_sizes(tier):
    return list(range(0, 25)) + ([] if tier == "quick" else [32, 48, 64])


def _one_defsum(args):
    """artefact.defining_sums of one entry point: needs the compiled module only"""
    relpath, entry, tier, seed = args
    t0 = time.time()
    mod = kern_native.load_compiled_rel(relpath)
    if mod is None or not hasattr(mod, entry):
        return {"status": "error", "detail": "compiled artefact for %s not loadable: %s"
                % (lower_pyx.short_of(relpath), kern_native._SO_CACHE.get(relpath + "!err", "missing"))}
    rng = np.random.default_rng([seed, zlib.crc32(entry.encode()) % 100003, 11])
    sizes = defsum_sizes(tier)
    ncase = 0
    stats = {}
    for n in sizes:
        for rep_ in range(4 if n <= 8 else 3):
            inp = gen_inputs(entry, rng, n)
            ncase += 1
            try:
                w = kern_ref.check_case(mod, entry, inp, THREADS, stats)
            except Exception as e:              # the reference itself failed: checker error
                import traceback
                return {"status": "error", "detail": "reference evaluation failed: %r\n%s"
                                                     % (e, traceback.format_exc()[-600:])}
            if w is not None:
                if w.get("checker_error"):
                    return {"status": "error", "detail": "%s (num_threads=%r): %s"
                                                         % (w["class"], w["num_threads"], w["compiled"])}
                w = dict(w, size=n, inputs=kern_native.jsonable_inputs(inp))
                return {"status": "failed", "cases": ncase, "witness": w, "inputs": w["inputs"]}
    return {"status": "ok", "cases": ncase, "sizes": [sizes[0], sizes[-1]], "time": time.time() - t0,
            "max_abs_dev": stats.get("max_abs_dev", 0.0), "max_tol_used": stats.get("max_tol_used", 0.0)}


def _task(args):
    return (_one_defsum if args[0] == "defsum" else _one_entry)(args[1:])


def _wanted(only, fn):
    return not only or only in fn or only in "artefact"


def run_differential(rep, prop, eng, tier, seed, only=None, defining_sums=True):
    """artefact.differential (+ artefact.defining_sums) obligations; one pool for both"""
    import multiprocessing
    todo = [("diff", rp, fn) for rp, fn in ENTRY_POINTS if _wanted(only, fn)]
    if defining_sums:
        todo += [("defsum", rp, fn) for rp, fn in kern_ref.ENTRY_POINTS if _wanted(only, fn)]
    ctx = multiprocessing.get_context("fork")
    with ctx.Pool(min(12, len(todo) or 1)) as pool:
        results = pool.map(_task, [(k, rp, fn, tier, seed) for k, rp, fn in todo], chunksize=1)
    summary = {}
    dsummary = {}
    for (kind, rp, fn), r in zip(todo, results):
        fid = "%s:%s" % (lower_pyx.short_of(rp), fn)
        if kind == "defsum":
            _defsum_verdict(rep, prop, eng, rp, fn, fid, r, tier, seed, dsummary)
            continue
        low = eng.lows.get(rp)
        oid = "%s/%s/artefact.differential" % (prop, eng.id_stem(rp, fn))
        if r["status"] == "unlowered" or low is None:
            rep.add(core.Obligation(oid, core.UNDECIDED, backend="kernvc",
                                    detail="source outside the supported subset: %s (no interpretation of the "
                                           "source to compare the compiled artefact with)"
                                           % r.get("detail", eng.unlowered.get(rp)), functions=[fid]))
            continue
        stale = bool(lower_pyx.stale_lines(low))
        if r["status"] == "ok":
            bound = ("interpreted lowered .pyx == compiled .so on %d seed-driven inputs, principal sizes "
                     "%d..%d (NaNs where allowed), VERIF_SEED=%d; %d bitwise equal, max rel. deviation %.1e"
                     % (r["cases"], r["sizes"][0], r["sizes"][1], seed, r["bitwise_equal"], r["max_rel_dev"]))
            rep.add(core.Obligation(oid, core.BOUNDED, backend="differential", time_s=r["time"], bound=bound,
                                    detail=("artefact stale w.r.t. source text but results agree" if stale else ""),
                                    functions=[fid]))
            summary[fid] = {k: r[k] for k in ("cases", "bitwise_equal", "max_rel_dev")}
        elif r["status"] == "failed":
            rep.add(core.Obligation(oid, core.FAILED, backend="differential",
                                    detail="compiled artefact and interpretation of the current .pyx differ%s"
                                           % (" (generated C / .so is STALE w.r.t. the .pyx)" if stale else ""),
                                    witness=r["witness"], functions=[fid],
                                    replay={"kind": "differential", "relpath": rp, "function": fn,
                                            "inputs": r["inputs"]}))
        else:
            rep.add(core.Obligation(oid, core.ERROR, backend="differential", detail=r["detail"], functions=[fid]))
    rep.extra["artefact_differential"] = summary
    if defining_sums:
        rep.extra["artefact_defining_sums"] = dsummary


def _defsum_verdict(rep, prop, eng, rp, fn, fid, r, tier, seed, dsummary):
    oid = "%s/%s/artefact.defining_sums" % (prop, eng.id_stem(rp, fn))
    if r["status"] == "ok":
        bound = ("installed compiled kernel == reference evaluation of the defining sums (gsvc/kern_ref.py; "
                 "rtol %.0e, atol %.0e*max(1,|ref|max), counts exact, NaN positions equal) for every num_threads "
                 "in %s, and the compiled results for those num_threads bit-identical to each other, on %d "
                 "seed-driven inputs, principal sizes %d..%d (NaNs in the field where allowed), VERIF_SEED=%d; "
                 "largest deviation %.1e = %.1e of the tolerance"
                 % (kern_ref.RTOL, kern_ref.ATOL, THREADS, r["cases"], r["sizes"][0], r["sizes"][1], seed,
                    r["max_abs_dev"], r["max_tol_used"]))
        rep.add(core.Obligation(oid, core.BOUNDED, backend="native-reference", time_s=r["time"], bound=bound,
                                functions=[fid]))
        dsummary[fid] = {"cases": r["cases"], "calls_of_the_compiled_kernel": r["cases"] * len(THREADS),
                         "max_abs_dev": r["max_abs_dev"], "max_fraction_of_tolerance_used": r["max_tol_used"]}
    elif r["status"] == "failed":
        w = r["witness"]
        rep.add(core.Obligation(oid, core.FAILED, backend="native-reference",
                                detail="%s: num_threads=%r, size %s, %s" % (
                                    w["class"], w.get("num_threads"), w.get("size"),
                                    ", ".join("%s=%r" % (k, w[k]) for k in ("component", "index", "reference",
                                                                              "compiled", "a", "b") if k in w)),
                                witness=w, functions=[fid],
                                replay={"kind": "defining_sums", "relpath": rp, "function": fn,
                                        "inputs": r["inputs"], "num_threads": w.get("num_threads")}))
    else:
        rep.add(core.Obligation(oid, core.ERROR, backend="native-reference", detail=r["detail"], functions=[fid]))


def replay_defining_sums(rp):
    """re-run a recorded artefact.defining_sums witness against the installed compiled kernel"""
    mod = kern_native.load_compiled_rel(rp["relpath"])
    if mod is None or not hasattr(mod, rp["function"]):
        print("compiled artefact for %s not loadable" % rp["relpath"])
        return 3
    inp = kern_ref.inputs_from_json(rp["inputs"])
    threads = list(THREADS)
    if rp.get("num_threads") not in threads:
        threads.append(rp.get("num_threads"))
    w = kern_ref.check_case(mod, rp["function"], inp, threads)
    if w is None:
        print("not reproduced: compiled %s agrees with the defining sums for num_threads in %s and is "
              "bit-identical across them" % (rp["function"], threads))
        return 0
    print(json.dumps(core._jsonable(w), indent=1)[:3000])
    print("REPRODUCED: %s" % w["class"])
    return 1


# ------------------------------------------------------------------------------------------------
# thorough: -fopenmp rebuild, bit-identity across thread counts
# ------------------------------------------------------------------------------------------------
_CHILD = r'''
import sys, json, hashlib, importlib.machinery, importlib.util, pickle
import numpy as np
so, name, cases_path = sys.argv[1], sys.argv[2], sys.argv[3]
loader = importlib.machinery.ExtensionFileLoader(name, so)
spec = importlib.util.spec_from_file_location(name, so, loader=loader)
mod = importlib.util.module_from_spec(spec); loader.exec_module(mod)
cases = pickle.load(open(cases_path, "rb"))
out = []
def digest(r):
    if isinstance(r, tuple):
        return [digest(x) for x in r]
    a = np.ascontiguousarray(np.asarray(r))
    return hashlib.sha256(a.tobytes()).hexdigest()[:16] + ":" + str(a.shape)
for entry, args, threads in cases:
    row = {}
    for t in threads:
        try:
            r = getattr(mod, entry)(*[a.copy() if isinstance(a, np.ndarray) else a for a in args], t)
            row[str(t)] = digest(r)
        except Exception as e:
            row[str(t)] = "EXC " + repr(e)
    out.append(row)
print(json.dumps(out))
'''


def run_threads(rep, prop, eng, seed, only=None):
    import pickle
    tmp = tempfile.mkdtemp(prefix="kernvc_omp_")
    try:
        pyinc = sysconfig.get_paths()["include"]
        npinc = np.get_include()
        procs = {}
        for rp in lower_pyx.KERNEL_FILES:
            # needs the paths only: also works for a file whose .pyx cannot be lowered
            low = eng.lows.get(rp) or lower_pyx.Lowered(rp)
            c = lower_pyx.generated_c_path(low)
            name = low.short[:-4].split("/")[-1]
            if c is None:
                continue
            so = os.path.join(tmp, name + sysconfig.get_config_var("EXT_SUFFIX"))
            cc = "g++" if c.endswith(".cpp") else "gcc"
            cmd = [cc, "-O2", "-fPIC", "-shared", "-fopenmp", "-w", "-DNPY_NO_DEPRECATED_API=NPY_1_7_API_VERSION",
                   "-I" + pyinc, "-I" + npinc, c, "-o", so]
            procs[rp] = (subprocess.Popen(cmd, stdout=subprocess.PIPE, stderr=subprocess.PIPE, text=True), so, name, cmd)
        built = {}
        for rp, (p, so, name, cmd) in procs.items():
            try:
                _, err = p.communicate(timeout=420)
            except subprocess.TimeoutExpired:
                p.kill()
                err = "compile timeout"
            built[rp] = (so, name, p.returncode == 0 and os.path.exists(so), (err or "")[-600:], " ".join(cmd))
        rep.extra["openmp_rebuild"] = {lower_pyx.short_of(rp): {"ok": b[2], "cmd": b[4]} for rp, b in built.items()}
        for rp, fn in ENTRY_POINTS:
            if fn == "set_num_threads" or (only and only not in fn and only not in "artefact"):
                continue
            fid = "%s:%s" % (lower_pyx.short_of(rp), fn)
            oid = "%s/%s/artefact.threads_bitwise" % (prop, eng.id_stem(rp, fn))
            if rp not in built or not built[rp][2]:
                rep.add(core.Obligation(oid, core.ERROR, backend="openmp-rebuild",
                                        detail="rebuild with -fopenmp failed: %s" % (built.get(rp, ("", "", 0, "no C"))[3]),
                                        functions=[fid]))
                continue
            so, name = built[rp][0], built[rp][1]
            rng = np.random.default_rng([seed, zlib.crc32(fn.encode()) % 100003, 9])
            cases = []
            raw = []
            for n in [0, 1, 2, 3, 5, 8, 13, 21, 34, 55, 89, 144]:
                inp = gen_inputs(fn, rng, n)
                raw.append(inp)
                cases.append((fn, [inp[p_] for p_ in kern_ref.SIGNATURES[fn]], THREADS))
            cp = os.path.join(tmp, "cases_%s.pkl" % fn)
            pickle.dump(cases, open(cp, "wb"))
            t0 = time.time()
            env = dict(os.environ)
            env.pop("OMP_NUM_THREADS", None)
            env["OMP_DYNAMIC"] = "FALSE"
            p = subprocess.run([sys.executable, "-c", _CHILD, so, name, cp], capture_output=True, text=True,
                               timeout=600, env=env, cwd=tmp)
            if p.returncode != 0:
                rep.add(core.Obligation(oid, core.ERROR, backend="openmp-rebuild",
                                        detail="child failed: " + p.stderr[-800:], functions=[fid]))
                continue
            rows = json.loads(p.stdout.strip().split("\n")[-1])
            bad = None
            for inp, row in zip(raw, rows):
                vals = {json.dumps(v) for v in row.values()}
                if len(vals) != 1 or any(str(v).startswith("EXC") for v in row.values()):
                    bad = (inp, row)
                    break
            if bad is None:
                rep.add(core.Obligation(
                    oid, core.BOUNDED, backend="openmp-rebuild", time_s=time.time() - t0,
                    bound="generated C rebuilt with gcc -O2 -fopenmp; results bit-identical for num_threads in "
                          "%s on %d seed-driven inputs (sizes 0..144), VERIF_SEED=%d" % (THREADS, len(rows), seed),
                    functions=[fid]))
            else:
                rep.add(core.Obligation(
                    oid, core.FAILED, backend="openmp-rebuild",
                    detail="results depend on the thread count",
                    witness={"class": "result depends on num_threads", "entry": fn,
                             "inputs": kern_native.jsonable_inputs(bad[0]), "digests_by_threads": bad[1]},
                    functions=[fid], replay={"kind": "threads", "function": fn,
                                             "inputs": kern_native.jsonable_inputs(bad[0])}))
    finally:
        shutil.rmtree(tmp, ignore_errors=True)
