"""Expression semantics of the `frames` abstract interpreter (mixin for FnAnalyzer)."""
import ast

from . import frames_tables as T
from .frames_dom import (AV, ARRAYISH, BOTTOM, NONE, NOCONST, SCALAR, STR, array_deep_orig, const,
                         deep_orig, join, join_all)

CONTAINER = frozenset(("list", "tuple", "dict", "set"))
CONTAINER_ONLY_METHODS = (T.LIST_MUTATE | T.DICT_MUTATE | T.DICT_PURE | {"index", "count"}) \
    - {"sort", "copy", "__setitem__", "__delitem__", "__len__", "__contains__", "__getitem__",
       "__iadd__", "__imul__", "fill", "clear"} | {"clear"}
BUILTINS = (T.BUILTIN_SCALAR | set(T.BUILTIN_CONTAINER) | T.BUILTIN_ITER | T.BUILTIN_REDUCE
            | {"getattr", "setattr", "delattr", "super", "slice", "dir", "vars", "object",
               "ValueError", "TypeError", "KeyError", "ImportError", "NotImplementedError",
               "RuntimeError", "Exception", "AttributeError", "IndexError", "UserWarning",
               "property", "staticmethod", "classmethod", "open", "NotImplemented", "Ellipsis",
               "StopIteration", "ZeroDivisionError", "AssertionError", "DeprecationWarning"})


class CallArgs:
    __slots__ = ("pos", "kw", "starkw", "nodes")

    def __init__(self):
        self.pos = []       # list of (AV, is_star)
        self.kw = {}        # name -> AV
        self.starkw = []    # list of AV (dicts)
        self.nodes = {}     # ("pos", i) / ("kw", name) -> ast node

    def get(self, i, name):
        """argument given positionally at i (no stars before it) or by keyword `name`"""
        if i is not None and i < len(self.pos) and not any(s for _, s in self.pos[: i + 1]):
            return self.pos[i][0]
        if name is not None and name in self.kw:
            return self.kw[name]
        return None

    def all_avs(self):
        out = [a.element() if s else a for a, s in self.pos]
        out += list(self.kw.values())
        out += [d.element() for d in self.starkw]
        return out


class ExprMixin:
    # ------------------------------------------------------------------ helpers
    def label(self, node, tag=""):
        return "N:L%d.%d%s" % (getattr(node, "lineno", 0), getattr(node, "col_offset", 0), tag)

    def fresh(self, node, kinds=("nd",), elem=None, items=None, cls=(), st=None, tag=""):
        lab = self.label(node, tag)
        if st is not None and self.loop_depth:
            self.recency(st, lab)
        return AV(kinds, (lab,), elem, items, (), cls, ident=False)

    def recency(self, st, lab):
        old = lab + "~"
        hit = False
        for k, v in st.env.items():
            if lab in deep_orig(v):
                hit = True
                break
        if not hit and lab not in st.esc:
            return
        from .frames_dom import map_orig
        ren = lambda o: (old,) if o == lab else (o,)
        for k in list(st.env):
            v = st.env[k]
            if lab in deep_orig(v):
                st.env[k] = map_orig(v, ren)
        if lab in st.esc:
            st.esc[old] = st.esc.pop(lab)

    def ev(self, node, st):
        m = getattr(self, "ev_" + type(node).__name__, None)
        if m is None:
            for ch in ast.iter_child_nodes(node):
                if isinstance(ch, ast.expr):
                    self.ev(ch, st)
            return AV(("any",), (self.label(node),))
        return m(node, st)

    # ------------------------------------------------------------------ leaves
    def ev_Constant(self, node, st):
        return const(node.value)

    def ev_JoinedStr(self, node, st):
        for v in node.values:
            if isinstance(v, ast.FormattedValue):
                self.ev(v.value, st)
        return STR

    def ev_Name(self, node, st):
        return self.lookup(node.id, st, node)

    def lookup(self, name, st, node=None):
        if name in st.env:
            return st.env[name]
        if name in self.closure:
            return self.closure[name]
        if name in self.local_names:
            return BOTTOM                      # local, not yet bound on this path
        r = self.pkg.resolve_symbol(self.fi.module.name, name) if self.fi is not None else None
        if r is not None:
            return self.symbol_av(r)
        if name in BUILTINS:
            if name in ("True", "False", "None"):
                return const({"True": True, "False": False, "None": None}[name])
            return AV(("func",), refs=(("builtin", name),))
        return AV(("any",), ("U:name:" + name,))

    def symbol_av(self, r):
        if r is None:
            return AV(("any",), ())
        k = r[0]
        if k == "fn":
            return AV(("func",), refs=(("fn", r[1].key),))
        if k == "cls":
            return AV(("func",), refs=(("cls", r[1].name),))
        if k == "mod":
            d = r[1]
            if d == "numpy" or d.startswith("numpy."):
                return AV(("mod",), refs=(("npmod", d[6:].lstrip(".")),))
            return AV(("mod",), refs=(("mod", d),))
        if k == "ext":
            d = r[1]
            if d.startswith("numpy."):
                return AV(("func",), refs=(("np", d[6:]),))
            return AV(("func", "any"), refs=(("ext", d),))
        if k == "kern":
            return AV(("func",), refs=(("kern", r[1]),))
        if k == "glob":
            return self.eng.global_av(r[1], r[2])
        return AV(("any",), ("U:sym",))

    # ------------------------------------------------------------------ operators
    def ev_BinOp(self, node, st):
        a = self.ev(node.left, st)
        b = self.ev(node.right, st)
        if a.only_immutable and b.only_immutable:
            if "str" in a.kinds or "str" in b.kinds:
                return STR
            return SCALAR
        ck = (a.kinds | b.kinds)
        pa = bool(a.kinds) and a.kinds <= CONTAINER
        pb = bool(b.kinds) and b.kinds <= CONTAINER
        if isinstance(node.op, ast.Add) and (pa or pb):
            if pa and pb:
                if a.items is not None and b.items is not None:
                    return self.fresh(node, ("tuple",), items=a.items + b.items, st=st)
                return self.fresh(node, a.kinds & CONTAINER, elem=join(a.element(), b.element()), st=st)
            c, o = (a, b) if pa else (b, a)
            r = self.fresh(node, c.kinds, elem=join(c.element(), o.element()), st=st)
            if o.kinds & {"nd", "ma", "any"}:
                r = join(r, self.fresh(node, ("nd",), st=st, tag="a"))
            return r
        if isinstance(node.op, ast.Mult) and (pa or pb):
            c, o = (a, b) if pa else (b, a)
            on = node.right if pa else node.left
            t = self.truth(on, st)
            if t is False and isinstance(on, ast.Name):
                return self.fresh(node, c.kinds, items=() if "tuple" in c.kinds else None, st=st)
            if t is True and isinstance(on, ast.Name) and on.id in self.facts:
                return c
            if not (o.kinds & {"nd", "ma"}):
                return self.fresh(node, c.kinds, elem=c.element(), st=st)
        kinds = {"nd"}
        if "ma" in ck:
            kinds.add("ma")
        if not (ck & {"nd", "ma"}):
            kinds.add("scalar")
        return self.fresh(node, kinds, st=st)

    def ev_UnaryOp(self, node, st):
        a = self.ev(node.operand, st)
        if isinstance(node.op, ast.Not):
            t = self.truth(node, st)
            return const(t) if t is not None else SCALAR
        if a.only_immutable:
            return SCALAR
        return self.fresh(node, (a.kinds & {"nd", "ma"}) | ({"scalar"} if not a.kinds & {"nd", "ma"}
                                                              else set()) or {"nd"}, st=st)

    def ev_BoolOp(self, node, st):
        return join_all([self.ev(v, st) for v in node.values]).replace(const=NOCONST)

    def ev_Compare(self, node, st):
        avs = [self.ev(node.left, st)] + [self.ev(c, st) for c in node.comparators]
        if all(isinstance(o, (ast.Is, ast.IsNot, ast.In, ast.NotIn)) for o in node.ops):
            t = self.truth(node, st)
            return const(t) if t is not None else SCALAR
        if all(a.only_immutable for a in avs):
            return SCALAR
        # boolean array / boolean scalar: as an index this is always advanced indexing (a copy)
        return self.fresh(node, ("nd",), st=st)

    def ev_IfExp(self, node, st):
        t = self.truth(node.test, st)
        self.ev(node.test, st)
        if t is True:
            return self.ev(node.body, self.refined(node.test, st, True))
        if t is False:
            return self.ev(node.orelse, self.refined(node.test, st, False))
        return join(self.ev(node.body, self.refined(node.test, st, True)),
                    self.ev(node.orelse, self.refined(node.test, st, False)))

    def ev_NamedExpr(self, node, st):
        v = self.ev(node.value, st)
        st.env[node.target.id] = v
        return v

    def ev_Lambda(self, node, st):
        self.lambdas[id(node)] = (node, dict(st.env))
        return AV(("func",), refs=(("lambda", id(node)),))

    def ev_Starred(self, node, st):
        return self.ev(node.value, st).element()

    def ev_Slice(self, node, st):
        for p in (node.lower, node.upper, node.step):
            if p is not None:
                self.ev(p, st)
        return SCALAR

    def ev_Await(self, node, st):
        return self.ev(node.value, st)

    def ev_Yield(self, node, st):
        if node.value is not None:
            self.returns.append((self.fresh(node, ("list",), elem=self.ev(node.value, st)),
                                 dict(st.esc)))
        return NONE

    # ------------------------------------------------------------------ displays
    def ev_Tuple(self, node, st):
        items = []
        star = False
        for e in node.elts:
            if isinstance(e, ast.Starred):
                star = True
            items.append(self.ev(e, st))
        if star:
            return self.fresh(node, ("tuple",), elem=join_all(items), st=st)
        return self.fresh(node, ("tuple",), items=items, st=st)

    def ev_List(self, node, st):
        items = [self.ev(e, st) for e in node.elts]
        return self.fresh(node, ("list",), elem=join_all(items) if items else None, st=st)

    def ev_Set(self, node, st):
        items = [self.ev(e, st) for e in node.elts]
        return self.fresh(node, ("set",), elem=join_all(items), st=st)

    def ev_Dict(self, node, st):
        vals = []
        for k, v in zip(node.keys, node.values):
            if k is None:
                vals.append(self.ev(v, st).element())
            else:
                self.ev(k, st)
                vals.append(self.ev(v, st))
        return self.fresh(node, ("dict",), elem=join_all(vals) if vals else None, st=st)

    def _comp(self, node, st, elts, kind):
        sub = st.copy()
        for g in node.generators:
            it = self.ev(g.iter, sub)
            self.bind_target(g.target, self.iter_elem(it, g.iter, sub), sub, g)
            for c in g.ifs:
                self.ev(c, sub)
        vals = [self.ev(e, sub) for e in elts]
        st.esc.update(sub.esc)
        return self.fresh(node, (kind,), elem=join_all(vals), st=st)

    def ev_ListComp(self, node, st):
        return self._comp(node, st, [node.elt], "list")

    def ev_SetComp(self, node, st):
        return self._comp(node, st, [node.elt], "set")

    def ev_GeneratorExp(self, node, st):
        return self._comp(node, st, [node.elt], "list")

    def ev_DictComp(self, node, st):
        return self._comp(node, st, [node.value], "dict")

    # ------------------------------------------------------------------ iteration
    def iter_elem(self, it, node, st):
        """element of iterating over `it` (result of evaluating node)"""
        if "dict" in it.kinds:
            keys = AV(("str", "scalar"))
            rest = it.kinds - {"dict"}
            if not rest:
                return keys
            return join(keys, AV(rest, it.orig, it.elem, it.items, it.refs, it.cls).element())
        return it.element()

    # ------------------------------------------------------------------ attributes
    def recv_paths(self, av, attr):
        out = set()
        for o in av.orig:
            if o.startswith("P:"):
                out.add(_cap("S:" + o[2:] + "." + attr))
            elif o.startswith("S:"):
                out.add(_cap(o + "." + attr))
            else:
                out.add(o)
        return out

    def classes_of(self, av, node=None):
        if av.cls:
            return set(av.cls)
        return set()

    def ev_Attribute(self, node, st):
        base = self.ev(node.value, st)
        return self.attr_of(base, node.attr, node, st)

    def attr_of(self, base, attr, node, st):
        # modules
        for r in base.refs:
            if r[0] == "npmod":
                name = (r[1] + "." if r[1] else "") + attr
                if name in ("ma", "linalg", "random", "lib", "lib.stride_tricks", "fft", "testing"):
                    return AV(("mod",), refs=(("npmod", name),))
                if name in T.NP_CONST:
                    return const(None) if name == "newaxis" else SCALAR
                return AV(("func",), refs=(("np", name),))
            if r[0] == "mod":
                rr = self.pkg.resolve_dotted(r[1] + "." + attr)
                return self.symbol_av(rr)
            if r[0] == "np" and attr in ("at", "reduce", "outer", "accumulate"):
                return AV(("func",), refs=(("np", r[1] + "." + attr),))
            if r[0] == "ext":
                return AV(("func", "any"), (self.label(node),), refs=(("ext", r[1] + "." + attr),))
            if r[0] == "cls":
                ci, v = self.pkg.class_attr(r[1], attr)
                if v is not None:
                    return self.eng.class_attr_av(ci, attr)
                ms = self.pkg.lookup_method(r[1], attr, virtual=False)
                if ms:
                    return AV(("func",), refs=tuple(("fn", m.key) for m in ms))
            if r[0] == "super":
                return AV(("func",), refs=(("meth", attr, base),))
        if base.only_immutable and not base.refs:
            if "str" in base.kinds:
                return AV(("func",), refs=(("meth", attr, base),))
            return SCALAR
        parts = []
        classes = self.classes_of(base)
        if attr in ("__class__", "__name__", "__doc__", "__dict__"):
            return AV(("any",), ())
        if classes:
            handled = False
            for c in sorted(classes):
                found, getters = self.pkg.lookup_prop(c, attr, "getter")
                if found:
                    handled = True
                    for g in getters:
                        parts.append(self.call_fn(g, base, CallArgs(), node, st))
                    continue
                ms = self.pkg.lookup_method(c, attr)
                if ms:
                    handled = True
                    parts.append(AV(("func",), refs=(("meth", attr, base),)))
                    continue
                ci, v = self.pkg.class_attr(c, attr)
                if v is not None and not attr.startswith("_"):
                    handled = True
                    cav = self.eng.class_attr_av(ci, attr)
                    parts.append(join(cav, self.raw_attr(base, attr))
                                 if attr in self.eng.attr_info else cav)
            if not handled:
                parts.append(self.raw_attr(base, attr))
            return join_all(parts)
        if base.kinds & ARRAYISH:
            if attr in ("mask", "_mask", "recordmask"):
                parts.append(AV(base.kinds & ARRAYISH, base.mask_orig))
            elif attr in T.ARR_VIEW_ATTRS:
                parts.append(AV(base.kinds & ARRAYISH, base.orig, msh=base.msh,
                                ident=False if attr in ("T", "mT") else None))
            elif attr in T.ARR_SCALAR_ATTRS:
                parts.append(AV(("tuple",), items=None, elem=SCALAR) if attr in ("shape", "strides")
                             else SCALAR)
            elif attr in (T.ARR_VIEW_METHODS | T.ARR_FRESH_METHODS | T.ARR_MUTATE_METHODS
                          | T.ARR_META_METHODS):
                parts.append(AV(("func",), refs=(("meth", attr, base),)))
        if base.kinds & CONTAINER and not parts:
            parts.append(AV(("func",), refs=(("meth", attr, base),)))
        if (base.kinds & {"obj", "any"}) and not parts:
            props = self.pkg.props_by_name.get(attr)
            if props:
                for ci, d in props:
                    if "getter" in d:
                        parts.append(self.call_fn(d["getter"], base, CallArgs(), node, st))
            elif attr in self.pkg.methods_by_name or attr in CONTAINER_ONLY_METHODS \
                    or attr in T.STR_METHODS:
                parts.append(AV(("func",), refs=(("meth", attr, base),)))
            else:
                parts.append(self.raw_attr(base, attr))
        elif (base.kinds & {"obj"}):
            parts.append(self.raw_attr(base, attr))
        if not parts:
            return AV(("any",), base.orig, refs=(("meth", attr, base),))
        return join_all(parts)

    def raw_attr(self, base, attr):
        info = self.eng.attr_info.get(attr)
        paths = self.recv_paths(base, attr)
        self.reads.add(attr)
        if info is None or info.is_bottom:
            return AV(("any",), paths)
        if info.only_immutable:
            return AV(info.kinds, (), const=NOCONST)
        return _rebase(info, paths)

    # ------------------------------------------------------------------ subscripts
    def index_kind(self, node, st):
        """'basic' | 'fancy' | 'maybe' | 'key' for an index expression"""
        if isinstance(node, ast.Tuple):
            ks = [self.index_kind(e, st) for e in node.elts]
            if "fancy" in ks:
                return "fancy"
            if "maybe" in ks:
                return "maybe"
            return "basic"
        if isinstance(node, ast.Slice):
            self.ev(node, st)
            return "basic"
        if isinstance(node, ast.Constant):
            if isinstance(node.value, str):
                return "key"
            return "basic"
        if isinstance(node, ast.Starred):
            return "maybe"
        v = self.ev(node, st)
        if v.only_immutable:
            if v.kinds <= {"str"}:
                return "key"
            return "basic"
        if v.kinds & {"nd", "ma", "list"} and not v.kinds & {"any", "scalar", "none", "tuple"}:
            return "fancy"
        if isinstance(node, ast.Call) and isinstance(node.func, ast.Name) and node.func.id == "slice":
            return "basic"
        if v.kinds <= {"tuple", "scalar", "none"} and (v.items is not None or v.elem is not None) \
                and (v.element().only_immutable):
            return "basic"
        return "maybe"

    def ev_Subscript(self, node, st):
        base = self.ev(node.value, st)
        ik = self.index_kind(node.slice, st)
        return self.subscript_of(base, ik, node, st)

    def subscript_of(self, base, ik, node, st):
        parts = []
        if base.refs and any(r[0] in ("cls", "mod", "npmod", "ext") for r in base.refs) \
                and not base.kinds - {"func", "mod", "any"}:
            return AV(("any",), ())           # typing-like subscripts
        if ik == "key" and base.kinds & {"any"} and not base.kinds & {"nd", "ma"}:
            # a string key can only index a mapping / a package object with __getitem__
            parts.append(self.obj_getitem(base, node, st, strict=False))
            return join_all(parts)
        if base.kinds & ARRAYISH:
            k = base.kinds & ARRAYISH
            if ik == "basic":
                parts.append(AV(set(k) | {"scalar"}, base.orig, msh=base.msh, ident=False))
            elif ik == "fancy":
                parts.append(self.fresh(node, set(k - {"any"}) or {"nd"}, st=st, tag="i"))
            else:
                parts.append(join(AV(set(k) | {"scalar"}, base.orig, msh=base.msh, ident=False),
                                  self.fresh(node, ("nd",), st=st, tag="i")))
        if "any" in base.kinds and base.elem is not None and base.elem is not base:
            parts.append(base.elem)
        if base.kinds & CONTAINER:
            c = None
            if base.items is not None and isinstance(node.slice, ast.Constant) \
                    and isinstance(node.slice.value, int) \
                    and -len(base.items) <= node.slice.value < len(base.items) \
                    and base.kinds <= {"tuple"}:
                c = base.items[node.slice.value]
            elif isinstance(node.slice, ast.Slice):
                c = AV(base.kinds & CONTAINER, (self.label(node, "s"),), elem=base.element())
            else:
                c = base.element()
            parts.append(c)
        if base.kinds & {"obj"} or (base.kinds & {"any"} and base.cls):
            parts.append(self.obj_getitem(base, node, st, strict=True))
        if base.kinds & {"str"}:
            parts.append(STR)
        if not parts:
            if base.only_immutable:
                return SCALAR
            return AV(("any",), base.orig)
        return join_all(parts)

    def obj_getitem(self, base, node, st, strict):
        classes = self.classes_of(base)
        ms = []
        for c in sorted(classes):
            ms += self.pkg.lookup_method(c, "__getitem__")
        if not classes and (base.kinds & {"obj", "any"}):
            ms = list(self.pkg.methods_by_name.get("__getitem__", ()))
        parts = []
        ca = CallArgs()
        ca.pos.append((self.ev(node.slice, st) if not isinstance(node.slice, ast.Slice) else SCALAR,
                       False))
        for m in ms:
            parts.append(self.call_fn(m, base, ca, node, st))
        if not ms:
            # mapping semantics: element of the mapping
            parts.append(AV(("any",), base.orig) if base.elem is None else base.elem)
        return join_all(parts)

    # ------------------------------------------------------------------ truth / refinement
    def truth(self, node, st):
        if isinstance(node, ast.Constant):
            return bool(node.value)
        if isinstance(node, ast.Name):
            if node.id in self.facts and node.id not in self.rebound:
                return self.facts[node.id]
            v = st.env.get(node.id)
            if v is not None and v.const is not NOCONST and isinstance(v.const, (bool, type(None))):
                return bool(v.const)
            if v is not None and v.kinds and v.kinds <= {"none"}:
                return False
            return None
        if isinstance(node, ast.UnaryOp) and isinstance(node.op, ast.Not):
            t = self.truth(node.operand, st)
            return None if t is None else (not t)
        if isinstance(node, ast.BoolOp):
            is_and = isinstance(node.op, ast.And)
            cur = st
            ts = []
            for v in node.values:
                t = self.truth(v, cur)
                ts.append(t)
                if t is None:
                    cur = self.refined(v, cur, is_and)
                elif t is (not is_and):
                    break
            if is_and:
                if any(t is False for t in ts):
                    return False
                return True if all(t is True for t in ts) else None
            if any(t is True for t in ts):
                return True
            return False if all(t is False for t in ts) else None
        if isinstance(node, ast.Call) and isinstance(node.func, ast.Name) and node.args \
                and isinstance(node.args[0], ast.Name) and node.func.id in ("isinstance", "callable"):
            v = st.env.get(node.args[0].id)
            if v is None or not v.kinds or "any" in v.kinds:
                return None
            if node.func.id == "callable":
                if v.kinds <= {"func"}:
                    return True
                if not (v.kinds & {"func", "obj"}):
                    return False
                return None
            if len(node.args) != 2:
                return None
            tn = node.args[1]
            names = [ast.unparse(e).split(".")[-1] for e in
                     (tn.elts if isinstance(tn, (ast.Tuple, ast.List)) else [tn])]
            table = {"int": ({"scalar"}, False), "float": ({"scalar"}, False),
                     "bool": ({"scalar"}, False), "complex": ({"scalar"}, False),
                     "slice": ({"scalar"}, False), "str": ({"str"}, True),
                     "dict": ({"dict"}, True), "list": ({"list"}, True), "tuple": ({"tuple"}, True),
                     "Iterable": ({"list", "tuple", "dict", "set", "str", "nd", "ma"}, True),
                     "Iterator": ({"list"}, False),
                     "ndarray": ({"nd", "ma"}, True), "MaskedArray": ({"ma"}, False),
                     "type": ({"func"}, False)}
            poss = set()
            exact = True
            for n in names:
                if n in table:
                    poss |= table[n][0]
                    exact = exact and table[n][1]
                elif n in self.pkg.classes:
                    poss |= {"obj"}
                    exact = False
                else:
                    return None
            if not (v.kinds & poss):
                return False
            if exact and v.kinds <= poss:
                return True
            return None
        if isinstance(node, ast.Compare) and len(node.ops) == 1 \
                and isinstance(node.ops[0], (ast.Is, ast.IsNot)) \
                and isinstance(node.comparators[0], ast.Constant) \
                and node.comparators[0].value is None and isinstance(node.left, ast.Name):
            v = st.env.get(node.left.id)
            if v is None or not v.kinds:
                return None
            r = None
            if v.kinds <= {"none"}:
                r = True
            elif "none" not in v.kinds and "any" not in v.kinds:
                r = False
            if r is None:
                return None
            return r if isinstance(node.ops[0], ast.Is) else (not r)
        return None

    def refined(self, test, st, truth):
        """copy of st refined by assuming `test` evaluates to `truth`"""
        out = st.copy()
        self._refine(test, out, truth)
        return out

    def _refine(self, test, st, truth):
        if isinstance(test, ast.UnaryOp) and isinstance(test.op, ast.Not):
            return self._refine(test.operand, st, not truth)
        if isinstance(test, ast.BoolOp):
            if (isinstance(test.op, ast.And) and truth) or (isinstance(test.op, ast.Or) and not truth):
                for v in test.values:
                    self._refine(v, st, truth)
            return
        if isinstance(test, ast.Compare) and len(test.ops) == 1 and isinstance(test.left, ast.Name) \
                and isinstance(test.comparators[0], ast.Constant) \
                and test.comparators[0].value is None and test.left.id in st.env:
            v = st.env[test.left.id]
            is_none = isinstance(test.ops[0], (ast.Is, ast.Eq))
            if not isinstance(test.ops[0], (ast.Is, ast.IsNot, ast.Eq, ast.NotEq)):
                return
            if is_none == truth:
                st.env[test.left.id] = NONE
            elif "none" in v.kinds and len(v.kinds) > 1:
                st.env[test.left.id] = v.replace(kinds=v.kinds - {"none"}, const=NOCONST)
            return
        if isinstance(test, ast.Call) and isinstance(test.func, ast.Name) and test.args \
                and isinstance(test.args[0], ast.Name) and test.args[0].id in st.env:
            name = test.args[0].id
            v = st.env[name]
            fn = test.func.id
            if fn == "callable":
                if truth:
                    st.env[name] = AV(("func",), refs=v.refs)
                elif "func" in v.kinds and len(v.kinds) > 1:
                    st.env[name] = v.replace(kinds=v.kinds - {"func"})
            elif fn in ("isinstance", "issubclass") and len(test.args) == 2:
                tnames = [ast.unparse(e) for e in (test.args[1].elts if isinstance(
                    test.args[1], (ast.Tuple, ast.List)) else [test.args[1]])]
                scal = {"bool", "int", "float", "str", "complex", "slice"}
                short = [t.split(".")[-1] for t in tnames]
                if fn == "isinstance":
                    if short == ["type"]:
                        if truth:
                            st.env[name] = AV(("func",), refs=v.refs)
                    elif all(t in scal for t in short):
                        k = ("str",) if short == ["str"] else ("scalar", "str") if "str" in short \
                            else ("scalar",)
                        if truth:
                            if v.kinds and "any" not in v.kinds and v.kinds & set(k):
                                st.env[name] = AV(v.kinds & set(k), const=v.const)
                            else:
                                st.env[name] = AV(k, const=v.const)
                        elif short == ["str"] and "str" in v.kinds and len(v.kinds) > 1 \
                                and "any" not in v.kinds:
                            st.env[name] = v.replace(kinds=v.kinds - {"str"}, const=NOCONST)
                    elif all(t in self.pkg.classes for t in short):
                        if truth:
                            st.env[name] = AV(("obj",), v.orig, cls=short)
                    elif all(t in ("dict",) for t in short):
                        if truth:
                            st.env[name] = AV(("dict",), v.orig, elem=v.elem if v.elem is not None
                                              and v.elem is not v else AV(("any",), v.orig))
                    elif all(t in ("list", "tuple") for t in short):
                        if truth:
                            st.env[name] = AV(short, v.orig, elem=v.element())
                    elif short == ["Iterable"]:
                        it = {"list", "tuple", "dict", "set", "str", "nd", "ma"}
                        if truth and v.kinds and "any" not in v.kinds and v.kinds & it:
                            st.env[name] = v.replace(kinds=v.kinds & it, const=NOCONST)
                        elif (not truth) and v.kinds and "any" not in v.kinds and v.kinds - it:
                            st.env[name] = v.replace(kinds=v.kinds - it)
                    elif all(t in ("ndarray", "MaskedArray") for t in short):
                        if truth:
                            st.env[name] = AV(("nd", "ma") if "MaskedArray" in short else ("nd",),
                                              v.orig)
                else:
                    if truth and all(t in self.pkg.classes for t in short):
                        refs = set()
                        for t in short:
                            refs.add(("cls", t))
                            refs |= {("cls", s) for s in self.pkg.subclasses.get(t, ())}
                        st.env[name] = AV(("func",), refs=refs)


def _cap(path):
    parts = path.split(".")
    if len(parts) > 4:
        return ".".join(parts[:3]) + ".*"
    return path


def _rebase(info, paths, _d=0):
    elem = _rebase(info.elem, paths, _d + 1) if (info.elem is not None and _d < 3) else None
    items = tuple(_rebase(i, paths, _d + 1) for i in info.items) if (info.items is not None and _d < 3) \
        else None
    if info.only_immutable:
        return AV(info.kinds)
    return AV(info.kinds, paths, elem, items, info.refs, info.cls)
