"""Common reporting layer for all engines: obligations, ledger, known findings, evidence.

Exit codes of a check run (see DESIGN.md section 4):
  0 held (all obligations discharged, or failures all listed as open known findings)
  1 violation (a VIOLATION line was printed for each failed obligation group)
  2 undecided (solver timeout on *unchanged* source; never on the pinned tree)
  3 checker error (zero obligations, canary proved, crash)
"""
from __future__ import annotations

import hashlib
import json
import os
import sys
import time
import traceback

VERIF = os.path.dirname(os.path.dirname(os.path.abspath(__file__)))
REPO = os.environ.get("GSTOOLS_REPO", "/repo")
SRC = os.path.join(REPO, "src")

DISCHARGED = "discharged"   # proved (unsat of the negation / dataflow fact holds / lean ok)
FAILED = "failed"           # refuted with a witness that replays on the real code
UNDECIDED = "undecided"     # solver unknown / witness does not replay
BOUNDED = "bounded_ok"      # held on everything in a stated bound; never counted as proved
ERROR = "error"             # checker error inside this obligation
SKIPPED = "skipped"         # not attempted: an earlier obligation of the same contract instance
                            # already failed with a native witness (never on a passing run)


class Obligation:
    __slots__ = ("id", "status", "backend", "time_s", "detail", "witness", "bound",
                 "functions", "replay")

    def __init__(self, id, status, backend="z3", time_s=0.0, detail="", witness=None,
                 bound=None, functions=(), replay=None):
        self.id = id
        self.status = status
        self.backend = backend
        self.time_s = float(time_s)
        self.detail = detail
        self.witness = witness
        self.bound = bound
        self.functions = tuple(functions)
        self.replay = replay

    def to_json(self):
        d = {"id": self.id, "status": self.status, "backend": self.backend,
             "time_s": round(self.time_s, 4)}
        if self.detail:
            d["detail"] = self.detail if len(self.detail) < 2000 else self.detail[:2000] + "..."
        if self.witness is not None:
            d["witness"] = self.witness
        if self.bound:
            d["bound"] = self.bound
        return d


def _jsonable(x):
    try:
        json.dumps(x)
        return x
    except TypeError:
        if isinstance(x, dict):
            return {str(k): _jsonable(v) for k, v in x.items()}
        if isinstance(x, (list, tuple, set)):
            return [_jsonable(v) for v in x]
        try:
            import numpy as np
            if isinstance(x, np.ndarray):
                return _jsonable(x.tolist())
            if isinstance(x, np.generic):
                return x.item()
        except Exception:
            pass
        return repr(x)


def load_known_findings():
    path = os.path.join(VERIF, "known_findings.jsonl")
    out = []
    if os.path.exists(path):
        for line in open(path):
            line = line.strip()
            if line and line.startswith("{"):
                out.append(json.loads(line))
    return out


def src_hash(relpaths):
    h = hashlib.sha256()
    for rp in sorted(relpaths):
        p = os.path.join(REPO, rp)
        try:
            h.update(open(p, "rb").read())
        except OSError:
            h.update(b"<missing>")
    return h.hexdigest()[:16]


class Report:
    """Collects obligations for one property run and renders verdict + evidence."""

    def __init__(self, prop, tier, seed, level="proof"):
        self.prop = prop
        self.tier = tier
        self.seed = seed
        self.level = level
        self.obls = []
        self.t0 = time.time()
        self.functions = set()      # real functions under contract
        self.inlined = set()
        self.stubs = set()
        self.hints = set()
        self.assumptions = []
        self.trusted = []
        self.samples = []
        self.notes = []
        self.explanation = ""
        self.canaries = 0
        self.canaries_ok = 0
        self.covers = 0
        self.errors = []
        self.extra = {}
        self.backend_cmd = ""

    # ------------------------------------------------------------------
    def add(self, ob: Obligation):
        self.obls.append(ob)
        for f in ob.functions:
            self.functions.add(f)
        return ob

    def error(self, msg):
        self.errors.append(msg)

    def assume(self, text):
        if text not in self.assumptions:
            self.assumptions.append(text)

    def trust(self, text):
        if text not in self.trusted:
            self.trusted.append(text)

    def sample(self, s):
        if len(self.samples) < 6:
            self.samples.append(_jsonable(s))

    # ------------------------------------------------------------------
    def _ledger(self):
        p = os.path.join(VERIF, "ledger", self.prop + ".json")
        if os.path.exists(p):
            return json.load(open(p))
        return None

    def write_ledger(self):
        """Freeze the set of discharged obligation ids (maintainer action, not run by checks)."""
        p = os.path.join(VERIF, "ledger", self.prop + ".json")
        os.makedirs(os.path.dirname(p), exist_ok=True)
        led = {"property": self.prop,
               "discharged": sorted(o.id for o in self.obls if o.status == DISCHARGED),
               "bounded": sorted(o.id for o in self.obls if o.status == BOUNDED)}
        json.dump(led, open(p, "w"), indent=1)

    # ------------------------------------------------------------------
    def finish(self):
        known = [k for k in load_known_findings()
                 if k.get("property") == self.prop and k.get("status") == "open"]
        ledger = self._ledger()
        tier_key = "discharged" if self.tier == "quick" else None
        out_lines = []
        violations = 0
        known_hits = []
        undecided = []
        skipped = []
        os.makedirs(os.path.join(VERIF, "replays"), exist_ok=True)

        have = {o.id for o in self.obls}
        if not self.obls:
            self.error("zero obligations generated")
        if ledger is not None and self.tier == "quick" and not getattr(self, "partial", False):
            missing = [i for i in ledger.get("discharged", []) + ledger.get("bounded", [])
                       if i not in have]
            if missing:
                self.error("obligations in ledger not generated by this run: %s"
                           % ", ".join(missing[:8]))
        if self.canaries and self.canaries_ok != self.canaries:
            self.error("vacuity canary proved (%d of %d failed as they must)"
                       % (self.canaries_ok, self.canaries))

        led_set = set(ledger.get("discharged", []) + ledger.get("bounded", [])) if ledger else set()
        for o in self.obls:
            if o.status in (DISCHARGED, BOUNDED):
                continue
            if o.status == SKIPPED:
                skipped.append(o)
                continue
            if o.status == ERROR:
                self.error("obligation %s: %s" % (o.id, (o.detail if len(o.detail) <= 700 else o.detail[:150] + " ... " + o.detail[-550:])))
                continue
            # match against open known findings (obligation id prefix + witness class)
            hit = None
            for k in known:
                if _match_known(k, o):
                    hit = k
                    break
            if hit is not None:
                known_hits.append((hit, o))
                continue
            if o.status == FAILED:
                rp = self._write_replay(o)
                out_lines.append("VIOLATION property=%s replay=%s" % (self.prop, rp))
                violations += 1
            elif o.status == UNDECIDED:
                if o.id in led_set:
                    # was discharged on the pinned tree; the source under it changed (or the
                    # solver regressed): report as violation without failing input
                    rp = self._write_replay(o)
                    out_lines.append("VIOLATION property=%s replay=%s no-failing-input-found"
                                     % (self.prop, rp))
                    violations += 1
                else:
                    undecided.append(o)

        seen = set()
        for k, o in known_hits:
            key = (k.get("id"), k.get("obligation"))
            if key in seen:
                continue
            seen.add(key)
            print("KNOWN-FINDING: property=%s %s" % (self.prop, k.get("what", k.get("obligation"))))
        for l in out_lines:
            print(l)

        wall = time.time() - self.t0
        n_dis = sum(1 for o in self.obls if o.status == DISCHARGED)
        n_bnd = sum(1 for o in self.obls if o.status == BOUNDED)
        backends = {}
        for o in self.obls:
            if o.status == DISCHARGED:
                backends[o.backend] = backends.get(o.backend, 0) + 1
        known_ids = {id(o) for _, o in known_hits}
        n_proof_obl = sum(1 for o in self.obls if o.status != BOUNDED and id(o) not in known_ids)
        cov = {
            "obligations": n_proof_obl,
            "discharged": n_dis,
            "bounded_obligations": n_bnd,
            "bounded_detail": sorted({o.bound for o in self.obls if o.status == BOUNDED and o.bound}),
            "known_failing_count": len(known_hits),
            "known_failing": [{"obligation": o.id, "finding": k.get("id")} for k, o in known_hits],
            "undecided": [o.id for o in undecided],
            "skipped_after_failure": [o.id for o in skipped],
            "by_backend": backends,
            "solver_s": round(sum(o.time_s for o in self.obls), 3),
            "checker_cmd": self.backend_cmd or ("./check %s --tier %s" % (self.prop, self.tier)),
            "trusted_base": self.trusted,
            "functions_under_contract": sorted(self.functions),
            "inlined": sorted(self.inlined),
            "stubs": sorted(self.stubs),
            "hints_used": sorted(self.hints),
            "vacuity": {"canaries": self.canaries, "canaries_failed_as_required": self.canaries_ok,
                        "covers_sat": self.covers},
            "samples": self.samples or [o.to_json() for o in self.obls[:3]],
            "explanation": self.explanation or (
                "Contract-based deductive check: %d named proof obligations were generated from the current "
                "/repo source by this run (%d discharged by %s, %d shape-bounded ones reported separately and "
                "not counted as proved, %d matched by open known findings). Which parts of the property these "
                "obligations decide and which parts are not decidable by this technique is stated in "
                "MANIFEST.json (level_claimed.text, level_note) and DESIGN.md section 11.5."
                % (n_proof_obl, n_dis, "/".join(sorted(backends)) or "-", n_bnd, len(known_hits))),
            "notes": self.notes,
            "obligation_list": [o.to_json() for o in self.obls],
            # generic fallback keys (measured): every obligation is a distinct case
            "evaluations": len(self.obls),
            "distinct_nontrivial": len({o.id for o in self.obls}),
            "rule": "one case = one named proof obligation (distinct id) generated from the "
                    "current /repo source; trivial = none (canaries and covers are counted "
                    "separately under vacuity)",
        }
        cov.update(self.extra)
        ev = {
            "property_id": self.prop,
            "tier": self.tier,
            "seed": int(self.seed),
            "level": self.level,
            "coverage": _jsonable(cov),
            "assumptions": self.assumptions,
            "wall_s": round(wall, 2),
            "violations": violations,
        }
        if self.errors:
            ev["coverage"]["checker_errors"] = self.errors
        # runs against a scratch copy (GSTOOLS_REPO) must not overwrite the evidence of the real tree
        evdir = os.path.join(VERIF, "evidence") if (os.path.realpath(REPO) == "/repo"
                                                    and not getattr(self, "partial", False)) else \
            os.path.join(VERIF, "evidence", ".scratch")
        os.makedirs(evdir, exist_ok=True)
        with open(os.path.join(evdir, self.prop + ".json"), "w") as f:
            json.dump(ev, f, indent=1)
        print("%s tier=%s obligations=%d discharged=%d bounded=%d known=%d undecided=%d "
              "violations=%d errors=%d wall=%.1fs"
              % (self.prop, self.tier, n_proof_obl, n_dis, n_bnd, len(known_hits),
                 len(undecided), violations, len(self.errors), wall))
        if skipped and not violations and not known_hits:
            self.errors.append("obligations skipped although nothing failed")
        if violations:
            return 1
        if self.errors:
            for e in self.errors:
                print("CHECKER-ERROR: " + e, file=sys.stderr)
            return 3
        if undecided:
            for o in undecided:
                print("UNDECIDED: %s %s" % (o.id, o.detail[:200]), file=sys.stderr)
            return 2
        return 0

    def _write_replay(self, o):
        name = o.id.replace("/", "__").replace(" ", "_")
        if len(name) > 150:
            name = name[:120] + hashlib.sha1(name.encode()).hexdigest()[:12]
        rp = os.path.join(VERIF, "replays", name + ".json")
        data = {"property": self.prop, "obligation": o.id, "status": o.status,
                "backend": o.backend, "solver_output": o.detail, "witness": o.witness,
                "replay": o.replay, "functions": list(o.functions)}
        with open(rp, "w") as f:
            json.dump(_jsonable(data), f, indent=1)
        return rp


def _match_known(k, o):
    """An open known finding matches a failed obligation only if the obligation id matches the
    recorded pattern AND (if given) the witness class string is contained in the obligation's
    detail/witness; anything else of the same property is still a violation."""
    import fnmatch
    pat = k.get("obligation")
    if not pat or not fnmatch.fnmatchcase(o.id, pat):
        return False
    wc = k.get("witness_class")
    if wc:
        blob = json.dumps(_jsonable(o.witness)) + " " + (o.detail or "")
        if wc not in blob:
            return False
    return True


def run_guarded(fn, report):
    try:
        fn()
    except Exception:
        report.error("uncaught exception in checker:\n" + traceback.format_exc())
