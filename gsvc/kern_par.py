"""Thread-independence obligations for prange / parallel() regions + pragma audit of the generated C.

ownership      (SMT)      two iterations p1 != p2 of the parallel index never write the same element
                          and never read an element the other writes (index terms and path conditions
                          are taken from the recorded access events of the symbolic body execution;
                          the second iteration is the first with every body-local symbol renamed);
defassign      (dataflow) every scalar assigned in the parallel body is assigned before it is read on
                          every path of one iteration;
noescape       (dataflow) no such scalar is read after the loop before being re-assigned (its value
                          would be a lastprivate / reduction copy: thread-count dependent);
region         (dataflow) statements of a ``with parallel()`` block outside its prange write scalars
                          only (they are executed redundantly by every thread);
pragma audit   (c-audit)  in the Cython generated C every scalar assigned in the loop is named in a
                          private / firstprivate / lastprivate / reduction clause, no ``nowait``.
"""
from __future__ import annotations

import ast
import re

import z3

from . import lower_pyx


# ------------------------------------------------------------------------------------------------
def _prime(consts):
    pairs = []
    for c in consts:
        pairs.append((c, z3.Const(c.decl().name() + "'", c.sort())))
    return pairs


def ownership(vc, region):
    """adds SMT obligations to vc for one prange region"""
    key = region["key"]
    events = region["events"]
    kv = region["kv"]
    pairs = _prime(list(region["fresh"]) + [kv])
    kv2 = dict((a.get_id(), b) for a, b in pairs)[kv.get_id()]
    _keep = [a for a, _ in pairs]           # keep keyed terms alive (ids are re-used after GC)
    written = {}
    for e in events:
        if e["rw"] == "w":
            written.setdefault(e["arr"], []).append(e)
    summary = {"written": sorted(written), "read_only": sorted({e["arr"] for e in events} - set(written))}
    memo = {}

    def prime(t):
        k = t.get_id()
        if k not in memo:
            memo[k] = (t, z3.substitute(t, *pairs))
        return memo[k][1]

    for arr, ws in sorted(written.items()):
        others = [e for e in events if e["arr"] == arr]
        done = set()
        n = 0
        for w in ws:
            for o in others:
                sig = (w["site"], w["rw"], o["site"], o["rw"], len(w["facts"]), len(o["facts"]))
                if sig in done:
                    continue
                done.add(sig)
                facts = list(w["facts"]) + [prime(f) for f in o["facts"]] + [kv != kv2]
                if w["idx"] is None or o["idx"] is None:
                    goal = z3.BoolVal(False)
                else:
                    diffs = []
                    for a, b in zip(w["idx"], o["idx"]):
                        if a is None or b is None:
                            continue
                        diffs.append(a != prime(b))
                    goal = z3.Or(*diffs) if diffs else z3.BoolVal(False)
                vc.oblige("par.%s.ownership.%s" % (key, arr), "own", facts, goal,
                          note="write line %d (%s) vs %s line %d (%s) in another iteration"
                               % (w["line"], w["site"], "write" if o["rw"] == "w" else "read",
                                  o["line"], o["site"]))
                n += 1
        summary.setdefault("pairs", {})[arr] = n
    return summary


# ------------------------------------------------------------------------------------------------
# dataflow: definite assignment
# ------------------------------------------------------------------------------------------------
TOP = None      # "every variable assigned" (unreachable continuation)


def _meet(a, b):
    if a is TOP:
        return b
    if b is TOP:
        return a
    return a & b


class _DA:
    def __init__(self, tracked):
        self.tracked = set(tracked)
        self.viol = []

    def reads(self, node, assigned):
        if assigned is TOP:
            return
        for n in ast.walk(node):
            if isinstance(n, ast.Name) and isinstance(n.ctx, ast.Load) and n.id in self.tracked \
                    and n.id not in assigned:
                self.viol.append({"var": n.id, "line": n.lineno})

    def block(self, stmts, assigned):
        for s in stmts:
            assigned = self.stmt(s, assigned)
        return assigned

    def stmt(self, s, assigned):
        if assigned is TOP:
            return TOP
        if isinstance(s, ast.Assign):
            self.reads(s.value, assigned)
            t = s.targets[0]
            if isinstance(t, ast.Name):
                return assigned | {t.id}
            self.reads(t, assigned)
            return assigned
        if isinstance(s, ast.AugAssign):
            self.reads(s.value, assigned)
            t = s.target
            if isinstance(t, ast.Name):
                if t.id in self.tracked and t.id not in assigned:
                    self.viol.append({"var": t.id, "line": s.lineno})
                return assigned | {t.id}
            self.reads(t, assigned)
            return assigned
        if isinstance(s, ast.For):
            self.reads(s.iter, assigned)
            self.block(s.body, assigned | {s.target.id})
            return assigned            # zero iterations possible
        if isinstance(s, ast.If):
            self.reads(s.test, assigned)
            a = self.block(s.body, assigned)
            b = self.block(s.orelse, assigned)
            return _meet(a, b)
        if isinstance(s, ast.With):
            return self.block(s.body, assigned)
        if isinstance(s, (ast.Continue, ast.Break)):
            return TOP
        if isinstance(s, ast.Return):
            if s.value is not None:
                self.reads(s.value, assigned)
            return TOP
        if isinstance(s, ast.Raise):
            return TOP
        if isinstance(s, ast.Expr):
            self.reads(s.value, assigned)
            return assigned
        return assigned


def assigned_scalars(stmts):
    out = set()
    for n in ast.walk(ast.Module(body=list(stmts), type_ignores=[])):
        if isinstance(n, ast.Assign) and isinstance(n.targets[0], ast.Name):
            out.add(n.targets[0].id)
        elif isinstance(n, ast.AugAssign) and isinstance(n.target, ast.Name):
            out.add(n.target.id)
        elif isinstance(n, ast.For):
            out.add(n.target.id)
    return out


def _following(fnode, target):
    """statement lists executed after `target` (rest of its block, rest of every enclosing block,
    and - for enclosing loops - the loop body again from its start)"""
    out = []

    def rec(stmts):
        for i, s in enumerate(stmts):
            if s is target:
                out.append(stmts[i + 1:])
                return True
            for sub in (getattr(s, "body", None), getattr(s, "orelse", None)):
                if isinstance(sub, list) and sub and rec(sub):
                    out.append(stmts[i + 1:])
                    if isinstance(s, ast.For):
                        out.append(s.body)
                    return True
        return False
    rec(fnode.body)
    return out


def dataflow(vc, region):
    node = region["node"]
    key = region.get("key") or "region%d" % region["ordinal"]
    fnode = vc.fi.node
    res = {}
    if region["kind"] == "prange":
        body = node.body
        tracked = assigned_scalars(body)
        da = _DA(tracked)
        da.block(body, {node.target.id})
        ok = not da.viol
        vc.static("par.%s.defassign" % key, "par", ok,
                  "scalars assigned in the parallel body: %s; each is assigned before it is read in one "
                  "iteration" % sorted(tracked) if ok else
                  "read before assignment inside one iteration: %s" % da.viol).witness = \
            None if ok else {"class": "scalar read before assignment in a prange iteration",
                             "violations": da.viol}
        esc = _DA(tracked)
        for stmts in _following(fnode, node):
            esc.block(stmts, set())
        # the loop index itself is lastprivate with the sequential value: reading it is deterministic
        viol = [v for v in esc.viol if v["var"] != node.target.id]
        ok2 = not viol
        vc.static("par.%s.noescape" % key, "par", ok2,
                  "no scalar written in the parallel body is read after the loop" if ok2 else
                  "scalar written in the parallel body is read later: %s" % viol).witness = \
            None if ok2 else {"class": "prange body writes a scalar that is read after the loop",
                              "violations": viol}
        res["private_scalars"] = sorted(tracked | {node.target.id})
        # arrays written in the loop must not additionally be handed to helpers as plain inputs
        # (helper reads are not element-tracked)
        _, warrs = vc.loop_mods(body)
        bad = []
        for c in ast.walk(ast.Module(body=list(body), type_ignores=[])):
            if isinstance(c, ast.Call) and isinstance(c.func, ast.Name) and \
                    (c.func.id in vc.low.funcs or vc.fi.ctype(c.func.id) is not None):
                for a in c.args:
                    nm = a.id if isinstance(a, ast.Name) else (
                        a.value.id if isinstance(a, ast.Subscript) and isinstance(a.value, ast.Name)
                        and any(isinstance(x, ast.Slice) for x in
                                (a.slice.elts if isinstance(a.slice, ast.Tuple) else [a.slice])) else None)
                    if nm in warrs:
                        bad.append({"line": c.lineno, "array": nm, "call": c.func.id})
        okh = not bad
        vc.static("par.%s.helper_args" % key, "par", okh,
                  "no array written in the parallel body is passed to a helper" if okh else
                  "array written in the parallel body is passed to a helper: %s" % bad).witness = \
            None if okh else {"class": "written array passed to helper inside prange", "violations": bad}
    else:
        viol = []
        pr = []

        def scan(stmts):
            for s in stmts:
                if isinstance(s, ast.For) and s.iter.func.id == "prange":
                    pr.append(s)
                    continue
                if isinstance(s, ast.Assign) and not isinstance(s.targets[0], ast.Name):
                    viol.append({"line": s.lineno, "what": ast.unparse(s.targets[0])})
                if isinstance(s, ast.AugAssign) and not isinstance(s.target, ast.Name):
                    viol.append({"line": s.lineno, "what": ast.unparse(s.target)})
                for n in ([s.value] if isinstance(s, (ast.Assign, ast.AugAssign, ast.Expr)) else []):
                    for c in ast.walk(n):
                        if isinstance(c, ast.Call) and isinstance(c.func, ast.Name) and \
                                (c.func.id in vc.low.funcs or (vc.fi.ctype(c.func.id) is not None)):
                            ck = vc.eng.contracts.get(vc.eng.contract_key(vc.low, c.func.id), {})
                            if ck.get("modifies") or vc.fi.ctype(c.func.id) is not None and \
                                    vc.fi.ctype(c.func.id).sig and vc.fi.ctype(c.func.id).sig[0].base == "void":
                                viol.append({"line": c.lineno, "what": "call " + c.func.id})
                for sub in (getattr(s, "body", None), getattr(s, "orelse", None)):
                    if isinstance(sub, list):
                        scan(sub)
        scan(node.body)
        ok = not viol and len(pr) >= 1
        vc.static("par.%s.scalar_only" % key, "par", ok,
                  "statements of the parallel() block outside its prange write scalars only "
                  "(executed redundantly by every thread); inner prange loops: %d" % len(pr) if ok else
                  "redundantly executed region writes memory: %s" % viol).witness = \
            None if ok else {"class": "parallel() region writes an array outside prange", "violations": viol}
        # scalars of the region (outside prange) are thread private: assigned before read, no escape
        outer = set()
        for n in ast.walk(ast.Module(body=node.body, type_ignores=[])):
            if isinstance(n, ast.For):
                outer.add(n.target.id)
            elif isinstance(n, ast.Assign) and isinstance(n.targets[0], ast.Name):
                outer.add(n.targets[0].id)
            elif isinstance(n, ast.AugAssign) and isinstance(n.target, ast.Name):
                outer.add(n.target.id)
        da = _DA(outer)
        da.block(node.body, set())
        esc = _DA(outer)
        for stmts in _following(fnode, node):
            esc.block(stmts, set())
        ok3 = not da.viol and not esc.viol
        vc.static("par.%s.private_scalars" % key, "par", ok3,
                  "thread-private scalars of the region %s are assigned before read and do not escape"
                  % sorted(outer) if ok3 else "region scalar read before assignment / after the region: %s"
                  % (da.viol + esc.viol)).witness = \
            None if ok3 else {"class": "parallel() region scalar escapes", "violations": da.viol + esc.viol}
        res["private_scalars"] = sorted(outer)
    return res


# ------------------------------------------------------------------------------------------------
# pragma audit
# ------------------------------------------------------------------------------------------------
_CL = re.compile(r"\b(private|firstprivate|lastprivate|reduction|shared)\s*\(([^)]*)\)")


def parse_pragmas(low):
    """[(pyx line of the nearest preceding source marker, marked text, pragma text)]"""
    p = lower_pyx.generated_c_path(low)
    if not p:
        return None
    base = re.escape(low.path.split("/")[-1])
    mark = re.compile(r'/\* "[^"]*%s":(\d+)' % base)
    out = []
    cur = None
    cur_txt = ""
    lines = open(p, errors="replace").read().split("\n")
    i = 0
    while i < len(lines):
        ln = lines[i]
        m = mark.search(ln)
        if m:
            cur = int(m.group(1))
            j = i + 1
            while j < len(lines) and not lines[j].strip().startswith("*/"):
                if "# <<<<<<<<<<<<<<" in lines[j]:
                    cur_txt = lines[j].split("# <<<<<<<<<<<<<<")[0].strip(" *")
                j += 1
            i = j
            continue
        s = ln.strip()
        if s.startswith("#pragma omp"):
            out.append((cur, cur_txt, s))
        i += 1
    return out


def pragma_audit(vc, regions, pragmas, stale):
    """one c-audit obligation per function with parallel regions"""
    if pragmas is None:
        return None
    fi = vc.fi
    mine = [p for p in pragmas if p[0] is not None and fi.line <= p[0] <= fi.endline]
    problems = []
    clauses = {}
    kinds = []
    for ln, txt, prag in mine:
        if re.search(r"\bnowait\b", prag):
            problems.append("nowait in %r (line %s)" % (prag[:80], ln))
        if prag.startswith("#pragma omp parallel") or prag.startswith("#pragma omp for"):
            kinds.append((ln, prag.split("(")[0][:40]))
            for m in _CL.finditer(prag):
                for v in m.group(2).split(","):
                    v = v.strip()
                    if ":" in v:
                        v = v.split(":")[1].strip()
                    if v.startswith("__pyx_v_"):
                        clauses.setdefault(v[len("__pyx_v_"):], set()).add(m.group(1))
    need = set()
    nfor = sum(1 for r in regions if r["kind"] == "prange")
    for r in regions:
        need |= set(r.get("private_scalars", ()))
    have_for = sum(1 for ln, pr in kinds if pr.startswith("#pragma omp for"))
    have_par = sum(1 for ln, pr in kinds if pr.startswith("#pragma omp parallel"))
    if have_for != nfor:
        problems.append("%d prange loops in the source but %d '#pragma omp for' in the generated C"
                        % (nfor, have_for))
    if have_par < 1 and nfor:
        problems.append("no '#pragma omp parallel' for this function")
    for v in sorted(need):
        cl = clauses.get(v, set()) - {"shared"}
        if not cl:
            problems.append("scalar %s is assigned in a parallel region but is in no private/"
                            "firstprivate/lastprivate/reduction clause" % v)
    ok = not problems
    detail = ("clauses: %s; pragmas at pyx lines %s; no nowait"
              % ({k: sorted(v) for k, v in sorted(clauses.items())}, [k[0] for k in kinds])) if ok \
        else "; ".join(problems)
    if stale:
        detail += " [generated C is STALE w.r.t. the .pyx: audit refers to the old artefact]"
    ob = vc.static("par.pragma_audit", "par", ok, detail, backend="c-audit")
    ob.witness = None if ok else {"class": "OpenMP pragma audit", "problems": problems}
    return {"clauses": {k: sorted(v) for k, v in clauses.items()}, "pragmas": [p[2][:160] for p in mine
                                                                              if p[2].startswith(("#pragma omp parallel", "#pragma omp for"))]}
