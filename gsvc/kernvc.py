"""kernvc -- loop-invariant VC generator for the lowered Cython kernels.

Symbolic forward execution (strongest-postcondition style, equivalent to wp for this loop-cut
program form) of the lowered ast of one function:

* scalars are z3 terms, memoryviews are SMT arrays (rank 2: array of arrays) with explicit shape
  variables, NaN-capable arrays carry a companion Bool array;
* ``if`` joins are merged with ite, ``continue`` / ``break`` / ``return`` / ``raise`` split paths;
* ``for v in range/prange`` is cut by the invariant of the sidecar contract (keyed by function +
  loop variable): obligations  loop.v.init / loop.v.preserve[.path] / loop.v.exit ; the variables
  written by the loop are havocked, arrays with a *frame* derived mechanically from the write sites;
* calls of module functions go through THEIR contract (requires -> obligation, ensures -> assumed),
  calls through function-pointer variables are an ite over the admissible targets;
* every array access emits an in-bounds obligation, every division a non-zero obligation, every
  arithmetic read of a NaN-capable element a not-NaN obligation, every C-int assignment a 32-bit fit
  obligation, every np.zeros a non-negative-size obligation;
* for prange / parallel() regions the access events of the body are recorded and turned into the
  ownership obligations (kern_par), next to the syntactic definite-assignment / region / pragma
  checks.

One ``Query`` = one solver call (facts |- goal); an obligation groups the queries of one program
point over all paths reaching it.
"""
from __future__ import annotations

import ast
import copy

import z3

from . import kern_spec as KS
from .kern_spec import V, Tr, SpecError, fresh, vint, vreal, vbool, to_real, to_bool, INT, REAL, BOOL

NORMAL, CONTINUE, BREAK, RETURN, RAISE = "normal", "continue", "break", "return", "raise"


class Query:
    __slots__ = ("facts", "goal", "note", "witness_terms")

    def __init__(self, facts, goal, note=""):
        self.facts = list(facts)
        self.goal = goal
        self.note = note


class Obl:
    """one named proof obligation (may consist of several queries = paths / conjuncts)"""

    def __init__(self, oid, kind, fn, backend="z3"):
        self.id = oid
        self.kind = kind          # loop ensures call bounds div nan intfit alloc init raises own ...
        self.fn = fn
        self.queries = []
        self.backend = backend
        self.static = None        # for dataflow obligations: (ok, detail)
        self.split = None         # (label, native input class) for case-split obligations
        self.loopvar = None
        self.witness = None


class State:
    __slots__ = ("env", "facts", "tags")

    def __init__(self, env=None, facts=None, tags=None):
        self.env = env if env is not None else {}
        self.facts = facts if facts is not None else []
        self.tags = tags if tags is not None else []

    def copy(self):
        return State(dict(self.env), list(self.facts), list(self.tags))


def _names(node):
    return {n.id for n in ast.walk(node) if isinstance(n, ast.Name)}


def ctype_kind(ct):
    if ct is None:
        return None
    return {"double": "real", "int": "int", "int64": "int", "uint8": "int", "bint": "bool",
            "str": "str", "funcptr": "fptr", "object": "obj", "void": "none"}[ct.base]


class FuncVC:
    def __init__(self, eng, low, fname, contract, ckey):
        self.eng = eng
        self.low = low
        self.fname = fname
        self.fi = low.funcs[fname]
        self.c = contract
        self.ckey = ckey                      # id stem, e.g. "field.summator.summate"
        self.abbrev = KS.parse_abbrev(contract.get("abbrev"))
        self.obls = {}
        self.order = []
        self.cur = None                       # current State (for hooks)
        self.sites = {}
        self.loopkeys = {}
        self.events = None                    # access event recording (parallel analysis)
        self.par_regions = []                 # results for kern_par
        self.canaries = []
        self.cover = None
        self.entry_env_stack = []
        self.old_env = None
        self.param_vals = {}
        self.nan_arrays = set(contract.get("nan_arrays", ()))
        self._scan()

    # ------------------------------------------------------------------------------------------
    def _scan(self):
        """stable labels for access sites / divisions / loops / continue+break statements"""
        node = self.fi.node
        cnt = {}
        subs = [n for n in ast.walk(node) if isinstance(n, ast.Subscript)
                and not (isinstance(n.value, ast.Attribute) and n.value.attr == "shape")
                and isinstance(n.value, ast.Name)]
        subs.sort(key=lambda n: (n.lineno, n.col_offset))
        for n in subs:
            a = n.value.id
            cnt[a] = cnt.get(a, 0) + 1
            self.sites[id(n)] = "%s.%d" % (a, cnt[a])
        divs = [n for n in ast.walk(node) if isinstance(n, (ast.BinOp, ast.AugAssign))
                and isinstance(n.op, ast.Div)]
        divs.sort(key=lambda n: (n.lineno, n.col_offset))
        for i, n in enumerate(divs):
            self.sites[id(n)] = "div.%d" % (i + 1)
        calls = [n for n in ast.walk(node) if isinstance(n, ast.Call)]
        calls.sort(key=lambda n: (n.lineno, n.col_offset))
        ccnt = {}
        for n in calls:
            nm = ast.unparse(n.func)
            ccnt[nm] = ccnt.get(nm, 0) + 1
            self.sites[id(n)] = "%s.%d" % (nm, ccnt[nm])
        loops = [n for n in ast.walk(node) if isinstance(n, ast.For)]
        loops.sort(key=lambda n: (n.lineno, n.col_offset))
        per = {}
        for n in loops:
            per.setdefault(n.target.id, []).append(n)
        for v, ls in per.items():
            for i, n in enumerate(ls):
                self.loopkeys[id(n)] = v if len(ls) == 1 else "%s#%d" % (v, i + 1)
        for lp in loops:
            k = {"c": 0, "b": 0}

            def mark(stmts):
                for s in stmts:
                    if isinstance(s, ast.Continue):
                        k["c"] += 1
                        self.sites[id(s)] = "continue%d" % k["c"]
                    elif isinstance(s, ast.Break):
                        k["b"] += 1
                        self.sites[id(s)] = "break%d" % k["b"]
                    elif isinstance(s, ast.If):
                        mark(s.body)
                        mark(s.orelse)
                    elif isinstance(s, ast.With):
                        mark(s.body)
            mark(lp.body)
        for n in ast.walk(node):
            if isinstance(n, ast.Call) and isinstance(n.func, ast.Name) and n.func.id == "isnan" \
                    and n.args and isinstance(n.args[0], ast.Subscript) \
                    and isinstance(n.args[0].value, ast.Name):
                self.nan_arrays.add(n.args[0].value.id)

    # ------------------------------------------------------------------------------------------
    def oblige(self, suffix, kind, facts, goal, note="", loopvar=None, split=None):
        oid = "%s/%s" % (self.ckey, suffix)
        ob = self.obls.get(oid)
        if ob is None:
            ob = Obl(oid, kind, self.fname)
            ob.loopvar = loopvar
            ob.split = split
            self.obls[oid] = ob
            self.order.append(oid)
        for extra, g in split_goal(goal):
            ob.queries.append(Query(list(facts) + extra, g, note))
        return ob

    def static(self, suffix, kind, ok, detail, backend="dataflow"):
        oid = "%s/%s" % (self.ckey, suffix)
        ob = Obl(oid, kind, self.fname, backend)
        ob.static = (ok, detail)
        self.obls[oid] = ob
        self.order.append(oid)
        return ob

    # -- translators -----------------------------------------------------------------------------
    def code_tr(self, st):
        self.cur = st
        return Tr(self.eng.specs, st.env, "code", hooks=self, funcs=self.eng.fcodes[self.low.relpath])

    def spec_tr(self, env, entry_env=None, old_env=None, abbrev=None):
        return Tr(self.eng.specs, env, "spec", None, abbrev if abbrev is not None else self.abbrev,
                  self.eng.fcodes[self.low.relpath], entry_env, old_env)

    def spec_bool(self, text, env, entry_env=None, old_env=None):
        try:
            n = ast.parse(text, mode="eval").body
            return to_bool(self.spec_tr(env, entry_env, old_env).ev(n))
        except SpecError as e:
            raise SpecError("contract of %s, clause %r: %s" % (self.fname, text, e))
        except KeyError as e:
            raise SpecError("contract of %s, clause %r: unknown name %s" % (self.fname, text, e))

    # -- hooks called by Tr (code mode) ------------------------------------------------------------
    def on_read(self, n, a, idx, want_nan, write=False):
        st = self.cur
        site = self.sites.get(id(n), "anon")
        name = n.value.id if isinstance(n.value, ast.Name) else "?"
        if a.shape is None:
            raise SpecError("access to array without shape")
        goal = z3.And(*[z3.And(i >= 0, i < s) for i, s in zip(idx, a.shape)])
        self.oblige("bounds.%s" % site, "bounds", st.facts, goal,
                    note="line %d: %s" % (n.lineno, ast.unparse(n)))
        if a.nan is not None and not want_nan and not write:
            f = a.nan
            for i in idx:
                f = z3.Select(f, i)
            self.oblige("nanguard.%s" % site, "nan", st.facts, z3.Not(f),
                        note="line %d: arithmetic use of possibly-NaN %s" % (n.lineno, ast.unparse(n)))
        if self.events is not None:
            self.events.append({"arr": name, "idx": list(idx), "rw": "w" if write else "r",
                                "facts": list(st.facts), "site": site, "line": n.lineno})

    def on_view(self, n, a, axis, idx):
        st = self.cur
        site = self.sites.get(id(n), "anon")
        goal = z3.And(idx >= 0, idx < a.shape[axis])
        self.oblige("bounds.%s" % site, "bounds", st.facts, goal,
                    note="line %d: view %s" % (n.lineno, ast.unparse(n)))

    def on_div(self, den, n):
        if z3.is_rational_value(den) or (z3.is_app(den) and z3.is_rational_value(z3.simplify(den))):
            if not z3.is_true(z3.simplify(den == 0)):
                return
        site = self.sites.get(id(n), "div")
        self.oblige("%s.nonzero" % site, "div", self.cur.facts, den != 0,
                    note="line %s: denominator of %s" % (getattr(n, "lineno", "?"),
                                                         ast.unparse(n)[:80] if n is not None else ""))

    def on_call(self, name, n, tr):
        st = self.cur
        site = self.sites.get(id(n), name)
        if name in ("np.zeros", "np.empty"):
            return self.alloc(name, n, tr, site)
        if name == "np.asarray":
            return tr.ev(n.args[0])
        if name == "openmp.omp_get_num_procs":
            r = fresh("omp_procs", INT)
            st.facts.append(r >= 1)
            st.facts.append(r < 2 ** 31)
            self.eng.assumed.add("openmp.omp_get_num_procs() returns an int >= 1")
            return vint(r)
        if name == "ValueError":
            return V("none")
        if isinstance(n.func, ast.Name):
            fid = n.func.id
            if fid in st.env and st.env[fid].k == "fptr":
                return self.call_fptr(fid, n, tr, site)
            if fid in self.low.funcs:
                args = [tr.ev(a) for a in n.args]
                if n.keywords:
                    raise SpecError("line %d: keyword arguments in kernel-internal calls" % n.lineno)
                res, _ = self.apply_contract(fid, args, n.args, st, site)
                return res
        raise SpecError("line %d: call to %r is outside the supported subset" % (n.lineno, name))

    def alloc(self, name, n, tr, site):
        st = self.cur
        elem = "real"
        for kw in n.keywords:
            if kw.arg != "dtype":
                raise SpecError("line %d: %s keyword %s" % (n.lineno, name, kw.arg))
            d = ast.unparse(kw.value)
            if d == "np.int64":
                elem = "int"
            elif d != "float":
                raise SpecError("line %d: dtype %s outside the subset" % (n.lineno, d))
        if len(n.args) != 1:
            raise SpecError("line %d: %s form" % (n.lineno, name))
        sh = tr.ev(n.args[0])
        dims = [x.t for x in sh.items] if sh.k == "tuple" else [sh.t]
        if len(dims) > 2:
            raise SpecError("rank > 2")
        self.oblige("alloc.%s.nonneg" % site, "alloc", st.facts, z3.And(*[d >= 0 for d in dims]),
                    note="line %d: %s" % (n.lineno, ast.unparse(n)))
        sort = KS.arr_sort(len(dims), elem)
        if name == "np.zeros":
            zero = z3.RealVal(0) if elem == "real" else z3.IntVal(0)
            t = z3.K(INT, zero) if len(dims) == 1 else z3.K(INT, z3.K(INT, zero))
        else:
            t = fresh("empty", sort)
        v = V("arr", t, nd=len(dims), elem=elem, shape=dims)
        v.origin = ("alloc",)
        return v

    # -- calls by contract -------------------------------------------------------------------------
    def coerce_arg(self, v, ct, what):
        k = ctype_kind(ct)
        if ct is None or k is None:
            return v
        if ct.ndim:
            elem = "int" if ct.base in ("int64", "int", "uint8") else "real"
            if v.k != "arr" or v.nd != ct.ndim or v.elem != elem:
                raise SpecError("%s: array argument of wrong rank/type" % what)
            return v
        if k == "real" and v.k in ("int", "real", "bool"):
            return vreal(to_real(v))
        if k == "int" and v.k == "int":
            return v
        if k == "int" and v.k == "obj":
            return vint(v.t)
        if k == "bool" and v.k in ("bool", "int"):
            return vbool(to_bool(v))
        if k == v.k:
            return v
        if k == "obj":
            if v.k == "int":
                return V("obj", v.t, isnone=z3.BoolVal(False))
            if v.k == "none":
                return V("obj", z3.IntVal(0), isnone=z3.BoolVal(True))
            return v
        raise SpecError("%s: cannot pass %s as %s" % (what, v.k, k))

    def apply_contract(self, callee, args, argnodes, st, site, guard=None, shared=None):
        """assume the callee contract at a call site.  shared: (result V, {param: new V}) to reuse for
        the alternatives of a function-pointer call."""
        key = self.eng.contract_key(self.low, callee)
        c = self.eng.contracts.get(key)
        if c is None:
            raise SpecError("no contract for callee %s" % key)
        cfi = self.low.funcs[callee]
        self.eng.calls.add((self.eng.contract_key(self.low, self.fname), key))
        if len(args) > len(cfi.params):
            raise SpecError("too many arguments for %s" % callee)
        env = {}
        for i, (pn, ct, dflt) in enumerate(cfi.params):
            if i < len(args):
                env[pn] = self.coerce_arg(args[i], ct, "%s(%s)" % (callee, pn))
            else:
                if dflt is None:
                    raise SpecError("missing argument %s of %s" % (pn, callee))
                dv = Tr(self.eng.specs, {}, "code", None).ev(ast.parse(dflt, mode="eval").body)
                env[pn] = self.coerce_arg(dv, ct, pn)
        abbrev = KS.parse_abbrev(c.get("abbrev"))
        tr0 = self.spec_tr(env, abbrev=abbrev)
        facts = st.facts if guard is None else st.facts + [guard]
        for i, r in enumerate(c.get("requires", [])):
            g = to_bool(tr0.ev(ast.parse(r, mode="eval").body))
            self.oblige("call.%s.requires%s" % (site, "" if guard is None else ".via_%s" % callee),
                        "call", facts, g, note="precondition %r of %s" % (r, callee))
        # result and modified arrays
        if shared is not None:
            res, newarrs = shared
        else:
            rk = c.get("ret") or ctype_kind(cfi.ret) or "none"
            if rk == "none":
                res = V("none")
            elif rk == "obj":
                res = V("int", fresh(callee + "_ret", INT))
            else:
                srt = {"real": REAL, "int": INT, "bool": BOOL, "fptr": INT, "str": INT}[rk]
                res = V(rk, fresh(callee + "_ret", srt))
            newarrs = {}
            for pn in c.get("modifies", []):
                old = env[pn]
                nv = V("arr", fresh(callee + "_" + pn, old.t.sort()), nd=old.nd, elem=old.elem,
                       shape=old.shape, nan=old.nan)
                newarrs[pn] = nv
        env_post = dict(env)
        env_post.update(newarrs)
        env_post["result"] = res
        trp = self.spec_tr(env_post, old_env=env, abbrev=abbrev)
        ens = c.get("ensures", {})
        for nm, e in (ens.items() if isinstance(ens, dict) else ens):
            g = to_bool(trp.ev(ast.parse(e, mode="eval").body))
            st.facts.append(g if guard is None else z3.Implies(guard, g))
        if shared is None:
            self.writeback(c.get("modifies", []), cfi, argnodes, newarrs, st)
        return res, newarrs

    def writeback(self, modifies, cfi, argnodes, newarrs, st):
        pnames = [p[0] for p in cfi.params]
        for pn in modifies:
            i = pnames.index(pn)
            an = argnodes[i]
            nv = newarrs[pn]
            if isinstance(an, ast.Name):
                old = st.env[an.id]
                st.env[an.id] = V("arr", nv.t, nd=old.nd, elem=old.elem, shape=old.shape, nan=old.nan)
                if self.events is not None:
                    self.events.append({"arr": an.id, "idx": None, "rw": "w", "facts": list(st.facts),
                                        "site": "call", "line": an.lineno})
            elif isinstance(an, ast.Subscript) and isinstance(an.value, ast.Name):
                base = st.env[an.value.id]
                idx = an.slice.elts if isinstance(an.slice, ast.Tuple) else [an.slice]
                if len(idx) == 2 and isinstance(idx[1], ast.Slice) and not isinstance(idx[0], ast.Slice):
                    d = Tr(self.eng.specs, st.env, "code", None).ev(idx[0]).t
                    st.env[an.value.id] = V("arr", z3.Store(base.t, d, nv.t), nd=2, elem=base.elem,
                                            shape=base.shape, nan=base.nan)
                    if self.events is not None:
                        self.events.append({"arr": an.value.id, "idx": [d, None], "rw": "w",
                                            "facts": list(st.facts), "site": "call", "line": an.lineno})
                else:
                    raise SpecError("line %d: modified view form outside the subset" % an.lineno)
            else:
                raise SpecError("line %d: modified argument form outside the subset" % an.lineno)

    def fptr_candidates(self, ct):
        """module functions whose signature matches the function-pointer typedef"""
        out = []
        if ct is None or ct.sig is None:
            return out
        ret, args = ct.sig
        for fn, fi in self.low.funcs.items():
            if fi.kind != "cdef" or fi.ret is None:
                continue
            if (fi.ret.base, fi.ret.ndim) != (ret.base, ret.ndim) or len(fi.params) != len(args):
                continue
            if all((p[1].base, p[1].ndim) == (a.base, a.ndim) for p, a in zip(fi.params, args)):
                out.append(fn)
        return out

    def call_fptr(self, var, n, tr, site):
        st = self.cur
        fp = st.env[var].t
        ct = self.fi.ctype(var)
        cands = self.fptr_candidates(ct)
        if not cands:
            raise SpecError("line %d: no admissible target for function pointer %s" % (n.lineno, var))
        codes = self.eng.fcodes[self.low.relpath]
        self.oblige("call.%s.target" % site, "call", st.facts,
                    z3.Or(*[fp == codes[c] for c in cands]),
                    note="line %d: %s holds the address of a function of type %s"
                         % (n.lineno, var, ct.name))
        args = [tr.ev(a) for a in n.args]
        shared = None
        for c in cands:
            guard = fp == codes[c]
            res, newarrs = self.apply_contract(c, args, n.args, st, site, guard=guard, shared=shared)
            if shared is None:
                shared = (res, newarrs)
                first = c
        mods = self.eng.contracts[self.eng.contract_key(self.low, first)].get("modifies", [])
        for c in cands:
            if self.eng.contracts[self.eng.contract_key(self.low, c)].get("modifies", []) != mods:
                raise SpecError("function pointer targets with different modifies clauses")
        self.writeback(mods, self.low.funcs[first], n.args, shared[1], st)
        return shared[0]

    # -- statements ----------------------------------------------------------------------------------
    def exec_block(self, stmts, st):
        """returns list of (State, outcome, payload)"""
        states = [st]
        results = []
        for s in stmts:
            nxt = []
            for cur in states:
                for (s2, out, pay) in self.exec_stmt(s, cur):
                    if out == NORMAL:
                        nxt.append(s2)
                    else:
                        results.append((s2, out, pay))
            states = nxt
            if not states:
                break
        for cur in states:
            results.append((cur, NORMAL, None))
        return results

    def assign_name(self, name, v, st, node):
        ct = self.fi.ctype(name)
        k = ctype_kind(ct)
        if ct is not None and ct.ndim:
            if v.k != "arr" or v.nd != ct.ndim:
                raise SpecError("line %d: assignment of non-array to memoryview %s" % (node.lineno, name))
            want = "int" if ct.base in ("int", "int64", "uint8") else "real"
            if v.elem != want:
                raise SpecError("line %d: element type mismatch for %s" % (node.lineno, name))
            if v.origin != ("alloc",):
                raise SpecError("line %d: aliasing assignment %s = <existing array> is outside the "
                                "subset (ownership analysis assumes alias-freedom)" % (node.lineno, name))
            st.env[name] = V("arr", v.t, nd=v.nd, elem=v.elem, shape=v.shape, nan=None)
            return
        if k == "real":
            st.env[name] = vreal(to_real(v))
        elif k == "int":
            if v.k == "obj":
                v = vint(v.t)
            if v.k != "int":
                raise SpecError("line %d: non-integer value assigned to C integer %s" % (node.lineno, name))
            if ct.base == "int" and not z3.is_int_value(v.t):
                self.oblige("intfit.%s" % name, "intfit", st.facts,
                            z3.And(v.t >= -2 ** 31, v.t < 2 ** 31),
                            note="line %d: %s fits a C int" % (node.lineno, name))
            st.env[name] = v
        elif k == "bool":
            st.env[name] = vbool(to_bool(v))
        elif k in ("fptr", "str"):
            if v.k != k:
                raise SpecError("line %d: %s assigned to %s variable %s" % (node.lineno, v.k, k, name))
            st.env[name] = v
        else:
            st.env[name] = v

    def exec_stmt(self, s, st):
        t = type(s)
        if t is ast.Assign:
            tr = self.code_tr(st)
            v = tr.ev(s.value)
            self.store(s.targets[0], v, st, s)
            return [(st, NORMAL, None)]
        if t is ast.AugAssign:
            tr = self.code_tr(st)
            tgt = copy.copy(s.target)
            tgt.ctx = ast.Load()
            if isinstance(tgt, ast.Subscript):
                self.sites[id(tgt)] = self.sites.get(id(s.target), "anon")
            cur = tr.ev(tgt)
            val = tr.ev(s.value)
            if isinstance(s.op, ast.Div):
                fake = ast.BinOp(left=tgt, op=s.op, right=s.value)
                ast.copy_location(fake, s)
                self.sites[id(fake)] = self.sites.get(id(s), "div")
                v = tr.binop(s.op, cur, val, fake)
            else:
                v = tr.binop(s.op, cur, val, s)
            self.store(s.target, v, st, s, aug=True)
            return [(st, NORMAL, None)]
        if t is ast.Expr:
            if isinstance(s.value, ast.Constant):
                return [(st, NORMAL, None)]
            self.code_tr(st).ev(s.value)
            return [(st, NORMAL, None)]
        if t is ast.Pass:
            return [(st, NORMAL, None)]
        if t is ast.If:
            return self.exec_if(s, st)
        if t is ast.For:
            return self.exec_for(s, st)
        if t is ast.With:
            return self.exec_with(s, st)
        if t is ast.Continue:
            return [(st, CONTINUE, self.sites.get(id(s), "continue"))]
        if t is ast.Break:
            return [(st, BREAK, self.sites.get(id(s), "break"))]
        if t is ast.Return:
            v = self.code_tr(st).ev(s.value) if s.value is not None else V("none")
            return [(st, RETURN, v)]
        if t is ast.Raise:
            exc = s.exc.func.id if isinstance(s.exc, ast.Call) and isinstance(s.exc.func, ast.Name) \
                else ast.unparse(s.exc)
            return [(st, RAISE, (exc, s.lineno))]
        raise SpecError("line %d: statement %s" % (s.lineno, t.__name__))

    def store(self, target, v, st, node, aug=False):
        if isinstance(target, ast.Name):
            self.assign_name(target.id, v, st, node)
            return
        if not isinstance(target.value, ast.Name):
            raise SpecError("line %d: store target" % node.lineno)
        name = target.value.id
        a = st.env.get(name)
        if a is None or a.k != "arr":
            raise SpecError("line %d: store into non-array %s" % (node.lineno, name))
        ct = self.fi.ctype(name)
        if ct is not None and ct.const:
            raise SpecError("line %d: store into const memoryview %s" % (node.lineno, name))
        if a.nan is not None:
            raise SpecError("line %d: store into NaN-flagged array %s not supported" % (node.lineno, name))
        tr = Tr(self.eng.specs, st.env, "code", None)
        idxn = target.slice.elts if isinstance(target.slice, ast.Tuple) else [target.slice]
        if len(idxn) != a.nd or any(isinstance(i, ast.Slice) for i in idxn):
            raise SpecError("line %d: store index form" % node.lineno)
        idx = [tr.ev(i).t for i in idxn]
        self.cur = st
        if not aug:
            self.on_read(target, a, idx, False, write=True)
        else:
            # bounds already emitted by the read half; record the write event
            if self.events is not None:
                self.events.append({"arr": name, "idx": list(idx), "rw": "w", "facts": list(st.facts),
                                    "site": self.sites.get(id(target), "anon"), "line": node.lineno})
        val = to_real(v) if a.elem == "real" else v.t
        if a.elem == "int" and v.k != "int":
            raise SpecError("line %d: non-integer stored into integer array" % node.lineno)
        if a.nd == 1:
            nt = z3.Store(a.t, idx[0], val)
        else:
            nt = z3.Store(a.t, idx[0], z3.Store(z3.Select(a.t, idx[0]), idx[1], val))
        st.env[name] = V("arr", nt, nd=a.nd, elem=a.elem, shape=a.shape, nan=None, origin=a.origin)

    def exec_with(self, s, st):
        region = {"line": s.lineno, "kind": "parallel", "node": s,
                  "ordinal": 1 + sum(1 for r in self.par_regions if r["kind"] == "parallel")}
        self.par_regions.append(region)
        return self.exec_block(s.body, st)

    def exec_if(self, s, st):
        cond = to_bool(self.code_tr(st).ev(s.test))
        base_n = len(st.facts)
        st_t = st.copy()
        st_t.facts.append(cond)
        st_e = st.copy()
        st_e.facts.append(z3.Not(cond))
        r_t = self.exec_block(s.body, st_t)
        r_e = self.exec_block(s.orelse, st_e) if s.orelse else [(st_e, NORMAL, None)]
        if len(r_t) == 1 and len(r_e) == 1 and r_t[0][1] == NORMAL and r_e[0][1] == NORMAL \
                and r_t[0][0].tags == r_e[0][0].tags:
            a, b = r_t[0][0], r_e[0][0]
            m = State({}, list(st.facts[:base_n]), list(a.tags))
            ea = a.facts[base_n + 1:]
            eb = b.facts[base_n + 1:]
            if ea:
                m.facts.append(z3.Implies(cond, z3.And(*ea)))
            if eb:
                m.facts.append(z3.Implies(z3.Not(cond), z3.And(*eb)))
            for k in set(a.env) | set(b.env):
                va, vb = a.env.get(k), b.env.get(k)
                if va is None or vb is None:
                    # assigned on one side only: undefined on the other -> unconstrained symbol
                    other = va or vb
                    if other.k in ("arr", "tuple", "none", "obj"):
                        continue
                    srt = other.t.sort()
                    und = V(other.k, fresh("undef_" + k, srt))
                    va = va or und
                    vb = vb or und
                m.env[k] = merge_v(cond, va, vb, k)
            return [(m, NORMAL, None)]
        return r_t + r_e

    # -- loops ------------------------------------------------------------------------------------
    def loop_mods(self, body):
        scal, arrs = set(), {}
        for n in ast.walk(ast.Module(body=body, type_ignores=[])):
            if isinstance(n, (ast.Assign, ast.AugAssign)):
                tg = n.targets[0] if isinstance(n, ast.Assign) else n.target
                if isinstance(tg, ast.Name):
                    scal.add(tg.id)
                elif isinstance(tg, ast.Subscript) and isinstance(tg.value, ast.Name):
                    idx = tg.slice.elts if isinstance(tg.slice, ast.Tuple) else [tg.slice]
                    arrs.setdefault(tg.value.id, []).append(list(idx))
            elif isinstance(n, ast.For):
                scal.add(n.target.id)
            elif isinstance(n, ast.Call) and isinstance(n.func, ast.Name):
                fid = n.func.id
                targets = []
                if fid in self.low.funcs:
                    targets = [fid]
                elif self.fi.ctype(fid) is not None and self.fi.ctype(fid).base == "funcptr":
                    targets = self.fptr_candidates(self.fi.ctype(fid))
                for tname in targets:
                    c = self.eng.contracts.get(self.eng.contract_key(self.low, tname), {})
                    pn = [p[0] for p in self.low.funcs[tname].params]
                    for m in c.get("modifies", []):
                        an = n.args[pn.index(m)]
                        if isinstance(an, ast.Name):
                            arrs.setdefault(an.id, []).append(None)
                        elif isinstance(an, ast.Subscript) and isinstance(an.value, ast.Name):
                            idx = an.slice.elts if isinstance(an.slice, ast.Tuple) else [an.slice]
                            arrs.setdefault(an.value.id, []).append(
                                [None if isinstance(i, ast.Slice) else i for i in idx])
        return scal, arrs

    def havoc(self, st, scal, arrs, entry, skip=()):
        """fresh values for everything the loop may write; arrays keep the frame derived from the
        syntactic write sites (index components that are loop-invariant scalars)."""
        for nme in sorted(scal):
            if nme in skip:
                continue
            ct = self.fi.ctype(nme)
            if ct is not None and ct.ndim:
                raise SpecError("memoryview %s is (re)assigned inside a loop: outside the subset" % nme)
            k = ctype_kind(ct)
            if k is None:
                old = entry.env.get(nme)
                if old is None:
                    continue
                k = old.k
            if k in ("real", "int", "bool", "fptr", "str"):
                srt = {"real": REAL, "int": INT, "bool": BOOL, "fptr": INT, "str": INT}[k]
                st.env[nme] = V(k, fresh(nme, srt))
            else:
                raise SpecError("loop writes %s of kind %s" % (nme, k))
        tr = Tr(self.eng.specs, entry.env, "code", None)
        for nme in sorted(arrs):
            a = entry.env.get(nme)
            if a is None or a.k != "arr":
                raise SpecError("loop writes unknown array %s" % nme)
            sites = arrs[nme]
            stable = []
            for p in range(a.nd):
                ok = all(s is not None and s[p] is not None for s in sites)
                if ok:
                    texts = {ast.unparse(s[p]) for s in sites}
                    e = sites[0][p]
                    ok = len(texts) == 1 and not (_names(e) & scal) and \
                        not any(isinstance(x, (ast.Subscript, ast.Call)) for x in ast.walk(e))
                stable.append(tr.ev(sites[0][p]).t if ok else None)
            esort = REAL if a.elem == "real" else INT
            if a.nd == 1:
                if stable[0] is not None:
                    nt = z3.Store(a.t, stable[0], fresh(nme + "_el", esort))
                else:
                    nt = fresh(nme, a.t.sort())
            else:
                rsort = KS.arr_sort(1, a.elem)
                if stable[0] is not None and stable[1] is not None:
                    nt = z3.Store(a.t, stable[0], z3.Store(z3.Select(a.t, stable[0]), stable[1],
                                                           fresh(nme + "_el", esort)))
                elif stable[0] is not None:
                    nt = z3.Store(a.t, stable[0], fresh(nme + "_row", rsort))
                elif stable[1] is not None:
                    nt = fresh(nme, a.t.sort())
                    d, x = z3.Const("fr_d", INT), z3.Const("fr_x", INT)
                    st.facts.append(z3.ForAll(
                        [d, x], z3.Implies(x != stable[1],
                                           z3.Select(z3.Select(nt, d), x) == z3.Select(z3.Select(a.t, d), x)),
                        patterns=[z3.Select(z3.Select(nt, d), x)]))
                else:
                    nt = fresh(nme, a.t.sort())
            st.env[nme] = V("arr", nt, nd=a.nd, elem=a.elem, shape=a.shape, nan=a.nan, origin=a.origin)

    def inv_clauses(self, key):
        inv = self.c.get("invariants", {})
        if key in inv:
            return list(inv[key])
        base = key.split("#")[0]
        if base in inv and "#" not in key:
            return list(inv[base])
        return None

    def exec_for(self, s, st):
        var = s.target.id
        key = self.loopkeys[id(s)]
        is_par = s.iter.func.id == "prange"
        tr = self.code_tr(st)
        args = [tr.ev(a) for a in s.iter.args]
        for a in args:
            if a.k != "int":
                raise SpecError("line %d: non-integer range bound" % s.lineno)
        lo = args[0].t if len(args) == 2 else z3.IntVal(0)
        hi = args[-1].t
        hi_eff = z3.If(hi >= lo, hi, lo)
        ct = self.fi.ctype(var)
        if ct is not None and ct.base == "int":
            self.oblige("intfit.loop.%s" % key, "intfit", st.facts,
                        z3.And(lo >= -2 ** 31, hi_eff < 2 ** 31),
                        note="line %d: loop variable %s fits a C int" % (s.lineno, var))
        clauses = self.inv_clauses(key)
        if clauses is None:
            raise SpecError("%s: no invariant for loop %r (line %d) in the contract"
                            % (self.fname, key, s.lineno))
        scal, arrs = self.loop_mods(s.body)
        scal.add(var)
        entry = st
        entry_env = dict(entry.env)
        self.eng.loops_seen.append((self.ckey, key, s.lineno, is_par))

        def inv_terms(state, kval):
            env = dict(state.env)
            env[var] = vint(kval)
            return [self.spec_bool(c, env, entry_env=entry_env) for c in clauses]

        # init ------------------------------------------------------------------------------------
        for i, g in enumerate(inv_terms(entry, lo)):
            self.oblige("loop.%s.init" % key, "loop", entry.facts, g,
                        note="invariant %r holds on entry" % clauses[i], loopvar=key)
        # body ------------------------------------------------------------------------------------
        b = entry.copy()
        mark = len(KS.FRESH_LOG)
        self.havoc(b, scal, arrs, entry, skip={var})
        kv = fresh(var, INT)
        b.env[var] = vint(kv)
        b.facts.append(lo <= kv)
        b.facts.append(kv < hi)
        b.facts.extend(inv_terms(b, kv))
        # explicitly instantiated arithmetic lemmas (each proved separately as lemma.<name>)
        for lname, subst in self.c.get("use", {}).get(key, []):
            lem = self.c["lemmas"][lname]
            benv = dict(b.env)
            lenv = {}
            for vn, srt in lem["vars"].items():
                val = self.spec_tr(benv, entry_env=entry_env).ev(ast.parse(subst[vn], mode="eval").body)
                lenv[vn] = vreal(to_real(val)) if srt == "R" else val
            hyps = [self.spec_bool(h, lenv) for h in lem.get("hyp", [])]
            claim = self.spec_bool(lem["claim"], lenv)
            b.facts.append(z3.Implies(z3.And(*hyps), claim) if hyps else claim)
            self.eng.hints_used.add("%s: %s  [%s]" % (lname, lem["claim"], ", ".join(
                "%s:=%s" % kvp for kvp in sorted(subst.items()))))
        self.canaries.append(("canary.loop.%s" % key, list(b.facts), z3.BoolVal(False)))
        saved_events = self.events
        if is_par:
            self.events = []
        body_base = len(b.facts)
        results = self.exec_block(s.body, b)
        if is_par:
            self.par_regions.append({"line": s.lineno, "kind": "prange", "node": s, "var": var,
                                     "key": key, "kv": kv, "events": self.events,
                                     "fresh": list(KS.FRESH_LOG[mark:]), "lo": lo, "hi": hi,
                                     "entry_facts": list(entry.facts)})
            self.events = saved_events
            if saved_events is not None:
                saved_events.extend(self.par_regions[-1]["events"])
        breaks = []
        multi = len(results) > 1
        splits = self.c.get("splits", {}).get(key)
        for (e, out, pay) in results:
            if out in (NORMAL, CONTINUE):
                lab = "" if not multi else (".end" if out == NORMAL else "." + pay)
                if e.tags:
                    lab += "@" + "+".join(e.tags)
                goals = inv_terms(e, kv + 1)
                cases = [(None, None, None)]
                if splits:
                    cases = splits
                for case in cases:
                    facts = e.facts
                    sfx = ""
                    sp = None
                    if case[0] is not None:
                        env = dict(e.env)
                        env[var] = vint(kv)
                        facts = e.facts + [self.spec_bool(case[1], env, entry_env=entry_env)]
                        sfx = ".case_%s" % case[0]
                        sp = (case[0], case[2] if len(case) > 2 else None)
                    for i, g in enumerate(goals):
                        self.oblige("loop.%s.preserve%s%s" % (key, lab, sfx), "loop", facts, g,
                                    note="invariant %r re-established" % clauses[i], loopvar=key,
                                    split=sp)
            elif out == BREAK:
                e2 = e
                e2.tags = e.tags + ["%s.%s" % (key, pay)]
                breaks.append(e2)
            else:
                raise SpecError("line %d: return/raise inside a loop is outside the subset" % s.lineno)
        # exit ------------------------------------------------------------------------------------
        x = entry.copy()
        self.havoc(x, scal, arrs, entry, skip={var})
        x.facts.extend(inv_terms(x, hi_eff))
        posts = self.c.get("post", {}).get(key, [])
        env = dict(x.env)
        env[var] = vint(hi_eff)
        for ptxt in posts:
            g = self.spec_bool(ptxt, env, entry_env=entry_env)
            self.oblige("loop.%s.exit" % key, "loop", x.facts, g,
                        note="on exit the invariant gives %r" % ptxt, loopvar=key)
            x.facts.append(g)
        if not posts:
            # default exit obligation: the invariant at the final index is consistent with frame
            pass
        last = fresh(var + "_last", INT)
        x.facts.append(z3.Implies(hi > lo, last == hi - 1))
        x.env[var] = vint(last)
        for e2 in breaks:
            pass
        return [(x, NORMAL, None)] + [(e2, NORMAL, None) for e2 in breaks]

    # -- whole function ----------------------------------------------------------------------------
    def initial_state(self):
        st = State()
        for pn, ct, dflt in self.fi.params:
            k = ctype_kind(ct)
            if ct.ndim:
                elem = "int" if ct.base in ("int", "int64", "uint8") else "real"
                shape = [z3.Const("%s_shape%d" % (pn, i), INT) for i in range(ct.ndim)]
                for s_ in shape:
                    st.facts.append(s_ >= 0)
                nan = None
                if pn in self.nan_arrays:
                    if elem != "real":
                        raise SpecError("NaN flag on integer array %s" % pn)
                    nan = z3.Const(pn + "_isnan", KS.arr_sort(ct.ndim, "bool"))
                t = z3.Const(pn, KS.arr_sort(ct.ndim, elem))
                st.env[pn] = V("arr", t, nd=ct.ndim, elem=elem, shape=shape, nan=nan)
                if ct.base == "uint8":
                    i, j = z3.Const("u8_i", INT), z3.Const("u8_j", INT)
                    sel = z3.Select(z3.Select(t, i), j) if ct.ndim == 2 else z3.Select(t, i)
                    st.facts.append(z3.ForAll([i, j] if ct.ndim == 2 else [i],
                                              z3.And(sel >= 0, sel <= 255), patterns=[sel]))
            elif k == "obj":
                st.env[pn] = V("obj", z3.Const(pn, INT), isnone=z3.Const(pn + "_is_none", BOOL))
            elif k in ("real", "int", "bool", "str", "fptr"):
                srt = {"real": REAL, "int": INT, "bool": BOOL, "str": INT, "fptr": INT}[k]
                st.env[pn] = V(k, z3.Const(pn, srt))
                if ct.base == "int":
                    st.facts.append(z3.And(st.env[pn].t >= -2 ** 31, st.env[pn].t < 2 ** 31))
            else:
                raise SpecError("parameter %s of kind %s" % (pn, k))
        self.param_vals = dict(st.env)
        return st

    def run(self):
        st = self.initial_state()
        self.old_env = dict(st.env)
        req = []
        for r in self.c.get("requires", []):
            req.append(self.spec_bool(r, st.env))
        st.facts.extend(req)
        self.cover = list(st.facts)
        for lname, lem in sorted(self.c.get("lemmas", {}).items()):
            lenv = {}
            for vn, srt in lem["vars"].items():
                lenv[vn] = V("real", fresh("lem_" + vn, REAL)) if srt == "R" else V("int", fresh("lem_" + vn, INT))
            hyps = [self.spec_bool(h, lenv) for h in lem.get("hyp", [])]
            self.oblige("lemma.%s" % lname, "ensures", hyps, self.spec_bool(lem["claim"], lenv),
                        note="arithmetic lemma used as hint: " + lem["claim"])
        results = self.exec_block(self.fi.node.body, st)
        ens = self.c.get("ensures", {})
        ens_items = list(ens.items()) if isinstance(ens, dict) else list(ens)
        nret = sum(1 for r in results if r[1] in (RETURN, NORMAL))
        ri = 0
        raises = self.c.get("raises")
        for (e, out, pay) in results:
            if out in (RETURN, NORMAL):
                ri += 1
                lab = "" if nret == 1 else ".ret%d" % ri
                if e.tags:
                    lab += "@" + "+".join(e.tags)
                res = pay if out == RETURN else V("none")
                env = dict(e.env)
                # ensures talk about parameters (possibly modified arrays: current value) and result
                penv = {}
                for pn, _, _ in self.fi.params:
                    penv[pn] = env.get(pn, self.old_env[pn])
                penv["result"] = res
                goals = []
                for nm, txt in ens_items:
                    g = self.spec_bool(txt, penv, old_env=self.old_env)
                    goals.append(g)
                    self.oblige("ensures.%s%s" % (nm, lab), "ensures", e.facts, g, note=txt)
                if goals:
                    self.canaries.append(("canary.ensures%s" % lab, list(e.facts),
                                          z3.Not(z3.And(*goals))))
            elif out == RAISE:
                exc, line = pay
                if raises is None:
                    raise SpecError("%s raises %s at line %d but the contract has no 'raises'"
                                    % (self.fname, exc, line))
                g = self.spec_bool(raises.get(exc, "False"), self.old_env)
                self.oblige("raises.%s" % exc, "raises", e.facts, g,
                            note="line %d: raised only under the documented condition" % line)
            else:
                raise SpecError("%s: %s escapes the function" % (self.fname, out))
        return self


def merge_v(cond, a, b, name):
    if a is b:
        return a
    if a.k != b.k:
        if {a.k, b.k} <= {"int", "real"}:
            return vreal(z3.If(cond, to_real(a), to_real(b)))
        raise SpecError("variable %s has kind %s on one branch and %s on the other" % (name, a.k, b.k))
    if a.k == "arr":
        if a.t.eq(b.t):
            return a
        return V("arr", z3.If(cond, a.t, b.t), nd=a.nd, elem=a.elem, shape=a.shape, nan=a.nan,
                 origin=a.origin)
    if a.k in ("none",):
        return a
    if a.k == "tuple":
        return V("tuple", items=[merge_v(cond, x, y, name) for x, y in zip(a.items, b.items)])
    if a.k == "obj":
        return V("obj", z3.If(cond, a.t, b.t), isnone=z3.If(cond, a.isnone, b.isnone))
    if a.t.eq(b.t):
        return a
    return V(a.k, z3.If(cond, a.t, b.t))


def split_goal(goal, extra=None):
    """And -> separate queries; Implies -> antecedent to the facts; ForAll -> skolem constant."""
    extra = list(extra or [])
    if z3.is_and(goal):
        out = []
        for c in goal.children():
            out.extend(split_goal(c, extra))
        return out
    if z3.is_implies(goal):
        return split_goal(goal.arg(1), extra + [goal.arg(0)])
    if z3.is_quantifier(goal) and goal.is_forall():
        n = goal.num_vars()
        consts = [fresh("sk_" + goal.var_name(i), goal.var_sort(i)) for i in range(n)]
        body = z3.substitute_vars(goal.body(), *reversed(consts))
        return split_goal(body, extra)
    return [(extra, goal)]


# ================================================================================================
# engine: lowering + contracts + VC generation for a set of functions
# ================================================================================================
class Engine:
    def __init__(self, contracts, spec_table, lows=None, override=None):
        from . import lower_pyx
        # files that cannot be lowered do not stop the others: relpath -> message (reported by the
        # drivers as UNDECIDED obligations, see kern_run.KernRun.unlowered / kern_diff)
        self.unlowered = {}
        if lows is None:
            lows, self.unlowered = lower_pyx.lower_all_contained()
        self.lows = lows
        self.specs = KS.Specs(spec_table)
        self.spec_table = spec_table
        self.contracts = contracts
        self.override = override or {}
        self.fcodes = {rp: {fn: 100 + i for i, fn in enumerate(sorted(low.funcs))}
                       for rp, low in self.lows.items()}
        self.assumed = set()
        self.hints_used = set()
        self.calls = set()
        self.loops_seen = []
        self.vcs = {}

    @staticmethod
    def contract_key(low, fname):
        return "%s:%s" % (low.short, fname)

    @staticmethod
    def id_stem(low, fname):
        """low: Lowered or the relpath of a kernel file (usable when the file could not be lowered)"""
        from . import lower_pyx
        short = lower_pyx.short_of(low) if isinstance(low, str) else low.short
        return "%s.%s" % (short[:-4].replace("/", "."), fname)

    def generate(self, relpath, fname):
        low = self.lows[relpath]
        if fname in low.failed:
            from . import lower_pyx
            raise lower_pyx.LoweringError(low.failed[fname])
        key = self.contract_key(low, fname)
        ckey = self.override.get(key, key)
        c = self.contracts.get(ckey)
        if c is None:
            raise SpecError("no contract for %s" % ckey)
        vc = FuncVC(self, low, fname, c, self.id_stem(low, fname))
        vc.contract_key = ckey
        vc.run()
        self.vcs[(relpath, fname)] = vc
        return vc
