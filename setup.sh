#!/bin/sh
# Build the verifier interpreter: an overlay venv on /venv (repo deps: numpy, scipy, gstools
# editable) plus z3-solver and cvc5 from the offline wheelhouse.  No network.
set -e
cd "$(dirname "$0")"
V=.venv312
if [ -x "$V/bin/python" ] && "$V/bin/python" -c "import z3, numpy, gstools" 2>/dev/null; then
  exit 0
fi
rm -rf "$V"
/venv/bin/python -m venv --without-pip "$V"
echo "import site; site.addsitedir('/venv/lib/python3.12/site-packages')" > "$V/lib/python3.12/site-packages/_venv.pth"
"$V/bin/python" -m ensurepip >/dev/null
PIP_NO_INDEX=1 "$V/bin/python" -m pip install -q --no-index --find-links /opt/veriftools/wheels z3-solver cvc5 jsonschema
"$V/bin/python" -c "import z3, numpy, gstools; print('verifier venv ok: z3', z3.get_version_string())"
