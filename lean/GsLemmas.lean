/-
  GsLemmas.lean — size-generic pure-mathematics lemmas that connect the contracts of
  /verif/contracts (checked by `lean` in the thorough tier; Mathlib required).

  The SMT-level obligations establish, per enumerated shape, that the real code hands the
  block matrix `A`, the right-hand side `k` and the data vector `c` of the kriging system to
  the inverse / summation kernels.  The lemmas below are the shape-independent consequences.
-/
import Mathlib

open Matrix
set_option linter.unusedSectionVars false

variable {n : Type*} [Fintype n] [DecidableEq n]

/-- C05: with `K * A = 1` the weights `w = K * k` solve the kriging system `A w = k`
    (the estimate `c ⬝ K k` is the estimate of the direct solution). -/
theorem krige_weights_solve (A K : Matrix n n ℝ) (h : K * A = 1) (k : n → ℝ) :
    A *ᵥ (K *ᵥ k) = k := by
  have h' : A * K = 1 := mul_eq_one_comm.mp h
  rw [Matrix.mulVec_mulVec, h', Matrix.one_mulVec]

/-- C05: the solution is unique. -/
theorem krige_weights_unique (A K : Matrix n n ℝ) (h : K * A = 1) (k w : n → ℝ)
    (hw : A *ᵥ w = k) : w = K *ᵥ k := by
  rw [← hw, Matrix.mulVec_mulVec, h, Matrix.one_mulVec]

/-- C06 (exactness): if the right-hand side is column `i` of `A`, the weights are `e_i`. -/
theorem krige_exact (A K : Matrix n n ℝ) (h : K * A = 1) (i : n) :
    K *ᵥ (fun j => A j i) = Pi.single i 1 := by
  have : (fun j => A j i) = A *ᵥ (Pi.single i 1) := by
    ext j; simp [Matrix.mulVec, dotProduct, Pi.single_apply]
  rw [this, Matrix.mulVec_mulVec, h, Matrix.one_mulVec]

/-- C05: the estimate is linear in the data vector. -/
theorem krige_linear (K : Matrix n n ℝ) (k a b : n → ℝ) (α β : ℝ) :
    (α • a + β • b) ⬝ᵥ (K *ᵥ k) = α * (a ⬝ᵥ (K *ᵥ k)) + β * (b ⬝ᵥ (K *ᵥ k)) := by
  simp [add_dotProduct, smul_dotProduct]

/-- C12: the product of orthogonal matrices is orthogonal (rotation = product of Givens rotations). -/
theorem orth_mul (P Q : Matrix n n ℝ) (hP : Pᵀ * P = 1) (hQ : Qᵀ * Q = 1) :
    (P * Q)ᵀ * (P * Q) = 1 := by
  rw [Matrix.transpose_mul, Matrix.mul_assoc, ← Matrix.mul_assoc Pᵀ, hP, Matrix.one_mul, hQ]

/-- C09: a sum over ordered pairs of a symmetric term is invariant under relabelling the points
    by a permutation (permutation invariance of the empirical variogram sums). -/
theorem pair_sum_perm (σ : Equiv.Perm n) (t : n → n → ℝ) :
    ∑ i, ∑ j, t (σ i) (σ j) = ∑ i, ∑ j, t i j := by
  rw [← Equiv.sum_comp σ (fun i => ∑ j, t i j)]
  apply Finset.sum_congr rfl
  intro i _
  exact Equiv.sum_comp σ (fun j => t (σ i) j)
