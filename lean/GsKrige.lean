/-
GsKrige -- size-generic linear-algebra lemmas behind the kriging contracts C05 / C06.
Checked by `lean /verif/lean/GsKrige.lean` (thorough tier of ./check C05 and ./check C06).
The SMT obligations of contracts/c05.py, c06.py prove the same statements per enumerated system
size; the correspondence (A = captured kriging matrix, K = result of the inverse routine,
k = right-hand side, c = conditioning vector) is hand-written glue (T7).
(Kept apart from lean/GsLemmas.lean, the shared lemma file of the other properties.)
-/
import Mathlib

open Matrix

namespace GsKrige

set_option linter.unusedSectionVars false

variable {n : Type*} [Fintype n] [DecidableEq n] {R : Type*} [CommRing R]

/-- C05: with A.K = 1 the vector K k solves the kriging system A w = k. -/
theorem krige_direct_solution (A K : Matrix n n R) (h : A * K = 1) (k : n → R) :
    A *ᵥ (K *ᵥ k) = k := by
  rw [Matrix.mulVec_mulVec, h, Matrix.one_mulVec]

/-- C05: with K.A = 1 every solution of A w = k is K k (the estimate is that of the direct solution). -/
theorem krige_solution_unique (A K : Matrix n n R) (h : K * A = 1) (w k : n → R)
    (hw : A *ᵥ w = k) : w = K *ᵥ k := by
  rw [← hw, Matrix.mulVec_mulVec, h, Matrix.one_mulVec]

/-- C05: the estimate c^T K k is linear in the conditioning vector c. -/
theorem krige_estimate_linear (K : Matrix n n R) (k a b : n → R) (α β : R) :
    (α • a + β • b) ⬝ᵥ (K *ᵥ k) = α * (a ⬝ᵥ (K *ᵥ k)) + β * (b ⬝ᵥ (K *ᵥ k)) := by
  simp [add_dotProduct, smul_dotProduct]

/-- C05: a row u of the system reads  sum_j A_uj w_j = k_u ; with the unbiasedness row
(A_uj = 1 on the conditioning indices, 0 elsewhere, k_u = 1) the weights sum to 1, with a drift
row (A_uj = f(x_j), k_u = f(x0)) the weights reproduce the drift function. -/
theorem krige_row (A : Matrix n n R) (w k : n → R) (hw : A *ᵥ w = k) (u : n) :
    ∑ j, A u j * w j = k u := by
  have := congrFun hw u
  simpa [Matrix.mulVec, dotProduct] using this

/-- C05: unbiased weights reproduce data that are a combination of the constraint rows:
if c = sum_u beta_u A_u (row combination) then c^T w = sum_u beta_u k_u. -/
theorem krige_reproduces_rows (A : Matrix n n R) (w k : n → R) (hw : A *ᵥ w = k) (β : n → R) :
    (β ᵥ* A) ⬝ᵥ w = β ⬝ᵥ k := by
  rw [← hw, Matrix.dotProduct_mulVec]

/-- C06 (krige_exact): if the right-hand side is column i of A then K k = e_i. -/
theorem krige_exact (A K : Matrix n n R) (h : K * A = 1) (i : n) :
    K *ᵥ (A *ᵥ (Pi.single i 1)) = Pi.single i 1 := by
  rw [Matrix.mulVec_mulVec, h, Matrix.one_mulVec]

/-- column i of A as a matrix-vector product -/
theorem col_eq_mulVec_single (A : Matrix n n R) (i : n) :
    A *ᵥ (Pi.single i 1) = fun j => A j i := by
  ext j
  simp [Matrix.mulVec, dotProduct, Pi.single_apply]

/-- C06: hence the raw field c^T K k is c_i (and, with c := k, k^T K k = k_i). -/
theorem krige_exact_value (A K : Matrix n n R) (h : K * A = 1) (i : n) (c : n → R) :
    c ⬝ᵥ (K *ᵥ (A *ᵥ (Pi.single i 1))) = c i := by
  rw [krige_exact A K h i]
  simp [dotProduct, Pi.single_apply]

/-- C05: a permutation of the conditioning points (A'(s i, s j) = A(i, j), k'(s i) = k(i),
c'(s i) = c(i)) leaves the estimate c^T A^-1 k unchanged. -/
theorem krige_perm_invariant (A K A' K' : Matrix n n R) (σ : n ≃ n)
    (hK : A * K = 1) (hK' : K' * A' = 1)
    (hA : ∀ i j, A' (σ i) (σ j) = A i j) (k k' c c' : n → R)
    (hk : ∀ i, k' (σ i) = k i) (hc : ∀ i, c' (σ i) = c i) :
    c' ⬝ᵥ (K' *ᵥ k') = c ⬝ᵥ (K *ᵥ k) := by
  -- u := permuted old weights solve the new system, hence equal the new weights
  set w := K *ᵥ k with hw
  have hsol : A *ᵥ w = k := by rw [hw, Matrix.mulVec_mulVec, hK, Matrix.one_mulVec]
  let u : n → R := fun j => w (σ.symm j)
  have hu : A' *ᵥ u = k' := by
    ext i'
    obtain ⟨i, rfl⟩ := σ.surjective i'
    have := congrFun hsol i
    simp only [Matrix.mulVec, dotProduct] at this ⊢
    rw [hk i, ← this]
    rw [← Equiv.sum_comp σ]
    refine Finset.sum_congr rfl ?_
    intro j _
    simp [u, hA]
  have huw : u = K' *ᵥ k' := krige_solution_unique A' K' hK' u k' hu
  rw [← huw]
  simp only [dotProduct]
  rw [← Equiv.sum_comp σ]
  refine Finset.sum_congr rfl ?_
  intro j _
  simp [u, hc]

/-- C06: the inverse of a positive definite matrix has a non-negative quadratic form
(simple kriging: variance = sill - k^T A^-1 k <= sill). -/
theorem quad_inv_nonneg {m : Type*} [Fintype m] [DecidableEq m] (A : Matrix m m ℝ)
    (hA : A.PosDef) (k : m → ℝ) : 0 ≤ k ⬝ᵥ (A⁻¹ *ᵥ k) := by
  have h := hA.inv.posSemidef.dotProduct_mulVec_nonneg k
  simpa using h

end GsKrige
