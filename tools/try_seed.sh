#!/bin/sh
# tools/try_seed.sh <seed dir with patch.diff> <worktree> <Cxx> [more Cxx ...]
# applies the patch to the scratch worktree, runs the named checks against it (GSTOOLS_REPO), reverts.
# (maintainer tool for validating the machinery against seeded changes; not used by the checks)
S="$1"; W="$2"; shift 2
cd "$W" && git checkout -q -- . && git apply "$S/patch.diff" || { echo "patch does not apply"; exit 3; }
for P in "$@"; do
  ( cd /verif && GSTOOLS_REPO="$W" timeout 1500 ./check "$P" > "/tmp/seedrun_$(basename $(dirname $S))_$(basename $S)_$P.log" 2>&1; echo "$P exit=$? violations=$(grep -c '^VIOLATION' /tmp/seedrun_$(basename $(dirname $S))_$(basename $S)_$P.log) $(grep -m2 '^VIOLATION' /tmp/seedrun_$(basename $(dirname $S))_$(basename $S)_$P.log | cut -c1-220 | tr '\n' ' ')" )
done
cd "$W" && git checkout -q -- .
