#!/bin/sh
# tools/confirm_seed.sh <seed dir> <worktree>  -- confirm a seeded change myself:
# patch applies to the worktree (current /repo HEAD), full test suite green with it, demo fails with
# it and passes without it.  Writes <seed dir>/confirm.txt
S="$1"; W="$2"
cd "$W" && git checkout -q -- . && git clean -qfd -e '*.so' >/dev/null 2>&1
OUT="$S/confirm.txt"; : > "$OUT"
if ! git apply --check "$S/patch.diff" 2>>"$OUT"; then echo "APPLY=fail" >> "$OUT"; exit 1; fi
PYTHONPATH="$W/src" /venv/bin/python "$S/demo.py" > "$S/demo_clean.log" 2>&1; echo "DEMO_CLEAN_EXIT=$?" >> "$OUT"
git apply "$S/patch.diff"
PYTHONPATH="$W/src" /venv/bin/python "$S/demo.py" > "$S/demo_patched.log" 2>&1; echo "DEMO_PATCHED_EXIT=$?" >> "$OUT"
PYTHONPATH="$W/src" timeout 2400 /venv/bin/python -m pytest -q -p no:cacheprovider --timeout=900 2>&1 | tail -1 >> "$OUT"
git checkout -q -- .
cat "$OUT" | tr '\n' ' '; echo
