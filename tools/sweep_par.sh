#!/bin/sh
# tools/sweep_par.sh <worktree> <ids...>: like sweep_seeds.sh but in a scratch worktree (GSTOOLS_REPO),
# so that several can run in parallel and /repo and evidence/ stay untouched.  Appends to seeded/.sweep_<wt>.tsv
W="$1"; shift
cd /verif
OUT=seeded/.sweep_$(basename $W).tsv; : > $OUT
for id in "$@"; do
  [ -f seeded/$id/patch.diff ] || continue
  ( cd $W && git checkout -q -- . && git apply /verif/seeded/$id/patch.diff ) || { echo "$id	-	patch-does-not-apply	0	" >> $OUT; continue; }
  for c in $(.venv312/bin/python -c "import json;print(' '.join(json.load(open('seeded/$id/meta.json'))['checks_to_run']))"); do
    GSTOOLS_REPO=$W timeout 2400 ./check $c > /tmp/sweep_${id}_$c.log 2>&1; rc=$?
    n=$(grep -c '^VIOLATION' /tmp/sweep_${id}_$c.log)
    nf=$(grep -c 'no-failing-input-found' /tmp/sweep_${id}_$c.log)
    first=$(grep -m1 '^VIOLATION' /tmp/sweep_${id}_$c.log | sed 's/.*replays\///' | cut -c1-140)
    echo "$id	$c	$rc	$n	$nf	$first" >> $OUT
  done
  ( cd $W && git checkout -q -- . )
done
