"""Collect independently seeded, self-confirmed changes from /tmp/seed_out into /verif/seeded/<id>/
(patch.diff, demo.py, meta.txt, meta.json).  Maintainer tool."""
import json, os, re, shutil, sys
SRC = sys.argv[1] if len(sys.argv) > 1 else "/tmp/seed_out"
TAG = sys.argv[2] if len(sys.argv) > 2 else ""        # e.g. "r2" -> ids Cxx-r2-1
DST = "/verif/seeded"
CHECKS = {  # which checks are expected to be relevant for the sweep
    "C01": ["C01", "C11"], "C02": ["C02", "C03"], "C03": ["C03", "C14"], "C04": ["C04", "C14"],
    "C05": ["C05", "C06"], "C06": ["C06", "C05"], "C07": ["C07"], "C08": ["C08", "C09"],
    "C09": ["C09", "C20"], "C10": ["C10"], "C11": ["C11", "C17"], "C12": ["C12", "C20"],
    "C13": ["C13", "C14", "C20"], "C14": ["C14"], "C16": ["C16", "C11"], "C17": ["C17", "C11"],
    "C18": ["C18", "C20"], "C19": ["C19", "C20"], "C20": ["C20"],
}
os.makedirs(DST, exist_ok=True)
for p in sorted(os.listdir(SRC)):
    for i in sorted(os.listdir(os.path.join(SRC, p))):
        d = os.path.join(SRC, p, i)
        cf = os.path.join(d, "confirm.txt")
        if not (os.path.isdir(d) and os.path.exists(cf)):
            continue
        c = open(cf).read()
        ok = "DEMO_CLEAN_EXIT=0" in c and "DEMO_PATCHED_EXIT=1" in c and "120 passed" in c
        sid = "%s-%s%s" % (p, (TAG + "-") if TAG else "", i)
        if not ok:
            print("skip", sid, c.replace("\n", " ")[:160])
            continue
        out = os.path.join(DST, sid)
        os.makedirs(out, exist_ok=True)
        for f in ("patch.diff", "demo.py", "meta.txt"):
            shutil.copy(os.path.join(d, f), os.path.join(out, f))
        meta_txt = open(os.path.join(d, "meta.txt")).read()
        files = sorted(set(re.findall(r"^\+\+\+ b/(\S+)", open(os.path.join(d, "patch.diff")).read(), re.M)))
        meta = {
            "id": sid,
            "property": p,
            "origin": "fresh sub-agent given only the property text and its own scratch worktree (nothing from /verif)",
            "files_changed": files,
            "breaks_and_needs": meta_txt[:1800],
            "confirmed_by_me": {
                "how": "tools/confirm_seed.sh in a scratch worktree at the /repo HEAD current when collected: patch applies; "
                       "demo.py exits 0 on the unchanged tree and 1 with the patch; full test suite with the patch",
                "demo_unchanged_exit": 0, "demo_patched_exit": 1,
                "test_suite_with_patch": [l for l in c.splitlines() if "passed" in l][-1],
            },
            "checks_to_run": CHECKS.get(p, [p]),
        }
        json.dump(meta, open(os.path.join(out, "meta.json"), "w"), indent=1)
        print("kept", sid, files)
