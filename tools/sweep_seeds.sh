#!/bin/sh
# tools/sweep_seeds.sh [ids...] : apply every seeded change to /repo itself, run its checks, undo it;
# writes seeded/RESULTS.md.  Run only when nothing else is using /repo.
cd /verif
IDS="$@"; [ -z "$IDS" ] && IDS=$(ls seeded | grep -v RESULTS)
OUT=seeded/RESULTS.md
echo "| seed | property | check | exit | VIOLATION lines | first violation |" > $OUT.tmp
echo "|---|---|---|---|---|---|" >> $OUT.tmp
for id in $IDS; do
  [ -f seeded/$id/patch.diff ] || continue
  git -C /repo checkout -q -- . ; git -C /repo apply seeded/$id/patch.diff || { echo "| $id | - | - | patch does not apply | | |" >> $OUT.tmp; continue; }
  for c in $(.venv312/bin/python -c "import json;print(' '.join(json.load(open('seeded/$id/meta.json'))['checks_to_run']))"); do
    ./check $c > /tmp/sweep_${id}_$c.log 2>&1; rc=$?
    n=$(grep -c '^VIOLATION' /tmp/sweep_${id}_$c.log)
    first=$(grep -m1 '^VIOLATION' /tmp/sweep_${id}_$c.log | sed 's/.*replays\///' | cut -c1-120)
    echo "| $id | ${id%-*} | $c | $rc | $n | $first |" >> $OUT.tmp
  done
  git -C /repo checkout -q -- .
done
mv $OUT.tmp $OUT; cat $OUT
