"""C20, second clause: "storing a result under a new name never alters results stored earlier".

The frames engine decides that no stored ARRAY is written in place.  A stored result can also be
lost without any in-place write: the new result is stored under the NAME of the old one.  Which
name a call stores under is decided by one function, `Field.get_store_config`, used by every
storing entry point (Field.__call__, SRF.__call__, CondSRF.__call__, Krige.__call__ and the
transform wrapper).  It gets a contract taken from its docstring, and the storing entry points are
checked against it on the call histories the statement quantifies over (store call after store
call, symbolic field values).

    name_i = store_i           if store_i is a string
           = default_i         otherwise            (default: the one given by the caller, else the
                                                     default_field_names of the object)
    save_i = store_i is a string or bool(store_i);  missing entries of a list mean True
"""
import itertools

import numpy as np

from gsvc.contract import contract
from contracts import krige_common as kc
from contracts.krige_common import quiet, arr

P = "C20"
FN = ["field/base.py:Field.get_store_config", "field/base.py:_names"]

# one representative per class of a `store` entry: True, False, a new name
ENTRY = [True, False, "a", "b"]


def _forms(cnt):
    """all list forms up to length cnt + 1 (one surplus entry is cut), tuples, scalars"""
    out = [True, False, "a"]
    for ln in range(0, cnt + 2):
        for combo in itertools.product(ENTRY, repeat=ln):
            if len([c for c in combo if isinstance(c, str)]) != len({c for c in combo if isinstance(c, str)}):
                continue
            out.append(list(combo))
    out.append(tuple([True] * cnt))
    return out


def spec_store(store, default, cnt):
    if isinstance(store, str):
        store = [store]
    if isinstance(store, (list, tuple)):
        st = list(store)[:cnt] + [True] * max(0, cnt - len(store))
    else:
        st = [bool(store)] * cnt
    name = [v if isinstance(v, str) else default[i] for i, v in enumerate(st)]
    save = [isinstance(v, str) or bool(v) for v in st]
    return name, save


@contract(P, "Field.get_store_config/documented-name-resolution",
          params=[{"cls": c, "cnt": n, "default": d} for c in ("Field", "Krige", "CondSRF")
                  for n in (0, 1, 2, 3) for d in ("none", "given")],
          functions=FN, bounded="1-3 fields, every combination of {True, False, new name} per entry, one surplus entry")
def store_config(ctx, cls, cnt, default):
    import gstools as gs
    from gstools.field.base import Field
    obj_cls = {"Field": Field, "Krige": gs.krige.Krige, "CondSRF": gs.CondSRF}[cls]
    obj = obj_cls.__new__(obj_cls)              # get_store_config reads class attributes only
    names = list(obj_cls.default_field_names)
    given = ["g%d" % i for i in range(max(cnt, 1))]
    if cnt == 0:                                # single-field form: fld_cnt=None
        for store in (True, False, "a", 1, 0, None):
            dflt = given[0] if default == "given" else None
            got = obj.get_store_config(store, default=dflt)
            want = (store if isinstance(store, str) else (given[0] if default == "given" else names[0]),
                    isinstance(store, str) or bool(store))
            ctx.ensure("single:name,save[store=%r]" % (store,), tuple(got) == want)
        return
    if default == "none" and cnt > len(names):
        ctx.ensure("not-applicable:fewer-default-names-than-fields", True)
        return
    groups = {}
    for store in _forms(cnt):
        dflt = (given[:cnt] if cnt > 1 else given[0]) if default == "given" else None
        got_n, got_s = obj.get_store_config(store, default=dflt, fld_cnt=cnt)
        want_n, want_s = spec_store(store, given[:cnt] if default == "given" else names[:cnt], cnt)
        key = "scalar-or-tuple" if not isinstance(store, list) else "list-of-%d" % len(store)
        groups.setdefault(key, []).append(list(got_n) == want_n and list(got_s) == want_s)
    for key, oks in sorted(groups.items()):
        ctx.ensure("list:name,save[store=%s]" % key, all(oks))
    ctx.ensure("class-defaults-not-modified", list(obj_cls.default_field_names) == names)


STORE2 = [True, [True], ["m"], "m", (True,), [True, False], []]


@contract(P, "Krige.__call__;Krige.__call__(only_mean)/earlier-stored-fields-kept",
          params=[{"variant": v, "store2": i} for v in ("simple", "ordinary") for i in range(len(STORE2))],
          functions=["krige/base.py:Krige.__call__", "field/base.py:Field.post_field"] + FN,
          bounded="2 conditioning points, 2 targets, 1-D", nsamples=2, max_paths=2)
@kc.guarded
def krige_store_history(ctx, variant, store2):
    """history: the kriged field and variance are stored, then the kriged mean is stored (default
    name 'mean_field' or a new name): the earlier results are still there, same objects, same values"""
    kc.reset()
    S = kc.build(ctx, variant, 2, 1)
    tp, pts, te = kc.targets(ctx, S, 2)
    f1, v1 = quiet(S.krige, tp)
    snap_f, snap_v = list(np.array(f1, dtype=object)), list(np.array(v1, dtype=object))
    st_f, st_v = S.krige["field"], S.krige["krige_var"]
    store = STORE2[store2]
    mf = quiet(S.krige, only_mean=True, store=store)
    want_name = "m" if store in (["m"], "m") else "mean_field"
    ctx.ensure("mean-stored-under-documented-name", want_name in S.krige.field_names and
               ctx.eq(S.krige[want_name], mf))
    ctx.ensure("field-names", sorted(S.krige.field_names) == sorted(["field", "krige_var", want_name]))
    ctx.ensure("earlier-field-still-stored(same-object)", S.krige["field"] is st_f and S.krige["krige_var"] is st_v)
    ctx.ensure("earlier-field-values-unchanged", ctx.And(ctx.eq(S.krige["field"], arr(ctx, snap_f)),
                                                         ctx.eq(S.krige["krige_var"], arr(ctx, snap_v)),
                                                         ctx.eq(f1, arr(ctx, snap_f)), ctx.eq(v1, arr(ctx, snap_v))))


STORE_NEW = ["n", ["n"], ["n", "w"], [False, "w"]]


@contract(P, "Krige.__call__;Krige.__call__(new-names)/earlier-stored-fields-kept",
          params=[{"variant": "ordinary", "store2": i} for i in range(len(STORE_NEW))],
          functions=["krige/base.py:Krige.__call__", "field/base.py:Field.post_field"] + FN,
          bounded="2 conditioning points, 2 targets, 1-D", nsamples=2, max_paths=2)
@kc.guarded
def krige_store_new_names(ctx, variant, store2):
    """history: results stored with default names, then another call on the same positions (another
    conditioning value; new positions delete all stored fields by design) stores under new names"""
    kc.reset()
    S = kc.build(ctx, variant, 2, 1)
    tp, pts, te = kc.targets(ctx, S, 2)
    f1, v1 = quiet(S.krige, tp)
    snap_f, snap_v = list(np.array(f1, dtype=object)), list(np.array(v1, dtype=object))
    st_f, st_v = S.krige["field"], S.krige["krige_var"]
    store = STORE_NEW[store2]
    f2, v2 = quiet(S.krige, store=store, post_process=False)
    names, saves = spec_store(store, ["field", "krige_var"], 2)
    new = {"field", "krige_var"} | {n for n, s in zip(names, saves) if s}
    ctx.ensure("field-names", set(S.krige.field_names) == new)
    if saves[0]:
        ctx.ensure("new-field-under-new-name", ctx.eq(S.krige[names[0]], f2))
    if saves[1]:
        ctx.ensure("new-variance-under-new-name", ctx.eq(S.krige[names[1]], v2))
    over = {n for n, sv in zip(names, saves) if sv}         # names this call was asked to (over)write
    kept = [(n, o, sn) for n, o, sn in (("field", st_f, snap_f), ("krige_var", st_v, snap_v)) if n not in over]
    ctx.ensure("earlier-field-still-stored(same-object)", all(S.krige[n] is o for n, o, _ in kept))
    ctx.ensure("earlier-field-values-unchanged", ctx.And(ctx.eq(f1, arr(ctx, snap_f)), ctx.eq(v1, arr(ctx, snap_v)),
                                                         *[ctx.eq(S.krige[n], arr(ctx, sn)) for n, _, sn in kept]))


@contract(P, "Field.__call__;Field.__call__(new-name);transform(new-name)/earlier-stored-fields-kept",
          params={"store2": ["n", True, False], "tstore": ["t", True, False]},
          functions=["field/base.py:Field.__call__", "field/base.py:Field.post_field",
                     "transform/field.py:apply_function"] + FN, bounded="3 points, 1-D", nsamples=2)
def field_store_history(ctx, store2, tstore):
    """history on a plain Field (mean/trend pipeline only): store, store under another name, then a
    transformation of the FIRST field stored under a third name -- every older result survives unless
    the call is asked to overwrite exactly that name"""
    import gstools as gs
    from gstools.field.base import Field
    mu = ctx.real("mean", lo=-2, hi=2)
    fld = Field(gs.Gaussian(dim=1), mean=mu)
    pos = np.array([[0.0, 1.0, 2.0]])
    a = [ctx.real("a%d" % i, lo=-2, hi=2) for i in range(3)]
    b = [ctx.real("b%d" % i, lo=-2, hi=2) for i in range(3)]
    r1 = quiet(fld, pos, field=arr(ctx, a))
    want1 = [x + mu for x in a]
    ctx.ensure("first-result", ctx.And(ctx.eq(r1, arr(ctx, want1)), fld["field"] is r1))
    r2 = quiet(fld, field=arr(ctx, b), store=store2)
    want2 = [x + mu for x in b]
    if store2 == "n":
        ctx.ensure("second-under-new-name;first-kept",
                   ctx.And(fld["n"] is r2, fld["field"] is r1, ctx.eq(fld["field"], arr(ctx, want1)),
                           sorted(fld.field_names) == ["field", "n"]))
        cur = want1
    elif store2 is True:
        ctx.ensure("second-replaces-default-name-only", ctx.And(fld["field"] is r2, fld.field_names == ["field"],
                                                                ctx.eq(r1, arr(ctx, want1))))
        cur = want2
    else:
        ctx.ensure("not-stored;first-kept", ctx.And(fld["field"] is r1, fld.field_names == ["field"],
                                                    ctx.eq(fld["field"], arr(ctx, want1)), ctx.eq(r2, arr(ctx, want2))))
        cur = want1
    before = list(fld.field_names)
    old = fld["field"]
    r3 = quiet(fld.transform, "function", function=lambda f: f * 2, field="field", store=tstore, process=False)
    want3 = [2 * x for x in cur]
    ctx.ensure("transform-result", ctx.eq(r3, arr(ctx, want3)))
    if tstore == "t":
        ctx.ensure("transform-under-new-name;source-kept",
                   ctx.And(fld["t"] is r3, fld["field"] is old, ctx.eq(fld["field"], arr(ctx, cur)),
                           sorted(fld.field_names) == sorted(before + ["t"])))
    elif tstore is True:
        ctx.ensure("transform-replaces-source-name-only",
                   ctx.And(fld["field"] is r3, sorted(fld.field_names) == sorted(before), ctx.eq(old, arr(ctx, cur))))
    else:
        ctx.ensure("transform-not-stored;source-kept",
                   ctx.And(fld["field"] is old, ctx.eq(old, arr(ctx, cur)), sorted(fld.field_names) == sorted(before)))
    if store2 == "n":
        ctx.ensure("second-still-kept", ctx.And(fld["n"] is r2, ctx.eq(fld["n"], arr(ctx, want2))))
