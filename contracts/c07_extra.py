"""C07 additions after the second round of seeded changes: settings that a refresh must KEEP.

`set_condition()` without arguments is the documented refresh; arguments that are not passed keep
their current value (cond_err, ext_drift, conditioning positions/values).  A refresh that silently
resets an explicitly given measurement error to the model nugget changes the kriging system: the
next field differs from the one of a freshly built object with the user's settings."""
from gsvc.contract import contract
from gsvc import symrun
from contracts.c07 import P, VQ, FN_COH, _params, _q, start, finish, arr


@contract(P, "Krige.set_condition[refresh]/keeps-explicit-cond_err",
          params=[dict(q, how=h) for q in _params(VQ, [{"nug": "pos"}]) for h in ("refresh", "new-values", "model-assign")],
          functions=FN_COH, nsamples=2, search=20)
def refresh_keeps_cond_err(ctx, variant, dim, nug, pre, next, how):
    e = ctx.real("err0", lo=0.01, hi=0.04)
    ctx.require(ctx.ge(e, 0))
    S, cs = start(ctx, variant, dim, pre, nug=nug, cond_err=e)
    S2 = dict(S)
    if how == "refresh":
        _q(cs.krige.set_condition)
    elif how == "new-values":
        vals = [ctx.real("nv%d" % i, lo=-2.0, hi=2.0) for i in range(len(S["cval"]))] if "cval" in S else None
        if vals is None:
            _q(cs.krige.set_condition)
        else:
            S2["cval"] = vals
            _q(cs.krige.set_condition, cond_val=arr(ctx, vals))
    else:
        cs.krige.model = cs.krige.model        # re-assignment triggers the implicit refresh
    ctx.ensure("cond_err-kept", ctx.eq(cs.krige.cond_err, e))
    s2 = ctx.integer("seed2", lo=1001, hi=2000)
    ctx.require(ctx.ne(s2, S["seed"]))
    finish(ctx, cs, dict(S2, seed=s2), next, seed=s2)


# --- data honouring through the whole pipeline: mean, trend and a (nonlinear) normalizer -----------------
from contracts import c07 as _c07       # noqa: E402
from contracts.c07 import settings, mk, call, assume_inverse, generic_normalizer, FN_CALL, FN_SET, uf, wrap  # noqa: E402


@contract(P, "CondSRF.__call__/honours-conditioning-values[mean+trend+normalizer]",
          params=[{"variant": v, "n": n} for v in ("simple", "ordinary") for n in (1, 2)],
          functions=FN_CALL + FN_SET + ["krige/base.py:Krige._krige_cond", "normalizer/tools.py:apply_mean_norm_trend"],
          timeout=30, nsamples=3, search=40,
          bounded="n<=2 conditioning points, dim 1, under the assumed inverse contract inv(A).A = I (T5)")
def honours_pipeline(ctx, variant, n):
    """the documented pipeline  field = trend + denormalize(mean + raw)  and its inverse on the
    conditions  cond = normalize(value - trend) - mean  must compose to the identity at the data:
    with a nonlinear normalizer, a mean and a trend the conditioned field still equals the
    conditioning values at the conditioning locations (nugget 0), for every seed"""
    S = settings(ctx, 1, variant, nug="zero", n=n)
    a, b = ctx.real("tr_a", lo=-1.0, hi=1.0), ctx.real("tr_b", lo=-1.0, hi=1.0)
    S["trend"] = lambda *x, _a=a, _b=b: _a + _b * x[0]
    S["normalizer"] = generic_normalizer(ctx)()
    if variant == "ordinary":        # ordinary system with a user mean (what `krige.mean = x` produces)
        S["variant"] = "base-mean"
        S["mean"] = ctx.real("mean", lo=-1.0, hi=1.0)
    cs = mk(ctx, S)
    k = cs.krige
    xf = ctx.real("xfree", lo=2.0, hi=3.0)
    pos = [list(S["cpos"][0]) + [xf]]
    if ctx.mode == "sym":
        k._c07_mat = _c07.LAST_INV_ARG[0]
    H = assume_inverse(ctx, k)
    if ctx.mode == "sym":
        S["req"].append(ctx.hint(ctx.eq(uf("ucor", wrap(0)), 1), "generic model: normalised correlation cor(0) = 1"))
    for i in range(n):              # normalizer contract (round trip) at the detrended conditioning values
        z = S["cval"][i] - (a + b * S["cpos"][0][i])
        S["req"].append(ctx.hint(ctx.eq(ctx.m.fn("c07_udn", ctx.m.fn("c07_un", z)), z),
                                 "normalizer contract: denormalize(normalize(z)) = z"))
    out = call(ctx, cs, S, pos)
    for i in range(n):
        by = None if ctx.mode == "conc" else [H] + S["req"]
        ok = ctx.eq(out[i], S["cval"][i]) if ctx.mode == "sym" else abs(out[i] - S["cval"][i]) <= 1e-6
        ctx.ensure("field=conditioning-value[%d]" % i, ok, using=by)


# --- invalidation primitive: delete_fields really deletes -------------------------------------------------------
@contract(P, "Field.delete_fields/removes-every-selected-stored-field",
          params=[{"n": n, "select": s} for n in (1, 2, 3, 4) for s in ("all", "live-list", "subset", "name", "slice", "index")
                  if not (n == 1 and s == "subset")],
          functions=["field/base.py:Field.delete_fields", "field/base.py:Field.__delitem__"],
          bounded="1-4 stored fields")
def delete_fields(ctx, n, select):
    """every mutator of the kriging setup invalidates cached results through `delete_fields()`; the stale-reuse
    clause relies on it deleting ALL stored fields (and exactly the selected ones when a selection is given)"""
    import numpy as np
    import gstools as gs
    from gstools.field.base import Field
    fld = Field(gs.Gaussian(dim=1))
    pos = np.array([[0.0, 1.0]])
    names = ["field", "krige_var", "raw", "extra"][:n]
    vals = {}
    for i, nm in enumerate(names):
        v = [ctx.real("%s%d" % (nm[0], j), lo=-2, hi=2) for j in range(2)]
        vals[nm] = _q(fld, pos if i == 0 else None, field=arr(ctx, v), store=nm)
    ctx.ensure("stored", list(fld.field_names) == names)
    if select == "all":
        gone = list(names)
        fld.delete_fields()
    elif select == "live-list":         # the object's own name list, as delete_fields() passes it
        gone = list(names)
        del fld[fld.field_names]
    elif select == "subset":
        gone = names[::2]
        fld.delete_fields(list(gone))
    elif select == "name":
        gone = [names[-1]]
        fld.delete_fields(names[-1])
    elif select == "slice":
        gone = names[1:]
        del fld[1:]
    else:
        gone = [names[0]]
        del fld[0]
    keep = [nm for nm in names if nm not in gone]
    ctx.ensure("field_names=remaining", list(fld.field_names) == keep)
    ctx.ensure("deleted-attributes-gone", not any(hasattr(fld, nm) for nm in gone))
    ctx.ensure("remaining-fields-untouched", all(fld[nm] is vals[nm] for nm in keep))


# --- the caller edits ITS position array in place between two calls ------------------------------------------------
@contract(P, "CondSRF.__call__/caller-edits-its-position-array-in-place",
          params=[{"cls": c, "mesh": me, "dim": d} for c in ("CondSRF", "Krige", "SRF") for me in ("unstructured", "structured")
                  for d in (1, 2)],
          functions=["field/base.py:Field.pos", "field/base.py:Field.set_pos", "field/base.py:_pos_equal",
                     "field/cond_srf.py:CondSRF.__call__"],
          bounded="native run (the aliasing of a float64 array cannot be seen on symbolic object arrays): 3 points per axis, "
                  "fixed data, shift of all coordinates by 0.75")
def caller_edits_positions(ctx, cls, mesh, dim):
    """history: obj(pos); pos += 0.75 (in place, the caller's own array); obj(pos): the object must not have kept a
    view of the caller's array -- otherwise the 'positions unchanged?' test compares the array with itself and stale
    kriging results are reused.  Expected: the results of a fresh object at the new positions."""
    import numpy as np
    import gstools as gs
    with symrun.native():
        m = gs.Gaussian(dim=dim, len_scale=2.0, var=1.3)
        cpos = [[0.0, 1.0, 3.0], [0.5, 2.0, 1.0]][:dim]
        cval = [1.0, 2.0, 0.5]

        def mk():
            if cls == "SRF":
                return gs.SRF(m, seed=3, mode_no=8)
            k = gs.krige.Ordinary(m, cpos, cval)
            return k if cls == "Krige" else gs.CondSRF(k, seed=3, mode_no=8)

        def run(o, p):
            r = o(p, mesh_type=mesh)
            return np.array(r[0] if isinstance(r, tuple) else r, dtype=float)

        def positions():
            if mesh == "unstructured":
                return np.array([[0.5, 1.5, 2.5], [0.25, 0.75, 1.25]][:dim], dtype=float)
            return tuple(np.array(a, dtype=float) for a in ([0.5, 1.5, 2.5], [0.25, 0.75][:2])[:dim])

        obj = mk()
        pos = positions()
        first = run(obj, pos)
        before = first.copy()
        if mesh == "unstructured":
            pos += 0.75
        else:
            for a in pos:
                a += 0.75
        second = run(obj, pos)
        fresh = run(mk(), positions() if False else (pos.copy() if mesh == "unstructured" else tuple(a.copy() for a in pos)))
        ok_second = second.shape == fresh.shape and bool(np.allclose(second, fresh, rtol=1e-10, atol=1e-12))
        ok_first = bool(np.array_equal(first, before))
    ctx.ensure("second-call=fresh-object-at-the-edited-positions", ok_second)
    ctx.ensure("first-result-not-altered", ok_first)


@contract(P, "CondSRF.__call__[custom-store-names]/no-stale-raw-kriging-field-under-an-old-name",
          params={"variant": ["simple", "ordinary"], "change": ["values", "model-len_scale"]},
          functions=["field/cond_srf.py:CondSRF.__call__", "krige/base.py:Krige.set_condition"],
          bounded="native run: 3 conditioning points, 4 targets, three generations with the raw kriging field stored under "
                  "two different names")
def custom_store_names(ctx, variant, change):
    """history: cs(pos, store=[.., .., 'rk1']); <change of the kriging setup>; cs(store=[.., .., 'rk2']);
    cs(store=[.., .., 'rk1']): the third call must not reuse the raw kriging field stored under 'rk1' BEFORE the
    change (the second call re-created the kriging variance, but not that field)"""
    import numpy as np
    import gstools as gs
    with symrun.native():
        def mk(vals, ls):
            m = gs.Gaussian(dim=1, len_scale=ls, var=1.3)
            cpos = [[0.0, 1.0, 3.0]]
            k = gs.krige.Simple(m, cpos, vals, mean=0.4) if variant == "simple" else gs.krige.Ordinary(m, cpos, vals)
            return gs.CondSRF(k, seed=3, mode_no=8)
        pos = [[0.5, 1.5, 2.5, 3.5]]
        v1, v2 = [1.0, 2.0, 0.5], [0.2, -1.0, 1.5]
        cs = mk(v1, 2.0)
        cs(pos, store=[True, True, "rk1"])
        if change == "values":
            cs.krige.set_condition(cond_val=v2)
            want_obj = mk(v2, 2.0)
        else:
            cs.model.len_scale = 0.7
            cs.krige.set_condition()
            want_obj = mk(v1, 0.7)
        cs(store=[True, True, "rk2"], seed=4)
        got = np.array(cs(store=[True, True, "rk1"], seed=5), dtype=float)
        want = np.array(want_obj(pos, seed=5), dtype=float)
        ok = got.shape == want.shape and bool(np.allclose(got, want, rtol=1e-10, atol=1e-12))
        ok_raw = bool(np.allclose(cs["rk1"], want_obj["raw_krige"], rtol=1e-10, atol=1e-12))
    ctx.ensure("third-generation=fresh-object-with-the-current-setup", ok)
    ctx.ensure("stored-raw-kriging-field-is-the-current-one", ok_raw)


@contract(P, "CondSRF.__call__[ext_drift]/another-external-drift-at-the-same-positions-is-used",
          params={"second": ["other-drift", "same-drift", "same-values-new-array"], "nug": ["zero"]},
          functions=["field/cond_srf.py:CondSRF.__call__", "krige/base.py:Krige.__call__", "krige/base.py:Krige._pre_ext_drift"],
          bounded="native run: external-drift kriging, 3 conditioning points, 3 targets, two generations at the same positions")
def ext_drift_second_call(ctx, second, nug):
    """the external drift at the target points is an argument of every generation; a second generation at
    unchanged positions with ANOTHER drift must use it (equal a fresh object called with that drift)"""
    import numpy as np
    import gstools as gs
    with symrun.native():
        m = gs.Gaussian(dim=1, len_scale=2.0, var=1.3)
        cpos, cval, cext = [[0.0, 1.0, 3.0]], [1.0, 2.0, 0.5], [0.1, 0.5, -0.3]

        def mk():
            return gs.CondSRF(gs.krige.ExtDrift(m, cpos, cval, cext), seed=3, mode_no=8)
        pos = [[0.5, 1.5, 2.5]]
        d1 = np.array([1.0, 2.0, 3.0])
        d2 = {"other-drift": np.array([-1.0, 0.0, 4.0]), "same-drift": d1, "same-values-new-array": d1.copy()}[second]
        cs = mk()
        cs(pos, ext_drift=d1)
        got = np.array(cs(ext_drift=d2, seed=5), dtype=float)
        want = np.array(mk()(pos, ext_drift=d2, seed=5), dtype=float)
        ok = got.shape == want.shape and bool(np.allclose(got, want, rtol=1e-10, atol=1e-12))
    ctx.ensure("second-generation=fresh-object-with-the-drift-passed-now", ok)


@contract(P, "Krige.set_condition[refresh]/the-object-owns-its-conditions",
          params={"what": ["cond_pos", "cond_val", "ext_drift", "cond_err"], "refresh": ["set_condition()", "model-assign"]},
          functions=["krige/base.py:Krige.set_condition", "krige/base.py:Krige._pre_ext_drift", "krige/base.py:Krige.cond_err",
                     "krige/tools.py:set_condition"],
          bounded="native run: external-drift kriging with per-point measurement errors, 3 conditioning points; the caller "
                  "overwrites one of its float64 arrays after construction")
def krige_owns_conditions(ctx, what, refresh):
    """conditions, external drift at the conditions and measurement errors given at construction are settings of the
    object: after the caller reuses its own array buffers, the documented refresh must reproduce the same results
    (the object keeps copies, not views)"""
    import numpy as np
    import gstools as gs
    with symrun.native():
        m = gs.Gaussian(dim=1, len_scale=2.0, var=1.3, nugget=0.1)
        arrs = {"cond_pos": np.array([[0.0, 1.0, 3.0]]), "cond_val": np.array([1.0, 2.0, 0.5]),
                "ext_drift": np.array([0.1, 0.5, -0.3]), "cond_err": np.array([0.1, 0.2, 0.3])}
        k = gs.krige.ExtDrift(m, arrs["cond_pos"], arrs["cond_val"], arrs["ext_drift"], cond_err=arrs["cond_err"])
        pos, d = [[0.5, 1.5, 2.5]], [1.0, 2.0, 3.0]
        f1, v1 = k(pos, ext_drift=d)
        f1, v1 = np.array(f1), np.array(v1)
        arrs[what][...] = arrs[what] * 3.0 + 0.7            # the caller reuses its buffer
        if refresh == "set_condition()":
            k.set_condition()
        else:
            k.model = gs.Gaussian(dim=1, len_scale=2.0, var=1.3, nugget=0.1)
        f2, v2 = k(pos, ext_drift=d)
        ok = bool(np.allclose(f1, f2, rtol=1e-10, atol=1e-12) and np.allclose(v1, v2, rtol=1e-10, atol=1e-12))
    ctx.ensure("results-after-refresh=results-before", ok)
