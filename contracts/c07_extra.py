"""C07 additions after the second round of seeded changes: settings that a refresh must KEEP.

`set_condition()` without arguments is the documented refresh; arguments that are not passed keep
their current value (cond_err, ext_drift, conditioning positions/values).  A refresh that silently
resets an explicitly given measurement error to the model nugget changes the kriging system: the
next field differs from the one of a freshly built object with the user's settings."""
from gsvc.contract import contract
from contracts.c07 import P, VQ, FN_COH, _params, _q, start, finish, arr


@contract(P, "Krige.set_condition[refresh]/keeps-explicit-cond_err",
          params=[dict(q, how=h) for q in _params(VQ, [{"nug": "pos"}]) for h in ("refresh", "new-values", "model-assign")],
          functions=FN_COH, nsamples=2, search=20)
def refresh_keeps_cond_err(ctx, variant, dim, nug, pre, next, how):
    e = ctx.real("err0", lo=0.01, hi=0.04)
    ctx.require(ctx.ge(e, 0))
    S, cs = start(ctx, variant, dim, pre, nug=nug, cond_err=e)
    S2 = dict(S)
    if how == "refresh":
        _q(cs.krige.set_condition)
    elif how == "new-values":
        vals = [ctx.real("nv%d" % i, lo=-2.0, hi=2.0) for i in range(len(S["cval"]))] if "cval" in S else None
        if vals is None:
            _q(cs.krige.set_condition)
        else:
            S2["cval"] = vals
            _q(cs.krige.set_condition, cond_val=arr(ctx, vals))
    else:
        cs.krige.model = cs.krige.model        # re-assignment triggers the implicit refresh
    ctx.ensure("cond_err-kept", ctx.eq(cs.krige.cond_err, e))
    s2 = ctx.integer("seed2", lo=1001, hi=2000)
    ctx.require(ctx.ne(s2, S["seed"]))
    finish(ctx, cs, dict(S2, seed=s2), next, seed=s2)
