"""C07 additions after the second round of seeded changes: settings that a refresh must KEEP.

`set_condition()` without arguments is the documented refresh; arguments that are not passed keep
their current value (cond_err, ext_drift, conditioning positions/values).  A refresh that silently
resets an explicitly given measurement error to the model nugget changes the kriging system: the
next field differs from the one of a freshly built object with the user's settings."""
from gsvc.contract import contract
from contracts.c07 import P, VQ, FN_COH, _params, _q, start, finish, arr


@contract(P, "Krige.set_condition[refresh]/keeps-explicit-cond_err",
          params=[dict(q, how=h) for q in _params(VQ, [{"nug": "pos"}]) for h in ("refresh", "new-values", "model-assign")],
          functions=FN_COH, nsamples=2, search=20)
def refresh_keeps_cond_err(ctx, variant, dim, nug, pre, next, how):
    e = ctx.real("err0", lo=0.01, hi=0.04)
    ctx.require(ctx.ge(e, 0))
    S, cs = start(ctx, variant, dim, pre, nug=nug, cond_err=e)
    S2 = dict(S)
    if how == "refresh":
        _q(cs.krige.set_condition)
    elif how == "new-values":
        vals = [ctx.real("nv%d" % i, lo=-2.0, hi=2.0) for i in range(len(S["cval"]))] if "cval" in S else None
        if vals is None:
            _q(cs.krige.set_condition)
        else:
            S2["cval"] = vals
            _q(cs.krige.set_condition, cond_val=arr(ctx, vals))
    else:
        cs.krige.model = cs.krige.model        # re-assignment triggers the implicit refresh
    ctx.ensure("cond_err-kept", ctx.eq(cs.krige.cond_err, e))
    s2 = ctx.integer("seed2", lo=1001, hi=2000)
    ctx.require(ctx.ne(s2, S["seed"]))
    finish(ctx, cs, dict(S2, seed=s2), next, seed=s2)


# --- data honouring through the whole pipeline: mean, trend and a (nonlinear) normalizer -----------------
from contracts import c07 as _c07       # noqa: E402
from contracts.c07 import settings, mk, call, assume_inverse, generic_normalizer, FN_CALL, FN_SET, uf, wrap  # noqa: E402


@contract(P, "CondSRF.__call__/honours-conditioning-values[mean+trend+normalizer]",
          params=[{"variant": v, "n": n} for v in ("simple", "ordinary") for n in (1, 2)],
          functions=FN_CALL + FN_SET + ["krige/base.py:Krige._krige_cond", "normalizer/tools.py:apply_mean_norm_trend"],
          timeout=30, nsamples=3, search=40,
          bounded="n<=2 conditioning points, dim 1, under the assumed inverse contract inv(A).A = I (T5)")
def honours_pipeline(ctx, variant, n):
    """the documented pipeline  field = trend + denormalize(mean + raw)  and its inverse on the
    conditions  cond = normalize(value - trend) - mean  must compose to the identity at the data:
    with a nonlinear normalizer, a mean and a trend the conditioned field still equals the
    conditioning values at the conditioning locations (nugget 0), for every seed"""
    S = settings(ctx, 1, variant, nug="zero", n=n)
    a, b = ctx.real("tr_a", lo=-1.0, hi=1.0), ctx.real("tr_b", lo=-1.0, hi=1.0)
    S["trend"] = lambda *x, _a=a, _b=b: _a + _b * x[0]
    S["normalizer"] = generic_normalizer(ctx)()
    if variant == "ordinary":        # ordinary system with a user mean (what `krige.mean = x` produces)
        S["variant"] = "base-mean"
        S["mean"] = ctx.real("mean", lo=-1.0, hi=1.0)
    cs = mk(ctx, S)
    k = cs.krige
    xf = ctx.real("xfree", lo=2.0, hi=3.0)
    pos = [list(S["cpos"][0]) + [xf]]
    if ctx.mode == "sym":
        k._c07_mat = _c07.LAST_INV_ARG[0]
    H = assume_inverse(ctx, k)
    if ctx.mode == "sym":
        S["req"].append(ctx.hint(ctx.eq(uf("ucor", wrap(0)), 1), "generic model: normalised correlation cor(0) = 1"))
    for i in range(n):              # normalizer contract (round trip) at the detrended conditioning values
        z = S["cval"][i] - (a + b * S["cpos"][0][i])
        S["req"].append(ctx.hint(ctx.eq(ctx.m.fn("c07_udn", ctx.m.fn("c07_un", z)), z),
                                 "normalizer contract: denormalize(normalize(z)) = z"))
    out = call(ctx, cs, S, pos)
    for i in range(n):
        by = None if ctx.mode == "conc" else [H] + S["req"]
        ok = ctx.eq(out[i], S["cval"][i]) if ctx.mode == "sym" else abs(out[i] - S["cval"][i]) <= 1e-6
        ctx.ensure("field=conditioning-value[%d]" % i, ok, using=by)


# --- invalidation primitive: delete_fields really deletes -------------------------------------------------------
@contract(P, "Field.delete_fields/removes-every-selected-stored-field",
          params=[{"n": n, "select": s} for n in (1, 2, 3, 4) for s in ("all", "live-list", "subset", "name", "slice", "index")
                  if not (n == 1 and s == "subset")],
          functions=["field/base.py:Field.delete_fields", "field/base.py:Field.__delitem__"],
          bounded="1-4 stored fields")
def delete_fields(ctx, n, select):
    """every mutator of the kriging setup invalidates cached results through `delete_fields()`; the stale-reuse
    clause relies on it deleting ALL stored fields (and exactly the selected ones when a selection is given)"""
    import numpy as np
    import gstools as gs
    from gstools.field.base import Field
    fld = Field(gs.Gaussian(dim=1))
    pos = np.array([[0.0, 1.0]])
    names = ["field", "krige_var", "raw", "extra"][:n]
    vals = {}
    for i, nm in enumerate(names):
        v = [ctx.real("%s%d" % (nm[0], j), lo=-2, hi=2) for j in range(2)]
        vals[nm] = _q(fld, pos if i == 0 else None, field=arr(ctx, v), store=nm)
    ctx.ensure("stored", list(fld.field_names) == names)
    if select == "all":
        gone = list(names)
        fld.delete_fields()
    elif select == "live-list":         # the object's own name list, as delete_fields() passes it
        gone = list(names)
        del fld[fld.field_names]
    elif select == "subset":
        gone = names[::2]
        fld.delete_fields(list(gone))
    elif select == "name":
        gone = [names[-1]]
        fld.delete_fields(names[-1])
    elif select == "slice":
        gone = names[1:]
        del fld[1:]
    else:
        gone = [names[0]]
        del fld[0]
    keep = [nm for nm in names if nm not in gone]
    ctx.ensure("field_names=remaining", list(fld.field_names) == keep)
    ctx.ensure("deleted-attributes-gone", not any(hasattr(fld, nm) for nm in gone))
    ctx.ensure("remaining-fields-untouched", all(fld[nm] is vals[nm] for nm in keep))
