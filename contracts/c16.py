r"""C16 -- vector fields from isotropic models are incompressible.

From the summate_incompr postcondition (C15) and IncomprRandMeth.__call__:
  u(x) = u_mean e_1 + u_mean sqrt(var/N) sum_j p(k_j) (z1_j cos k_j.x + z2_j sin k_j.x) (+ nugget)
  p(k) = e_1 - k k_1 / |k|^2
Obligations: the pointwise definition (real code vs. documented formula); k . p(k) = 0 per mode;
div u = 0 at every point by mechanical differentiation (T4 derivative table) of the REAL output
term with respect to the position coordinates; E_z u = u_mean e_1 (the output is affine in the
iid amplitudes z with constant part u_mean e_1); the constructor rejects dim not in {2, 3}.
"""
import warnings

import numpy as np
import z3

import gstools as gs
from gsvc.contract import contract
from gsvc import symrun
from contracts import gen_common as gc
from contracts.calculus import D
from contracts.c11 import sym_model, _q
from gstools.field.generator import IncomprRandMeth

P = "C16"
gc.install()

FN = ["field/generator.py:IncomprRandMeth.__init__", "field/generator.py:IncomprRandMeth.__call__",
      "field/generator.py:IncomprRandMeth._create_unit_vector", "field/generator.py:_summate_incompr",
      "field/generator.py:RandMeth.reset_seed"]


def _gen(ctx, dim, N):
    # the model may carry a nugget: with add_nugget=False the generator returns the pure Kraichnan sum
    mod = sym_model(ctx, dim, aniso=False, nugget=True)
    s = ctx.integer("seed", lo=1, hi=1000)
    ubar = ctx.real("u_mean")
    g = _q(IncomprRandMeth, mod, mean_velocity=ubar, mode_no=N, seed=s)
    return mod, ubar, g


@contract(P, "IncomprRandMeth.__call__/pointwise-definition-and-divergence-free",
          params=[{"dim": d, "N": n} for d in (2, 3) for n in (1, 2)], functions=FN, timeout=60,
          nsamples=2, search=20,
          bounded=None)
def incompr(ctx, dim, N):
    m = ctx.m
    mod, ubar, g = _gen(ctx, dim, N)
    x = ctx.reals("x", dim)
    pos = np.array([[c] for c in x], dtype=object)
    if ctx.mode == "conc":
        pos = pos.astype(float)
    k, z1, z2 = g._cov_sample, g._z_1, g._z_2
    # wave vectors of length zero have probability zero (radius sampler); precondition of the kernel
    k2 = [sum(k[d, j] * k[d, j] for d in range(dim)) for j in range(N)]
    nz = [ctx.require(ctx.gt(k2[j], 0)) for j in range(N)]
    out = g(pos, add_nugget=False)
    ctx.ensure("shape", ctx.shape_eq(out, (dim, 1)))
    amp = m.sqrt(mod.var / N)
    for d in range(dim):
        acc = 0
        for j in range(N):
            ph = sum(k[c, j] * x[c] for c in range(dim))
            p = (1 if d == 0 else 0) - k[d, j] * k[0, j] / k2[j]
            acc = acc + p * (z1[j] * m.cos(ph) + z2[j] * m.sin(ph))
        ctx.ensure("component[%d]" % d, ctx.eq(out[d, 0], ubar * (1 if d == 0 else 0) + ubar * amp * acc))
    for j in range(N):
        kp = sum(k[d, j] * ((1 if d == 0 else 0) - k[d, j] * k[0, j] / k2[j]) for d in range(dim))
        ctx.ensure("k.p(k)=0[mode%d]" % j, ctx.eq(kp, 0), using=[nz[j]])
    if ctx.mode == "sym":
        div = 0
        for d in range(dim):
            div = div + symrun.from_term(D(symrun.lift(out[d, 0]), x[d].t))
        ctx.ensure("divergence=0", ctx.eq(div, 0), using=nz)
        # mean over the iid standard-normal amplitudes: the output is affine in z with constant
        # part u_mean e_1 (all amplitudes set to zero)
        sub = [(symrun.lift(z), z3.RealVal(0)) for z in list(z1) + list(z2)]
        for d in range(dim):
            const = z3.substitute(symrun.lift(out[d, 0]), *sub)
            ctx.ensure("E_z[u_%d]=u_mean*delta" % d,
                       ctx.eq(symrun.SymReal(const), ubar * (1 if d == 0 else 0)))
            lin = 0
            for z in list(z1) + list(z2):
                coef = D(symrun.lift(out[d, 0]), symrun.lift(z))
                lin = lin + symrun.SymReal(coef) * z
            ctx.ensure("affine-in-amplitudes[%d]" % d,
                       ctx.eq(out[d, 0], symrun.SymReal(const) + lin), using=nz)
    else:
        # native: central finite differences of the real generator
        h = 1e-5
        div = 0.0
        for d in range(dim):
            e = np.zeros((dim, 1))
            e[d, 0] = h
            div += (g(pos + e, add_nugget=False)[d, 0] - g(pos - e, add_nugget=False)[d, 0]) / (2 * h)
        scale = abs(float(ubar)) * (1 + float(np.max(np.abs(k)))) + 1e-12
        ctx.ensure("divergence=0", abs(div) <= 1e-5 * scale * 10)


@contract(P, "SRF[VectorField].__call__/divergence-free-and-mean-along-x-for-every-isotropic-model",
          params=[{"dim": d, "rot": r} for d in (2, 3) for r in ("none", "angles")],
          functions=FN + ["field/srf.py:SRF.__call__", "field/base.py:Field.pre_pos", "covmodel/base.py:CovModel.isometrize"],
          timeout=90, nsamples=2, search=20)
def srf_incompr(ctx, dim, rot):
    """the statement is about generated FIELDS: positions reach the generator through
    Field.pre_pos / CovModel.isometrize.  A model with all anisotropy ratios 1 is isotropic whatever
    its rotation angles are (`is_isotropic`); the generated vector field must be divergence-free in
    the user's coordinates and its mean must be u_mean e_1 in the user's axes"""
    m = ctx.m
    U = gc.generic_model_class(ctx)
    v, l = ctx.real("var", pos=True), ctx.real("len", pos=True)
    ctx.require(ctx.And(ctx.gt(v, 0), ctx.gt(l, 0)))
    kw = {}
    if rot == "angles":
        kw["angles"] = ctx.reals("ang", dim * (dim - 1) // 2, angle=True)
    mod = _q(U, dim=dim, var=v, len_scale=l, **kw)
    ctx.ensure("model-is-isotropic", bool(mod.is_isotropic))
    s = ctx.integer("seed", lo=1, hi=1000)
    ubar = ctx.real("u_mean", lo=0.5, hi=2.0)
    N = 1
    srf = _q(gs.SRF, mod, generator="VectorField", mean_velocity=ubar, mode_no=N, seed=s)
    g = srf.generator
    k, z1, z2 = g._cov_sample, g._z_1, g._z_2
    k2 = [sum(k[d, j] * k[d, j] for d in range(dim)) for j in range(N)]
    nz = [ctx.require(ctx.gt(k2[j], 0)) for j in range(N)]
    x = ctx.reals("x", dim)

    def field_at(pt):
        pos = np.array([[c] for c in pt], dtype=object)
        if ctx.mode == "conc":
            pos = pos.astype(float)
        return _q(srf, pos, post_process=False, store=False)

    out = field_at(x)
    ctx.ensure("shape", ctx.shape_eq(out, (dim, 1)))
    if ctx.mode == "sym":
        div = 0
        for d in range(dim):
            div = div + symrun.from_term(D(symrun.lift(out[d, 0]), x[d].t))
        ctx.ensure("divergence=0", ctx.eq(div, 0), using=nz + list(ctx.path.pc))
        sub = [(symrun.lift(z), z3.RealVal(0)) for z in list(z1) + list(z2)]
        for d in range(dim):
            const = z3.substitute(symrun.lift(out[d, 0]), *sub)
            ctx.ensure("E_z[u_%d]=u_mean*delta" % d, ctx.eq(symrun.SymReal(const), ubar * (1 if d == 0 else 0)))
    else:
        h = 1e-5
        div = 0.0
        for d in range(dim):
            e = np.zeros(dim)
            e[d] = h
            div += (field_at(np.array(x, dtype=float) + e)[d, 0] - field_at(np.array(x, dtype=float) - e)[d, 0]) / (2 * h)
        scale = abs(float(ubar)) * (1 + float(np.max(np.abs(k)))) + 1e-12
        ctx.ensure("divergence=0", abs(div) <= 1e-5 * scale * 10)
        z1s, z2s = np.array(g._z_1, dtype=float), np.array(g._z_2, dtype=float)
        g._z_1, g._z_2 = np.zeros_like(z1s), np.zeros_like(z2s)
        try:
            c0 = field_at(x)
        finally:
            g._z_1, g._z_2 = z1s, z2s
        for d in range(dim):
            ctx.ensure("E_z[u_%d]=u_mean*delta" % d, abs(c0[d, 0] - float(ubar) * (1 if d == 0 else 0)) <= 1e-12)


@contract(P, "IncomprRandMeth.__init__/only-2d-3d", params={"dim": [1, 2, 3, 4]}, functions=FN)
def dims(ctx, dim):
    mod = _q(gs.Gaussian, dim=dim)
    try:
        _q(IncomprRandMeth, mod, mode_no=2, seed=1)
        ok = dim in (2, 3)
    except ValueError:
        ok = dim not in (2, 3)
    ctx.ensure("accepted-iff-dim-2-or-3", ok)


@contract(P, "IncomprRandMeth._create_unit_vector/e1", params={"dim": [2, 3]}, functions=FN)
def unit_vector(ctx, dim):
    mod = _q(gs.Gaussian, dim=dim)
    g = _q(IncomprRandMeth, mod, mode_no=2, seed=1)
    e1 = g._create_unit_vector((dim, 5))
    exp = np.zeros((dim, 1))
    exp[0] = 1.0
    ctx.ensure("e1", ctx.And(ctx.shape_eq(e1, (dim, 1)), ctx.eq(e1, exp)))
    v = g(np.zeros((dim, 3)), add_nugget=False)
    ctx.ensure("vector-shape", ctx.shape_eq(v, (dim, 3)))


# --- vector fields stored on meshes: one vector per node / cell, components in the requested axis order ------------
from contracts.c11 import field_on_mesh, MESH_PARAMS     # noqa: E402

contract(P, "SRF[VectorField].mesh[meshio]/stored-vectors=field-at-the-nodes-or-cell-centroids-in-the-requested-axis-order",
         params=[p for p in MESH_PARAMS if p["gen"] == "VectorField"],
         functions=["field/tools.py:generate_on_mesh", "field/tools.py:_get_select", "field/base.py:Field.mesh"],
         bounded="native run: 8 nodes, 3 cell blocks of unequal size, 2-D incompressible field on a 2-D or 3-D mesh "
                 "(divergence-freeness and mean of the generated field are the contracts above; here: the stored data ARE "
                 "that field)")(field_on_mesh)
