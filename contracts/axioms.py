"""T4 axiom library: textbook identities instantiated explicitly as hints (never quantified).
Each function returns nothing; it adds the ground instance to the context and logs its label."""


def cos_diff(ctx, a, b):
    m = ctx.m
    return ctx.hint(ctx.eq(m.cos(a - b), m.cos(a) * m.cos(b) + m.sin(a) * m.sin(b)), "cos(a-b)=cos a cos b+sin a sin b")


def sin_diff(ctx, a, b):
    m = ctx.m
    return ctx.hint(ctx.eq(m.sin(a - b), m.sin(a) * m.cos(b) - m.cos(a) * m.sin(b)), "sin(a-b)=sin a cos b-cos a sin b")


def cos_sum(ctx, a, b):
    m = ctx.m
    return ctx.hint(ctx.eq(m.cos(a + b), m.cos(a) * m.cos(b) - m.sin(a) * m.sin(b)), "cos(a+b)=cos a cos b-sin a sin b")


def sin_sum(ctx, a, b):
    m = ctx.m
    return ctx.hint(ctx.eq(m.sin(a + b), m.sin(a) * m.cos(b) + m.cos(a) * m.sin(b)), "sin(a+b)=sin a cos b+cos a sin b")


def half_angle(ctx, x):
    """sin^2(x/2) = (1 - cos x)/2 ; cos^2(x/2) = (1 + cos x)/2"""
    m = ctx.m
    return ctx.hint(ctx.eq(m.sin(x / 2) * m.sin(x / 2), (1 - m.cos(x)) / 2), "sin^2(x/2)=(1-cos x)/2")


def double_angle(ctx, x):
    m = ctx.m
    ctx.hint(ctx.eq(m.sin(2 * x), 2 * m.sin(x) * m.cos(x)), "sin 2x = 2 sin x cos x")
    return ctx.hint(ctx.eq(m.cos(2 * x), 1 - 2 * m.sin(x) * m.sin(x)), "cos 2x = 1 - 2 sin^2 x")


def period_shift(ctx, a, z):
    """cos/sin(a + 2 pi z) = cos/sin(a) for a concrete integer z"""
    m = ctx.m
    assert int(z) == z
    return ctx.hint(ctx.And(ctx.eq(m.cos(a + 2 * m.pi * z), m.cos(a)), ctx.eq(m.sin(a + 2 * m.pi * z), m.sin(a))),
             "cos/sin(a+2 pi z)=cos/sin a, z integer")


def exp_sum(ctx, a, b):
    m = ctx.m
    return ctx.hint(ctx.eq(m.exp(a + b), m.exp(a) * m.exp(b)), "exp(a+b)=exp a exp b")


def pow_def(ctx, x, a):
    """x**a = exp(a log x) for x > 0"""
    m = ctx.m
    return ctx.hint(ctx.Implies(ctx.gt(x, 0), ctx.eq(m.pow(x, a), m.exp(a * m.log(x)))), "x^a=exp(a log x), x>0")


def pow_mul(ctx, x, a, b):
    m = ctx.m
    return ctx.hint(ctx.Implies(ctx.gt(x, 0), ctx.eq(m.pow(x, a) * m.pow(x, b), m.pow(x, a + b))), "x^a x^b=x^(a+b), x>0")


def pow_pow(ctx, x, a, b):
    m = ctx.m
    return ctx.hint(ctx.Implies(ctx.gt(x, 0), ctx.eq(m.pow(m.pow(x, a), b), m.pow(x, a * b))), "(x^a)^b=x^(ab), x>0")


def pow_prod(ctx, x, y, a):
    m = ctx.m
    return ctx.hint(ctx.Implies(ctx.And(ctx.gt(x, 0), ctx.gt(y, 0)),
                         ctx.eq(m.pow(x * y, a), m.pow(x, a) * m.pow(y, a))), "(xy)^a=x^a y^a, x,y>0")


def log_prod(ctx, x, y):
    m = ctx.m
    return ctx.hint(ctx.Implies(ctx.And(ctx.gt(x, 0), ctx.gt(y, 0)), ctx.eq(m.log(x * y), m.log(x) + m.log(y))),
             "log(xy)=log x+log y, x,y>0")


def log_pow(ctx, x, a):
    m = ctx.m
    return ctx.hint(ctx.Implies(ctx.gt(x, 0), ctx.eq(m.log(m.pow(x, a)), a * m.log(x))), "log(x^a)=a log x, x>0")


def sqrt_sq(ctx, x):
    m = ctx.m
    return ctx.hint(ctx.eq(m.sqrt(x * x), m.abs(x)), "sqrt(x^2)=|x|")


# --- appended for C18/C19 ------------------------------------------------------------------
def pow_root(ctx, x, a):
    """(x^a)^(1/a) = x for x > 0, a != 0"""
    if ctx.mode == "conc":
        return True
    m = ctx.m
    return ctx.hint(ctx.Implies(ctx.And(ctx.gt(x, 0), ctx.ne(a, 0)), ctx.eq(m.pow(m.pow(x, a), 1 / a), x)),
                    "(x^a)^(1/a)=x, x>0, a!=0")


def pow_unroot(ctx, x, a):
    """(x^(1/a))^a = x for x > 0, a != 0"""
    if ctx.mode == "conc":
        return True
    m = ctx.m
    return ctx.hint(ctx.Implies(ctx.And(ctx.gt(x, 0), ctx.ne(a, 0)), ctx.eq(m.pow(m.pow(x, 1 / a), a), x)),
                    "(x^(1/a))^a=x, x>0, a!=0")


def pow_vs_one(ctx, x, a):
    """position of x^a relative to 1 (x > 0): same side as x for a > 0, opposite side for a < 0"""
    if ctx.mode == "conc":
        return True
    m = ctx.m
    p = m.pow(x, a)
    return ctx.hint(ctx.And(
        ctx.Implies(ctx.And(ctx.gt(x, 1), ctx.gt(a, 0)), ctx.gt(p, 1)),
        ctx.Implies(ctx.And(ctx.gt(x, 1), ctx.lt(a, 0)), ctx.And(ctx.gt(p, 0), ctx.lt(p, 1))),
        ctx.Implies(ctx.And(ctx.gt(x, 0), ctx.lt(x, 1), ctx.gt(a, 0)), ctx.And(ctx.gt(p, 0), ctx.lt(p, 1))),
        ctx.Implies(ctx.And(ctx.gt(x, 0), ctx.lt(x, 1), ctx.lt(a, 0)), ctx.gt(p, 1)),
        ctx.Implies(ctx.eq(x, 1), ctx.eq(p, 1))), "x^a vs 1 by sign of a and side of x, x>0")


def exp_log(ctx, x):
    """exp(log x) = x for x > 0 ; log(exp x) = x"""
    if ctx.mode == "conc":
        return True
    m = ctx.m
    return ctx.hint(ctx.And(ctx.Implies(ctx.gt(x, 0), ctx.eq(m.exp(m.log(x)), x)), ctx.eq(m.log(m.exp(x)), x)),
                    "exp(log x)=x (x>0), log(exp x)=x")


def sqrt_prod(ctx, a, b):
    """sqrt(a b) = sqrt(a) sqrt(b) for a, b >= 0"""
    if ctx.mode == "conc":
        return True
    m = ctx.m
    return ctx.hint(ctx.Implies(ctx.And(ctx.ge(a, 0), ctx.ge(b, 0)), ctx.eq(m.sqrt(a * b), m.sqrt(a) * m.sqrt(b))),
                    "sqrt(ab)=sqrt a sqrt b, a,b>=0")


def pow_third_cubed(ctx, y):
    """(y^(1/3))^3 = y for y > 0"""
    if ctx.mode == "conc":
        return True
    from fractions import Fraction
    m = ctx.m
    p = m.pow(y, Fraction(1, 3))
    return ctx.hint(ctx.Implies(ctx.gt(y, 0), ctx.And(ctx.eq(p * p * p, y), ctx.gt(p, 0))), "(y^(1/3))^3=y, y>0")
