"""Native witness-call templates for the `frames` engine (C20).

One probe = {id, entry, opts, setup, call} (see gsvc/frames_probe.py).  `entry` is the key of a
public entry point in contracts/frames.py:PUBLIC.  Every array bound to a public name by
`setup` is tracked; the variable names ARE the argument roles (parameter names of the entry
point); `stored_*` / `returned_*` are arrays stored in an object / returned by an earlier
call.  All arrays are built with A(...) = float64, C-contiguous, already of the shape the
entry point converts to (the aliasing layout), masked arrays where the entry point accepts
them.  Option combinations that enable in-place arithmetic are enumerated per entry:
latlon + geo_scale != 1, mean / trend / normalizer set, process=True, masked input, stacked
fields, post_process on/off, store under a new name, reuse of stored kriging fields.

The table is data: it is executed by a separate interpreter on the tree under test.
"""

PROBES = []
_seen = {}


def P(entry, opts, setup, call, tier="quick"):
    base = entry.split(":")[1] + "[" + opts + "]"
    _seen[base] = _seen.get(base, 0) + 1
    pid = base if _seen[base] == 1 else "%s#%d" % (base, _seen[base])
    PROBES.append({"id": pid, "entry": entry, "opts": opts, "setup": setup.strip() + "\n",
                   "call": call.strip() + "\n", "tier": tier})


# =============================================================================================
# variogram
V = "variogram/variogram.py:"
_POS2 = "pos = A(rng.uniform(0, 10, (2, 14)))\nfield = A(rng.normal(size=14))\n"
_LL = "pos = A(np.stack([rng.uniform(-60, 60, 14), rng.uniform(-120, 120, 14)]))\nfield = A(rng.normal(size=14))\n"
P(V + "vario_estimate", "plain,bin_edges", _POS2 + "bin_edges = A(np.linspace(0, 6, 7))",
  "gs.vario_estimate(pos, field, bin_edges)")
P(V + "vario_estimate", "latlon,geo_scale=KM", _LL + "bin_edges = A(np.linspace(0, 8000, 7))",
  "gs.vario_estimate(pos, field, bin_edges, latlon=True, geo_scale=gs.KM_SCALE)")
P(V + "vario_estimate", "latlon,geo_scale=DEGREE", _LL + "bin_edges = A(np.linspace(0, 90, 7))",
  "gs.vario_estimate(pos, field, bin_edges, latlon=True, geo_scale=gs.DEGREE_SCALE)")
P(V + "vario_estimate", "latlon,geo_scale=1", _LL + "bin_edges = A(np.linspace(0, 1.5, 7))",
  "gs.vario_estimate(pos, field, bin_edges, latlon=True)")
P(V + "vario_estimate", "mean+trend+normalizer", _POS2 + "field = A(np.exp(field))\nbin_edges = A(np.linspace(0, 6, 7))",
  "gs.vario_estimate(pos, field, bin_edges, mean=0.3, trend=lambda x, y: 0.1 * x, normalizer=gs.normalizer.LogNormal)")
P(V + "vario_estimate", "fit_normalizer", _POS2 + "field = A(np.exp(field))\nbin_edges = A(np.linspace(0, 6, 7))",
  "gs.vario_estimate(pos, field, bin_edges, normalizer=gs.normalizer.BoxCox, fit_normalizer=True)")
P(V + "vario_estimate", "stacked fields", _POS2 + "field = A(rng.normal(size=(3, 14)))\nbin_edges = A(np.linspace(0, 6, 7))",
  "gs.vario_estimate(pos, field, bin_edges, mean=1.0)")
P(V + "vario_estimate", "masked field + mask", _POS2 + "field = np.ma.array(field, mask=rng.uniform(size=14) < 0.2)\nmask = rng.uniform(size=14) < 0.2\nbin_edges = A(np.linspace(0, 6, 7))",
  "gs.vario_estimate(pos, field, bin_edges, mask=mask, mean=0.5)")
P(V + "vario_estimate", "nan field, no_data", _POS2 + "field[3] = -999.0\nbin_edges = A(np.linspace(0, 6, 7))",
  "gs.vario_estimate(pos, field, bin_edges, no_data=-999.0, mean=0.5)")
P(V + "vario_estimate", "direction+angles_tol", _POS2 + "direction = A([[1.0, 0.0], [0.0, 2.0]])\nbin_edges = A(np.linspace(0, 6, 7))",
  "gs.vario_estimate(pos, field, bin_edges, direction=direction, bandwidth=2.0, return_counts=True)")
P(V + "vario_estimate", "angles", _POS2 + "angles = A([0.3])\nbin_edges = A(np.linspace(0, 6, 7))",
  "gs.vario_estimate(pos, field, bin_edges, angles=angles)")
P(V + "vario_estimate", "structured", "pos = (A(np.arange(5.0)), A(np.arange(4.0)))\nfield = A(rng.normal(size=(5, 4)))\nbin_edges = A(np.linspace(0, 4, 5))",
  "gs.vario_estimate(pos, field, bin_edges, mesh_type='structured', trend=1.5)")
P(V + "vario_estimate", "sampling", _POS2 + "bin_edges = A(np.linspace(0, 6, 7))",
  "gs.vario_estimate(pos, field, bin_edges, sampling_size=8, sampling_seed=3, mean=2.0)")
P(V + "vario_estimate", "1d pos", "pos = A(rng.uniform(0, 10, 14))\nfield = A(rng.normal(size=14))\nbin_edges = A(np.linspace(0, 6, 7))",
  "gs.vario_estimate(pos, field, bin_edges, trend=0.5)")
P(V + "vario_estimate", "standard bins latlon", _LL, "gs.vario_estimate(pos, field, latlon=True, geo_scale=gs.KM_SCALE, mean=1.0)")
P(V + "vario_estimate_axis", "plain", "field = A(rng.normal(size=(6, 5)))", "gs.vario_estimate_axis(field, 'x')")
P(V + "vario_estimate_axis", "nan in ndarray", "field = A(rng.normal(size=(6, 5)))\nfield[1, 2] = np.nan", "gs.vario_estimate_axis(field, 'y')")
P(V + "vario_estimate_axis", "masked, no nan", "field = np.ma.array(A(rng.normal(size=(6, 5))), mask=rng.uniform(size=(6, 5)) < 0.2)", "gs.vario_estimate_axis(field, 0)")
P(V + "vario_estimate_axis", "masked + nan", "field = np.ma.array(A(rng.normal(size=(6, 5))), mask=rng.uniform(size=(6, 5)) < 0.2)\nfield[0, 0] = np.nan\nfield.mask[0, 0] = False", "gs.vario_estimate_axis(field, 0)")
P(V + "vario_estimate_axis", "masked + no_data", "field = np.ma.array(A(rng.normal(size=(6, 5))), mask=rng.uniform(size=(6, 5)) < 0.2)\nfield[0, 0] = -9.0\nfield.mask[0, 0] = False", "gs.vario_estimate_axis(field, 0, no_data=-9.0)")
P(V + "vario_estimate_axis", "1d cressie", "field = A(rng.normal(size=9))", "gs.vario_estimate_axis(field, estimator='cressie')")
B = "variogram/binning.py:"
P(B + "standard_bins", "unstructured", "pos = A(rng.uniform(0, 10, (2, 14)))", "gs.variogram.standard_bins(pos, dim=2)")
P(B + "standard_bins", "latlon,geo_scale", "pos = A(np.stack([rng.uniform(-60, 60, 14), rng.uniform(-120, 120, 14)]))", "gs.variogram.standard_bins(pos, latlon=True, geo_scale=gs.KM_SCALE)")
P(B + "standard_bins", "structured", "pos = (A(np.arange(5.0)), A(np.arange(4.0)))", "gs.variogram.standard_bins(pos, dim=2, mesh_type='structured')")

# =============================================================================================
# normalizer tools + classes
NT = "normalizer/tools.py:"
for _name in ("apply_mean_norm_trend", "remove_trend_norm_mean"):
    _f = "gs.normalizer." + _name
    _fld = "field = A(np.exp(rng.normal(size=14)))\n"
    P(NT + _name, "mean", "pos = A(rng.uniform(0, 10, (2, 14)))\n" + _fld, _f + "(pos, field, mean=1.5)")
    P(NT + _name, "trend callable", "pos = A(rng.uniform(0, 10, (2, 14)))\n" + _fld, _f + "(pos, field, trend=lambda x, y: x)")
    P(NT + _name, "normalizer", "pos = A(rng.uniform(0, 10, (2, 14)))\n" + _fld, _f + "(pos, field, normalizer=gs.normalizer.LogNormal)")
    P(NT + _name, "all,check_shape=False", "pos = A(rng.uniform(0, 10, (2, 14)))\n" + _fld, _f + "(pos, field, mean=0.2, trend=0.1, normalizer=gs.normalizer.LogNormal(), check_shape=False)")
    P(NT + _name, "stacked", "pos = A(rng.uniform(0, 10, (2, 14)))\nfield = A(np.exp(rng.normal(size=(2, 14))))", _f + "(pos, field, mean=1.5, trend=0.5, stacked=True)")
    P(NT + _name, "stacked list", "pos = A(rng.uniform(0, 10, (2, 14)))\nfield = [A(np.exp(rng.normal(size=14))), A(np.exp(rng.normal(size=14)))]", _f + "(pos, field, mean=1.5, trend=0.5, stacked=True, check_shape=False)")
    P(NT + _name, "structured", "pos = (A(np.arange(5.0)), A(np.arange(4.0)))\nfield = A(np.exp(rng.normal(size=(5, 4))))", _f + "(pos, field, mean=1.5, mesh_type='structured')")
    P(NT + _name, "vector", "pos = A(rng.uniform(0, 10, (2, 14)))\nfield = A(rng.normal(size=(2, 14)))\nmean = A([1.0, 2.0])", _f + "(pos, field, mean=mean, value_type='vector')")
    P(NT + _name, "nothing set", "pos = A(rng.uniform(0, 10, (2, 14)))\n" + _fld, _f + "(pos, field)")
P(NT + "remove_trend_norm_mean", "fit_normalizer", "pos = A(rng.uniform(0, 10, (2, 14)))\nfield = A(np.exp(rng.normal(size=14)))", "gs.normalizer.remove_trend_norm_mean(pos, field, normalizer=gs.normalizer.BoxCox, fit_normalizer=True)")

NB = "normalizer/base.py:Normalizer."
for _cls in ("Normalizer", "LogNormal", "BoxCox", "BoxCoxShift", "YeoJohnson", "Modulus", "Manly"):
    _mk = "_n = gs.normalizer.%s()\n" % _cls if _cls != "Normalizer" else "from gstools.normalizer import Normalizer as _N\n_n = _N()\n"
    if _cls in ("BoxCox", "YeoJohnson", "Modulus", "Manly", "BoxCoxShift"):
        _mk += "_n.lmbda = 0.5\n"
    _d = "data = A(np.exp(rng.normal(size=(3, 5))))\n"
    for _m in ("normalize", "denormalize", "derivative", "loglikelihood", "likelihood", "kernel_loglikelihood"):
        P(NB + _m, _cls, _mk + _d, "_n.%s(data)" % _m, tier="quick" if _m in ("normalize", "denormalize", "derivative") else "thorough")
    P(NB + _m, _cls + ",nan", _mk + _d + "data[0, 0] = np.nan", "_n.normalize(data); _n.denormalize(data)")
    if _cls not in ("Normalizer", "LogNormal"):
        P(NB + "fit", _cls, _mk + _d, "_n.fit(data)")
P(NB + "__init__", "data given", "data = A(np.exp(rng.normal(size=20)))", "gs.normalizer.BoxCox(data)")
P(NB + "normalize", "out of range", "data = A(rng.normal(size=20))", "gs.normalizer.LogNormal().normalize(data)")

# =============================================================================================
# transform.array
TA = "transform/array.py:"
_F = "field = A(rng.normal(size=(4, 5)))\n"
P(TA + "array_discrete", "arithmetic", _F + "values = A([3.0, 1.0, 2.0])", "gs.transform.array_discrete(field, values)")
P(TA + "array_discrete", "equal", _F + "values = A([1.0, 2.0, 3.0])", "gs.transform.array_discrete(field, values, thresholds='equal')")
P(TA + "array_discrete", "thresholds", _F + "values = A([1.0, 2.0, 3.0])\nthresholds = A([-0.5, 0.5])", "gs.transform.array_discrete(field, values, thresholds)")
P(TA + "array_boxcox", "lmbda", _F, "gs.transform.array_boxcox(field, lmbda=0.5, shift=3)")
P(TA + "array_boxcox", "lmbda=0", _F, "gs.transform.array_boxcox(field, lmbda=0)")
P(TA + "array_zinnharvey", "high", _F, "gs.transform.array_zinnharvey(field)")
P(TA + "array_zinnharvey", "low,mean,var", _F, "gs.transform.array_zinnharvey(field, 'low', 0.1, 1.2)")
P(TA + "array_force_moments", "", _F, "gs.transform.array_force_moments(field, 1.0, 2.0)")
P(TA + "array_to_lognormal", "", _F, "gs.transform.array_to_lognormal(field)")
P(TA + "array_to_uniform", "", _F, "gs.transform.array_to_uniform(field, low=1.0, high=3.0)")
P(TA + "array_to_arcsin", "", _F, "gs.transform.array_to_arcsin(field, a=0.0, b=2.0)")
P(TA + "array_to_uquad", "", _F, "gs.transform.array_to_uquad(field)")

# =============================================================================================
# transform.field: every transformation x process x store
TF = "transform/field.py:"
_SRF = ("_m = gs.Gaussian(dim=2, var=1.5, len_scale=2.0)\n"
        "_srf = gs.SRF(_m, mean=0.7, seed=3, mode_no=20)\n"
        "pos = A(rng.uniform(0, 10, (2, 14)))\n"
        "returned_field = _srf(pos)\n"
        "stored_field = _srf['field']\n")
_SRFN = ("_m = gs.Gaussian(dim=2, var=1.5, len_scale=2.0)\n"
         "_srf = gs.SRF(_m, mean=0.7, trend=lambda x, y: 0.1 * x, normalizer=gs.normalizer.LogNormal, seed=3, mode_no=20)\n"
         "pos = A(rng.uniform(0, 10, (2, 14)))\n"
         "returned_field = _srf(pos)\n"
         "stored_field = _srf['field']\n")
_TR = {
    "binary": "gs.transform.binary(_srf%s)",
    "discrete": "gs.transform.discrete(_srf, values%s)",
    "boxcox": "gs.transform.boxcox(_srf, lmbda=1%s)",
    "zinnharvey": "gs.transform.zinnharvey(_srf%s)",
    "normal_force_moments": "gs.transform.normal_force_moments(_srf%s)",
    "normal_to_lognormal": "gs.transform.normal_to_lognormal(_srf%s)",
    "normal_to_uniform": "gs.transform.normal_to_uniform(_srf%s)",
    "normal_to_arcsin": "gs.transform.normal_to_arcsin(_srf%s)",
    "normal_to_uquad": "gs.transform.normal_to_uquad(_srf%s)",
    "apply_function": "gs.transform.apply_function(_srf, np.square%s)",
}
for _t, _c in _TR.items():
    _v = "values = A([1.0, 2.0, 3.0])\n" if _t == "discrete" else ""
    P(TF + _t, "process=False,store=True", _SRF + _v, _c % "")
    P(TF + _t, "process=False,store=new", _SRF + _v, _c % ", store='new'")
    P(TF + _t, "process=True,store=new", _SRFN + _v, _c % ", store='new', process=True")
    P(TF + _t, "process=True,keep_mean=False,store=False", _SRFN + _v, _c % ", store=False, process=True, keep_mean=False")
    P(TF + _t, "process=True,store=True,plain srf", _SRF + _v, _c % ", process=True")
for _t in ("binary", "zinnharvey", "normal_to_lognormal", "normal_force_moments", "function"):
    _kw = ", function=np.square" if _t == "function" else ""
    P(TF + "apply", _t + ",process=False", _SRF, "gs.transform.apply(_srf, '%s'%s, store='t')" % (_t, _kw))
    P(TF + "apply", _t + ",process=True", _SRFN, "gs.transform.apply(_srf, '%s'%s, store='t', process=True)" % (_t, _kw))
    P("field/base.py:Field.transform", _t + ",process=True", _SRFN, "_srf.transform('%s'%s, store='t', process=True)" % (_t, _kw))
    P("field/base.py:Field.transform", _t + ",process=False", _SRF, "_srf.transform('%s'%s, store='t')" % (_t, _kw))
P(TF + "apply_function", "chain of stores", _SRF + "returned_a = _srf.transform('normal_to_lognormal', store='a')\nreturned_b = _srf.transform('binary', store='b')",
  "_srf.transform('zinnharvey', field='field', store='c'); _srf.transform('function', function=np.exp, field='a', store='d')")
P(TF + "apply_function", "discrete with array arguments", _SRF + "values = A([1.0, 2.0, 3.0])\nthresholds = A([-0.5, 0.5])",
  "gs.transform.discrete(_srf, values, thresholds, store='d', process=True)")

# =============================================================================================
# Field / SRF / CondSRF
FB = "field/base.py:Field."
_FLD = "_fld = gs.field.Field(dim=2, mean=%s, normalizer=%s, trend=%s)\n"
_UNS = "pos = A(rng.uniform(0, 10, (2, 14)))\nfield = A(np.exp(rng.normal(size=14)))\n"
_STR = "pos = (A(np.arange(5.0)), A(np.arange(4.0)))\nfield = A(np.exp(rng.normal(size=(5, 4))))\n"
for _o, _args in (("mean", ("1.5", "None", "None")), ("trend callable", ("None", "None", "lambda x, y: x")),
                  ("normalizer", ("None", "gs.normalizer.LogNormal", "None")),
                  ("mean+normalizer+trend", ("0.2", "gs.normalizer.LogNormal", "0.3")),
                  ("nothing set", ("None", "None", "None"))):
    _mk = _FLD % _args
    P(FB + "__call__", _o + ",unstructured", _mk + _UNS, "_fld(pos, field)")
    P(FB + "__call__", _o + ",structured", _mk + _STR, "_fld(pos, field, mesh_type='structured')")
    P(FB + "__call__", _o + ",post_process=False", _mk + _UNS, "_fld(pos, field, post_process=False)")
    P(FB + "__call__", _o + ",store=False", _mk + _UNS, "_fld(pos, field, store=False)")
    P(FB + "unstructured", _o, _mk + _UNS, "_fld.unstructured(pos, field=field)")
    P(FB + "structured", _o, _mk + _STR, "_fld.structured(pos, field=field)")
    P(FB + "post_field", _o + ",process=True", _mk + _UNS + "_fld.set_pos(pos)", "_fld.post_field(field, 'f2')")
    P(FB + "post_field", _o + ",process=False", _mk + _UNS + "_fld.set_pos(pos)", "_fld.post_field(field, 'f2', process=False)")
P(FB + "__call__", "stored earlier, new name", _FLD % ("1.5", "None", "None") + _UNS + "returned_a = _fld(pos, field.copy(), store='a')\nstored_a = _fld['a']",
  "_fld(pos, field, store='b'); _fld(field=field.copy(), store='c', post_process=False)")
P(FB + "__call__", "post_process=False then call again", _FLD % ("1.5", "None", "None") + _UNS + "returned_a = _fld(pos, field, post_process=False)",
  "_fld(pos, A(np.ones(14)))")
P(FB + "__call__", "vector field", "_fld = gs.field.Field(dim=2, value_type='vector', mean=[1.0, 2.0])\npos = A(rng.uniform(0, 10, (2, 14)))\nfield = A(rng.normal(size=(2, 14)))", "_fld(pos, field)")
P(FB + "set_pos", "unstructured", _FLD % ("None", "None", "None") + "pos = A(rng.uniform(0, 10, (2, 14)))", "_fld.set_pos(pos); _fld.set_pos(A(np.ones((2, 3))))")
P(FB + "set_pos", "structured", _FLD % ("None", "None", "None") + "pos = (A(np.arange(5.0)), A(np.arange(4.0)))", "_fld.set_pos(pos, 'structured')")
P(FB + "pre_pos", "with model, rotation", "_fld = gs.field.Field(gs.Gaussian(dim=2, anis=0.5, angles=0.4))\npos = A(rng.uniform(0, 10, (2, 14)))", "_fld.pre_pos(pos)")
P(FB + "pre_pos", "latlon model", "_fld = gs.field.Field(gs.Gaussian(latlon=True, geo_scale=gs.KM_SCALE))\npos = A(np.stack([rng.uniform(-60, 60, 14), rng.uniform(-120, 120, 14)]))", "_fld.pre_pos(pos)")
P(FB + "__init__", "array mean/trend", "mean = A([1.0, 2.0])\ntrend = A([0.5, 0.1])", "gs.field.Field(dim=2, value_type='vector', mean=mean, trend=trend)")
P(FB + "mean.setter", "array", "mean = A([1.0, 2.0])\n_fld = gs.field.Field(dim=2, value_type='vector')", "_fld.mean = mean; _fld.trend = mean")
P(FB + "__getitem__", "by reference, then regenerate", "_srf = gs.SRF(gs.Gaussian(dim=2), seed=1, mode_no=20)\npos = A(rng.uniform(0, 10, (2, 14)))\nreturned_f = _srf(pos)\nstored_f = _srf['field']\nstored_all = _srf[['field']]",
  "_srf(seed=5); _srf(pos, seed=7, store='other'); del _srf['other']")
P(FB + "mesh", "meshio centroids", "import meshio as _mio\n_pts = A(rng.uniform(0, 5, (8, 2)))\n_cells = [('triangle', np.array([[0, 1, 2], [2, 3, 4], [4, 5, 6]]))]\n_mesh = _mio.Mesh(_pts, _cells)\npoints_of_mesh = _mesh.points\n_srf = gs.SRF(gs.Gaussian(dim=2), mean=1.0, seed=1, mode_no=20)",
  "_srf.mesh(_mesh, points='centroids', name='c'); _srf.mesh(_mesh, points='points', name='p')")

S = "field/srf.py:SRF."
_MODELS = {
    "gauss2d": "gs.Gaussian(dim=2, var=1.5, len_scale=2.0, nugget=0.1)",
    "exp2d aniso rot": "gs.Exponential(dim=2, var=1.5, len_scale=2.0, anis=0.4, angles=0.6)",
    "latlon": "gs.Gaussian(latlon=True, var=1.0, len_scale=500, geo_scale=gs.KM_SCALE)",
}
for _o, _mdl in _MODELS.items():
    _p = "pos = A(np.stack([rng.uniform(-60, 60, 14), rng.uniform(-120, 120, 14)]))\n" if _o == "latlon" else "pos = A(rng.uniform(0, 10, (2, 14)))\n"
    P(S + "__call__", _o + ",mean+trend+normalizer", "_srf = gs.SRF(%s, mean=0.3, trend=lambda x, y: 0.1 * x, normalizer=gs.normalizer.YeoJohnson, seed=2, mode_no=20)\n" % _mdl + _p, "_srf(pos)")
    P(S + "__call__", _o + ",seq of stores", "_srf = gs.SRF(%s, mean=0.3, seed=2, mode_no=20)\n" % _mdl + _p + "returned_a = _srf(pos, store='a')\nstored_a = _srf['a']", "_srf(pos, seed=9, store='b'); _srf(seed=10); _srf(pos, seed=11, store='a2', post_process=False)")
P(S + "__call__", "structured", "_srf = gs.SRF(gs.Gaussian(dim=2), mean=0.3, seed=2, mode_no=20)\npos = (A(np.arange(5.0)), A(np.arange(4.0)))", "_srf(pos, mesh_type='structured'); _srf.structured(pos)")
P(S + "__call__", "point_volumes array, coarse graining", "_srf = gs.SRF(gs.Gaussian(dim=2), upscaling='coarse_graining', seed=2, mode_no=20)\npos = A(rng.uniform(0, 10, (2, 14)))\npoint_volumes = A(rng.uniform(0.5, 2, 14))", "_srf(pos, point_volumes=point_volumes)")
P(S + "__call__", "IncomprRandMeth", "_srf = gs.SRF(gs.Gaussian(dim=2), generator='VectorField', seed=2, mode_no=20)\npos = A(rng.uniform(0, 10, (2, 14)))\nreturned_a = _srf(pos, store='a')", "_srf(pos, seed=4)")
P(S + "__call__", "Fourier", "period = A([10.0, 12.0])\n_srf = gs.SRF(gs.Gaussian(dim=2), generator='Fourier', period=period, mode_no=[8, 8], seed=2)\npos = A(rng.uniform(0, 10, (2, 14)))\nreturned_a = _srf(pos, store='a')", "_srf(pos, seed=4)")
P(S + "__init__", "array mean (vector)", "mean = A([1.0, 0.5])", "gs.SRF(gs.Gaussian(dim=2), mean=mean, generator='VectorField', mode_no=20)")

G = "field/generator.py:"
_ISO = "pos = A(rng.uniform(0, 10, (2, 14)))\n"
P(G + "RandMeth.__call__", "", "_g = gs.field.generator.RandMeth(gs.Gaussian(dim=2, nugget=0.1), mode_no=20, seed=1)\n" + _ISO, "_g(pos); _g(pos, add_nugget=False)")
P(G + "IncomprRandMeth.__call__", "", "_g = gs.field.generator.IncomprRandMeth(gs.Gaussian(dim=2, nugget=0.1), mode_no=20, seed=1)\n" + _ISO, "_g(pos)")
P(G + "Fourier.__call__", "", "period = A([10.0, 12.0])\nmode_no = np.array([8, 8])\n_g = gs.field.generator.Fourier(gs.Gaussian(dim=2, nugget=0.1), period, mode_no=mode_no, seed=1)\n" + _ISO, "_g(pos)")
P(G + "Fourier.update", "period/mode_no arrays", "period = A([10.0, 12.0])\nmode_no = np.array([8, 8])\n_g = gs.field.generator.Fourier(gs.Gaussian(dim=2), A([5.0, 5.0]), mode_no=[4, 4], seed=1)", "_g.update(period=period, mode_no=mode_no)")
P(G + "RandMeth.update", "model anis array", "anis = A([0.5])\n_m = gs.Gaussian(dim=2, anis=anis)\nstored_anis = _m.anis\n_g = gs.field.generator.RandMeth(gs.Gaussian(dim=2), mode_no=20, seed=1)", "_g.update(_m, 5)")

K = "krige/base.py:Krige."
_COND = "cond_pos = A(rng.uniform(0, 10, (2, 7)))\ncond_val = A(rng.normal(1, 0.3, 7))\n"
_GRID = "pos = A(rng.uniform(0, 10, (2, 9)))\n"
P(K + "__init__", "ordinary", _COND, "gs.krige.Krige(gs.Gaussian(dim=2, len_scale=3), cond_pos, cond_val)")
P(K + "__init__", "mean+trend+normalizer", _COND + "cond_val = A(np.exp(cond_val))", "gs.krige.Krige(gs.Gaussian(dim=2, len_scale=3), cond_pos, cond_val, mean=0.5, trend=lambda x, y: 0.01 * x, normalizer=gs.normalizer.LogNormal)")
P(K + "__init__", "fit_normalizer+fit_variogram", "cond_pos = A(rng.uniform(0, 10, (2, 30)))\ncond_val = A(np.exp(rng.normal(0, 0.3, 30)))", "gs.krige.Krige(gs.Gaussian(dim=2, len_scale=3), cond_pos, cond_val, normalizer=gs.normalizer.BoxCox, fit_normalizer=True, fit_variogram=True)")
P(K + "__init__", "fit_variogram aniso", "cond_pos = A(rng.uniform(0, 10, (2, 30)))\ncond_val = A(rng.normal(0, 1, 30))", "gs.krige.Krige(gs.Gaussian(dim=2, len_scale=3, anis=0.5), cond_pos, cond_val, fit_variogram=True)")
P(K + "__init__", "ext_drift + cond_err arrays", _COND + "ext_drift = A(rng.normal(size=(1, 7)))\ncond_err = A(rng.uniform(0.01, 0.1, 7))", "gs.krige.Krige(gs.Gaussian(dim=2, len_scale=3), cond_pos, cond_val, ext_drift=ext_drift, cond_err=cond_err)")
P(K + "__init__", "nan in cond_val", _COND + "cond_val[2] = np.nan", "gs.krige.Krige(gs.Gaussian(dim=2, len_scale=3), cond_pos, cond_val)")
P(K + "__init__", "latlon", "cond_pos = A(np.stack([rng.uniform(-60, 60, 7), rng.uniform(-120, 120, 7)]))\ncond_val = A(rng.normal(1, 0.3, 7))", "gs.krige.Krige(gs.Gaussian(latlon=True, len_scale=800, geo_scale=gs.KM_SCALE), cond_pos, cond_val)")
_KR = _COND + "_k = gs.krige.Krige(gs.Gaussian(dim=2, len_scale=3, nugget=0.05), cond_pos, cond_val, mean=0.5, trend=0.2, normalizer=gs.normalizer.YeoJohnson, unbiased=%s)\n"
for _u in ("True", "False"):
    P(K + "__call__", "unbiased=%s" % _u, _KR % _u + _GRID, "_k(pos)")
    P(K + "__call__", "unbiased=%s,only_mean" % _u, _KR % _u + _GRID, "_k(pos, only_mean=True)")
    P(K + "__call__", "unbiased=%s,chunks,structured" % _u, _KR % _u + "pos = (A(np.arange(4.0)), A(np.arange(3.0)))", "_k(pos, mesh_type='structured', chunk_size=5)")
    P(K + "__call__", "unbiased=%s,seq of stores" % _u, _KR % _u + _GRID + "returned_f, returned_v = _k(pos, store=['a', 'av'])\nstored_f = _k['a']", "_k(pos, store=['b', 'bv']); _k(store=False); _k(post_process=False, store='c')")
    P(K + "get_mean", "unbiased=%s" % _u, _KR % _u + "stored_cond_val = _k.cond_val\nstored_cond_pos = _k.cond_pos", "_k.get_mean(); _k.get_mean(post_process=False)")
P(K + "__call__", "ext_drift", _COND + "ext_drift = A(rng.normal(size=(1, 9)))\n_k = gs.krige.ExtDrift(gs.Gaussian(dim=2, len_scale=3), cond_pos, cond_val, A(rng.normal(size=(1, 7))))\n" + _GRID, "_k(pos, ext_drift=ext_drift)")
P(K + "__call__", "universal drift", _COND + "_k = gs.krige.Universal(gs.Gaussian(dim=2, len_scale=3, anis=0.5, angles=0.3), cond_pos, cond_val, 'linear')\n" + _GRID, "_k(pos)")
P(K + "set_condition", "new values", _COND + "_k = gs.krige.Krige(gs.Gaussian(dim=2, len_scale=3), A(rng.uniform(0, 10, (2, 5))), A(rng.normal(size=5)))\ncond_err = A(rng.uniform(0.01, 0.1, 7))", "_k.set_condition(cond_pos, cond_val, cond_err=cond_err)")
P(K + "set_condition", "keeps old, stored arrays", _COND + "_k = gs.krige.Krige(gs.Gaussian(dim=2, len_scale=3), cond_pos, cond_val, mean=1.0, trend=0.5)\nstored_cond_val = _k.cond_val\nstored_cond_pos = _k.cond_pos", "_k.set_condition(fit_normalizer=False); _k.set_condition(cond_val=A(np.ones(7)), cond_pos=cond_pos)")
P(K + "cond_err.setter", "array", _COND + "_k = gs.krige.Krige(gs.Gaussian(dim=2, len_scale=3), cond_pos, cond_val)\ncond_err = A(rng.uniform(0.01, 0.1, 7))\n" + _GRID, "_k.cond_err = cond_err; _k.set_condition(); _k(pos)")
for _c, _extra in (("Simple", "mean=1.0"), ("Ordinary", "trend=0.3"), ("Detrended", "trend=lambda x, y: 0.1 * y")):
    P("krige/methods.py:%s.__init__" % _c, "", _COND + _GRID, "_k = gs.krige.%s(gs.Gaussian(dim=2, len_scale=3), cond_pos, cond_val, %s); _k(pos)" % (_c, _extra))
P("krige/methods.py:Universal.__init__", "callable drift", _COND + _GRID, "_k = gs.krige.Universal(gs.Gaussian(dim=2, len_scale=3), cond_pos, cond_val, [lambda x, y: x]); _k(pos)")
P("krige/methods.py:ExtDrift.__init__", "", _COND + _GRID + "ext_drift = A(rng.normal(size=7))", "_k = gs.krige.ExtDrift(gs.Gaussian(dim=2, len_scale=3), cond_pos, cond_val, ext_drift); _k(pos, ext_drift=A(rng.normal(size=9)))")
KT = "krige/tools.py:"
P(KT + "set_condition", "", _COND, "gs.krige.tools.set_condition(cond_pos, cond_val, 2)")
P(KT + "set_condition", "nan", _COND + "cond_val[0] = np.nan", "gs.krige.tools.set_condition(cond_pos, cond_val, 2)")
P(KT + "get_drift_functions", "quadratic", "pos = A(rng.uniform(0, 10, (2, 9)))", "[f(*pos) for f in gs.krige.tools.get_drift_functions(2, 'quad')]")

C = "field/cond_srf.py:CondSRF."
_CS = _COND + "_k = gs.krige.Krige(gs.Gaussian(dim=2, len_scale=3, nugget=%s), cond_pos, cond_val, mean=0.5, trend=0.2, normalizer=gs.normalizer.YeoJohnson)\n_cs = gs.CondSRF(_k, seed=4, mode_no=20)\n" + _GRID
for _nug in ("0.0", "0.1"):
    P(C + "__call__", "nugget=%s,first call" % _nug, _CS % _nug, "_cs(pos)")
    P(C + "__call__", "nugget=%s,reuse stored kriging fields" % _nug, _CS % _nug + "returned_c = _cs(pos)\nstored_raw_krige = _cs['raw_krige']\nstored_raw_field = _cs['raw_field']\nstored_krige_field = _k['field']\nstored_krige_var = _k['krige_var']",
      "_cs(seed=8); _cs(seed=9, store=['x', 'xr', 'xk']); _cs(seed=10, post_process=False, krige_store=False)")
    P(C + "__call__", "nugget=%s,krige field deleted then reuse" % _nug, _CS % _nug + "returned_c = _cs(pos)\nstored_raw_krige = _cs['raw_krige']\nstored_krige_var = _k['krige_var']\ndel _k['field']", "_cs(seed=8)")
    P(C + "__call__", "nugget=%s,structured" % _nug, (_CS % _nug).replace(_GRID, "pos = (A(np.arange(4.0)), A(np.arange(3.0)))\n"), "_cs(pos, mesh_type='structured'); _cs.structured(pos, seed=3)")
P(C + "set_pos", "", _CS % "0.0" + "returned_c = _cs(pos)\npos2 = A(rng.uniform(0, 10, (2, 5)))", "_cs.set_pos(pos2); _cs()")
P(C + "__init__", "", _COND + "_k = gs.krige.Krige(gs.Gaussian(dim=2, len_scale=3), cond_pos, cond_val)\nstored_cond_val = _k.cond_val", "gs.CondSRF(_k, seed=4, mode_no=20)")
