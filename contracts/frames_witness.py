"""Native witness-call templates for the `frames` engine (C20).

One probe = {id, entry, opts, setup, call} (see gsvc/frames_probe.py).  `entry` is the key of a
public entry point in contracts/frames.py:PUBLIC.  Every array bound to a public name by
`setup` is tracked; the variable names ARE the argument roles (parameter names of the entry
point); `stored_*` / `returned_*` are arrays stored in an object / returned by an earlier
call.  All arrays are built with A(...) = float64, C-contiguous, already of the shape the
entry point converts to (the aliasing layout), masked arrays where the entry point accepts
them.  Option combinations that enable in-place arithmetic are enumerated per entry:
latlon + geo_scale != 1, mean / trend / normalizer set, process=True, masked input, stacked
fields, post_process on/off, store under a new name, reuse of stored kriging fields.

The table is data: it is executed by a separate interpreter on the tree under test.
"""

PROBES = []
_seen = {}


def P(entry, opts, setup, call, tier="quick", also=()):
    base = entry.split(":")[1] + "[" + opts + "]"
    _seen[base] = _seen.get(base, 0) + 1
    pid = base if _seen[base] == 1 else "%s#%d" % (base, _seen[base])
    PROBES.append({"id": pid, "entry": entry, "opts": opts, "setup": setup.strip() + "\n",
                   "call": call.strip() + "\n", "tier": tier, "also": list(also)})


# =============================================================================================
# variogram
V = "variogram/variogram.py:"
_POS2 = "pos = A(rng.uniform(0, 10, (2, 14)))\nfield = A(rng.normal(size=14))\n"
_LL = "pos = A(np.stack([rng.uniform(-60, 60, 14), rng.uniform(-120, 120, 14)]))\nfield = A(rng.normal(size=14))\n"
P(V + "vario_estimate", "plain,bin_edges", _POS2 + "bin_edges = A(np.linspace(0, 6, 7))",
  "gs.vario_estimate(pos, field, bin_edges)")
P(V + "vario_estimate", "latlon,geo_scale=KM", _LL + "bin_edges = A(np.linspace(0, 8000, 7))",
  "gs.vario_estimate(pos, field, bin_edges, latlon=True, geo_scale=gs.KM_SCALE)")
P(V + "vario_estimate", "latlon,geo_scale=DEGREE", _LL + "bin_edges = A(np.linspace(0, 90, 7))",
  "gs.vario_estimate(pos, field, bin_edges, latlon=True, geo_scale=gs.DEGREE_SCALE)")
P(V + "vario_estimate", "latlon,geo_scale=1", _LL + "bin_edges = A(np.linspace(0, 1.5, 7))",
  "gs.vario_estimate(pos, field, bin_edges, latlon=True)")
P(V + "vario_estimate", "mean+trend+normalizer", _POS2 + "field = A(np.exp(field))\nbin_edges = A(np.linspace(0, 6, 7))",
  "gs.vario_estimate(pos, field, bin_edges, mean=0.3, trend=lambda x, y: 0.1 * x, normalizer=gs.normalizer.LogNormal)")
P(V + "vario_estimate", "fit_normalizer", _POS2 + "field = A(np.exp(field))\nbin_edges = A(np.linspace(0, 6, 7))",
  "gs.vario_estimate(pos, field, bin_edges, normalizer=gs.normalizer.BoxCox, fit_normalizer=True)")
P(V + "vario_estimate", "stacked fields", _POS2 + "field = A(rng.normal(size=(3, 14)))\nbin_edges = A(np.linspace(0, 6, 7))",
  "gs.vario_estimate(pos, field, bin_edges, mean=1.0)")
P(V + "vario_estimate", "masked field + mask", _POS2 + "field = np.ma.array(field, mask=rng.uniform(size=14) < 0.2)\nmask = rng.uniform(size=14) < 0.2\nbin_edges = A(np.linspace(0, 6, 7))",
  "gs.vario_estimate(pos, field, bin_edges, mask=mask, mean=0.5)")
P(V + "vario_estimate", "nan field, no_data", _POS2 + "field[3] = -999.0\nbin_edges = A(np.linspace(0, 6, 7))",
  "gs.vario_estimate(pos, field, bin_edges, no_data=-999.0, mean=0.5)")
P(V + "vario_estimate", "direction+angles_tol", _POS2 + "direction = A([[1.0, 0.0], [0.0, 2.0]])\nbin_edges = A(np.linspace(0, 6, 7))",
  "gs.vario_estimate(pos, field, bin_edges, direction=direction, bandwidth=2.0, return_counts=True)")
P(V + "vario_estimate", "angles", _POS2 + "angles = A([0.3])\nbin_edges = A(np.linspace(0, 6, 7))",
  "gs.vario_estimate(pos, field, bin_edges, angles=angles)")
P(V + "vario_estimate", "structured", "pos = (A(np.arange(5.0)), A(np.arange(4.0)))\nfield = A(rng.normal(size=(5, 4)))\nbin_edges = A(np.linspace(0, 4, 5))",
  "gs.vario_estimate(pos, field, bin_edges, mesh_type='structured', trend=1.5)")
P(V + "vario_estimate", "sampling", _POS2 + "bin_edges = A(np.linspace(0, 6, 7))",
  "gs.vario_estimate(pos, field, bin_edges, sampling_size=8, sampling_seed=3, mean=2.0)")
P(V + "vario_estimate", "1d pos", "pos = A(rng.uniform(0, 10, 14))\nfield = A(rng.normal(size=14))\nbin_edges = A(np.linspace(0, 6, 7))",
  "gs.vario_estimate(pos, field, bin_edges, trend=0.5)")
P(V + "vario_estimate", "standard bins latlon", _LL, "gs.vario_estimate(pos, field, latlon=True, geo_scale=gs.KM_SCALE, mean=1.0)")
P(V + "vario_estimate_axis", "plain", "field = A(rng.normal(size=(6, 5)))", "gs.vario_estimate_axis(field, 'x')")
P(V + "vario_estimate_axis", "nan in ndarray", "field = A(rng.normal(size=(6, 5)))\nfield[1, 2] = np.nan", "gs.vario_estimate_axis(field, 'y')")
P(V + "vario_estimate_axis", "masked, no nan", "field = np.ma.array(A(rng.normal(size=(6, 5))), mask=rng.uniform(size=(6, 5)) < 0.2)", "gs.vario_estimate_axis(field, 0)")
P(V + "vario_estimate_axis", "masked + nan", "field = np.ma.array(A(rng.normal(size=(6, 5))), mask=rng.uniform(size=(6, 5)) < 0.2)\nfield[0, 0] = np.nan\nfield.mask[0, 0] = False", "gs.vario_estimate_axis(field, 0)")
P(V + "vario_estimate_axis", "masked + no_data", "field = np.ma.array(A(rng.normal(size=(6, 5))), mask=rng.uniform(size=(6, 5)) < 0.2)\nfield[0, 0] = -9.0\nfield.mask[0, 0] = False", "gs.vario_estimate_axis(field, 0, no_data=-9.0)")
P(V + "vario_estimate_axis", "1d cressie", "field = A(rng.normal(size=9))", "gs.vario_estimate_axis(field, estimator='cressie')")
B = "variogram/binning.py:"
P(B + "standard_bins", "unstructured", "pos = A(rng.uniform(0, 10, (2, 14)))", "gs.variogram.standard_bins(pos, dim=2)")
P(B + "standard_bins", "latlon,geo_scale", "pos = A(np.stack([rng.uniform(-60, 60, 14), rng.uniform(-120, 120, 14)]))", "gs.variogram.standard_bins(pos, latlon=True, geo_scale=gs.KM_SCALE)")
P(B + "standard_bins", "structured", "pos = (A(np.arange(5.0)), A(np.arange(4.0)))", "gs.variogram.standard_bins(pos, dim=2, mesh_type='structured')")

# =============================================================================================
# normalizer tools + classes
NT = "normalizer/tools.py:"
for _name in ("apply_mean_norm_trend", "remove_trend_norm_mean"):
    _f = "gs.normalizer." + _name
    _fld = "field = A(np.exp(rng.normal(size=14)))\n"
    P(NT + _name, "mean", "pos = A(rng.uniform(0, 10, (2, 14)))\n" + _fld, _f + "(pos, field, mean=1.5)")
    P(NT + _name, "trend callable", "pos = A(rng.uniform(0, 10, (2, 14)))\n" + _fld, _f + "(pos, field, trend=lambda x, y: x)")
    P(NT + _name, "normalizer", "pos = A(rng.uniform(0, 10, (2, 14)))\n" + _fld, _f + "(pos, field, normalizer=gs.normalizer.LogNormal)")
    P(NT + _name, "all,check_shape=False", "pos = A(rng.uniform(0, 10, (2, 14)))\n" + _fld, _f + "(pos, field, mean=0.2, trend=0.1, normalizer=gs.normalizer.LogNormal(), check_shape=False)")
    P(NT + _name, "stacked", "pos = A(rng.uniform(0, 10, (2, 14)))\nfield = A(np.exp(rng.normal(size=(2, 14))))", _f + "(pos, field, mean=1.5, trend=0.5, stacked=True)")
    P(NT + _name, "stacked list", "pos = A(rng.uniform(0, 10, (2, 14)))\nfield = [A(np.exp(rng.normal(size=14))), A(np.exp(rng.normal(size=14)))]", _f + "(pos, field, mean=1.5, trend=0.5, stacked=True, check_shape=False)")
    P(NT + _name, "structured", "pos = (A(np.arange(5.0)), A(np.arange(4.0)))\nfield = A(np.exp(rng.normal(size=(5, 4))))", _f + "(pos, field, mean=1.5, mesh_type='structured')")
    P(NT + _name, "vector", "pos = A(rng.uniform(0, 10, (2, 14)))\nfield = A(rng.normal(size=(2, 14)))\nmean = A([1.0, 2.0])", _f + "(pos, field, mean=mean, value_type='vector', check_shape=False)")
    P(NT + _name, "nothing set", "pos = A(rng.uniform(0, 10, (2, 14)))\n" + _fld, _f + "(pos, field)")
P(NT + "remove_trend_norm_mean", "fit_normalizer", "pos = A(rng.uniform(0, 10, (2, 14)))\nfield = A(np.exp(rng.normal(size=14)))", "gs.normalizer.remove_trend_norm_mean(pos, field, normalizer=gs.normalizer.BoxCox, fit_normalizer=True)")

NB = "normalizer/base.py:Normalizer."
for _cls in ("Normalizer", "LogNormal", "BoxCox", "BoxCoxShift", "YeoJohnson", "Modulus", "Manly"):
    _mk = "_n = gs.normalizer.%s()\n" % _cls if _cls != "Normalizer" else "from gstools.normalizer import Normalizer as _N\n_n = _N()\n"
    if _cls in ("BoxCox", "YeoJohnson", "Modulus", "Manly", "BoxCoxShift"):
        _mk += "_n.lmbda = 0.5\n"
    _d = "data = A(np.exp(rng.normal(size=(3, 5))))\n"
    for _m in ("normalize", "denormalize", "derivative", "loglikelihood", "likelihood", "kernel_loglikelihood"):
        P(NB + _m, _cls, _mk + _d, "_n.%s(data)" % _m, tier="quick")
    P(NB + "normalize", _cls + ",nan", _mk + _d + "data[0, 0] = np.nan", "_n.normalize(data); _n.denormalize(data)")
    if _cls not in ("Normalizer", "LogNormal"):
        P(NB + "fit", _cls, _mk + _d, "_n.fit(data)")
P(NB + "__init__", "data given", "data = A(np.exp(rng.normal(size=20)))", "gs.normalizer.BoxCox(data)")
P(NB + "normalize", "out of range", "data = A(rng.normal(size=20))", "gs.normalizer.LogNormal().normalize(data)")

# =============================================================================================
# transform.array
TA = "transform/array.py:"
_F = "field = A(rng.normal(size=(4, 5)))\n"
P(TA + "array_discrete", "arithmetic", _F + "values = A([3.0, 1.0, 2.0])", "gs.transform.array_discrete(field, values)")
P(TA + "array_discrete", "equal", _F + "values = A([1.0, 2.0, 3.0])", "gs.transform.array_discrete(field, values, thresholds='equal')")
P(TA + "array_discrete", "thresholds", _F + "values = A([1.0, 2.0, 3.0])", "gs.transform.array_discrete(field, values, [-0.5, 0.5])")
P(TA + "array_boxcox", "lmbda", _F, "gs.transform.array_boxcox(field, lmbda=0.5, shift=3)")
P(TA + "array_boxcox", "lmbda=0", _F, "gs.transform.array_boxcox(field, lmbda=0)")
P(TA + "array_zinnharvey", "high", _F, "gs.transform.array_zinnharvey(field)")
P(TA + "array_zinnharvey", "low,mean,var", _F, "gs.transform.array_zinnharvey(field, 'low', 0.1, 1.2)")
P(TA + "array_force_moments", "", _F, "gs.transform.array_force_moments(field, 1.0, 2.0)")
P(TA + "array_to_lognormal", "", _F, "gs.transform.array_to_lognormal(field)")
P(TA + "array_to_uniform", "", _F, "gs.transform.array_to_uniform(field, low=1.0, high=3.0)")
P(TA + "array_to_arcsin", "", _F, "gs.transform.array_to_arcsin(field, a=0.0, b=2.0)")
P(TA + "array_to_uquad", "", _F, "gs.transform.array_to_uquad(field)")

# =============================================================================================
# transform.field: every transformation x process x store
TF = "transform/field.py:"
_SRF = ("_m = gs.Gaussian(dim=2, var=1.5, len_scale=2.0)\n"
        "_srf = gs.SRF(_m, mean=0.7, seed=3, mode_no=20)\n"
        "pos = A(rng.uniform(0, 10, (2, 14)))\n"
        "returned_field = _srf(pos)\n"
        "stored_field = _srf['field']\n")
_SRFN = ("_m = gs.Gaussian(dim=2, var=1.5, len_scale=2.0)\n"
         "_srf = gs.SRF(_m, mean=0.7, trend=lambda x, y: 0.1 * x, normalizer=gs.normalizer.LogNormal, seed=3, mode_no=20)\n"
         "pos = A(rng.uniform(0, 10, (2, 14)))\n"
         "returned_field = _srf(pos)\n"
         "stored_field = _srf['field']\n")
_TR = {
    "binary": "gs.transform.binary(_srf%s)",
    "discrete": "gs.transform.discrete(_srf, values%s)",
    "boxcox": "gs.transform.boxcox(_srf, lmbda=1%s)",
    "zinnharvey": "gs.transform.zinnharvey(_srf%s)",
    "normal_force_moments": "gs.transform.normal_force_moments(_srf%s)",
    "normal_to_lognormal": "gs.transform.normal_to_lognormal(_srf%s)",
    "normal_to_uniform": "gs.transform.normal_to_uniform(_srf%s)",
    "normal_to_arcsin": "gs.transform.normal_to_arcsin(_srf%s)",
    "normal_to_uquad": "gs.transform.normal_to_uquad(_srf%s)",
    "apply_function": "gs.transform.apply_function(_srf, np.square%s)",
}
for _t, _c in _TR.items():
    _v = "values = A([1.0, 2.0, 3.0])\n" if _t == "discrete" else ""
    P(TF + _t, "process=False,store=True", _SRF + _v, _c % "")
    P(TF + _t, "process=False,store=new", _SRF + _v, _c % ", store='new'")
    P(TF + _t, "process=True,store=new", _SRFN + _v, _c % ", store='new', process=True")
    P(TF + _t, "process=True,keep_mean=False,store=False", _SRFN + _v, _c % ", store=False, process=True, keep_mean=False")
    P(TF + _t, "process=True,store=True,plain srf", _SRF + _v, _c % ", process=True")
for _t in ("binary", "zinnharvey", "normal_to_lognormal", "normal_force_moments", "function"):
    _kw = ", function=np.square" if _t == "function" else ""
    P(TF + "apply", _t + ",process=False", _SRF, "gs.transform.apply(_srf, '%s'%s, store='t')" % (_t, _kw))
    P(TF + "apply", _t + ",process=True", _SRFN, "gs.transform.apply(_srf, '%s'%s, store='t', process=True)" % (_t, _kw))
    P("field/base.py:Field.transform", _t + ",process=True", _SRFN, "_srf.transform('%s'%s, store='t', process=True)" % (_t, _kw))
    P("field/base.py:Field.transform", _t + ",process=False", _SRF, "_srf.transform('%s'%s, store='t')" % (_t, _kw))
P(TF + "apply_function", "chain of stores", _SRF + "returned_a = _srf.transform('normal_to_lognormal', store='a')\nreturned_b = _srf.transform('binary', store='b')",
  "_srf.transform('zinnharvey', field='field', store='c'); _srf.transform('function', function=np.exp, field='a', store='d')")
P(TF + "apply_function", "discrete with array arguments", _SRF + "values = A([1.0, 2.0, 3.0])",
  "gs.transform.discrete(_srf, values, [-0.5, 0.5], store='d', process=True)")

# =============================================================================================
# Field / SRF / CondSRF
FB = "field/base.py:Field."
_FLD = "_fld = gs.field.Field(dim=2, mean=%s, normalizer=%s, trend=%s)\n"
_UNS = "pos = A(rng.uniform(0, 10, (2, 14)))\nfield = A(np.exp(rng.normal(size=14)))\n"
_STR = "pos = (A(np.arange(5.0)), A(np.arange(4.0)))\nfield = A(np.exp(rng.normal(size=(5, 4))))\n"
for _o, _args in (("mean", ("1.5", "None", "None")), ("trend callable", ("None", "None", "lambda x, y: x")),
                  ("normalizer", ("None", "gs.normalizer.LogNormal", "None")),
                  ("mean+normalizer+trend", ("0.2", "gs.normalizer.LogNormal", "0.3")),
                  ("nothing set", ("None", "None", "None"))):
    _mk = _FLD % _args
    P(FB + "__call__", _o + ",unstructured", _mk + _UNS, "_fld(pos, field)")
    P(FB + "__call__", _o + ",structured", _mk + _STR, "_fld(pos, field, mesh_type='structured')")
    P(FB + "__call__", _o + ",post_process=False", _mk + _UNS, "_fld(pos, field, post_process=False)")
    P(FB + "__call__", _o + ",store=False", _mk + _UNS, "_fld(pos, field, store=False)")
    P(FB + "unstructured", _o, _mk + _UNS, "_fld.unstructured(pos, field=field)")
    P(FB + "structured", _o, _mk + _STR, "_fld.structured(pos, field=field)")
    P(FB + "post_field", _o + ",process=True", _mk + _UNS + "_fld.set_pos(pos)", "_fld.post_field(field, 'f2')")
    P(FB + "post_field", _o + ",process=False", _mk + _UNS + "_fld.set_pos(pos)", "_fld.post_field(field, 'f2', process=False)")
P(FB + "__call__", "stored earlier, new name", _FLD % ("1.5", "None", "None") + _UNS + "returned_a = _fld(pos, field.copy(), store='a')\nstored_a = _fld['a']",
  "_fld(pos, field, store='b'); _fld(field=field.copy(), store='c', post_process=False)")
P(FB + "__call__", "post_process=False then call again", _FLD % ("1.5", "None", "None") + _UNS + "returned_a = _fld(pos, field, post_process=False)",
  "_fld(pos, A(np.ones(14)))")
P(FB + "__call__", "vector field", "_fld = gs.field.Field(dim=2, value_type='vector', mean=[1.0, 2.0])\npos = A(rng.uniform(0, 10, (2, 14)))\nfield = A(rng.normal(size=(2, 14)))", "_fld(pos, field)")
P(FB + "set_pos", "unstructured", _FLD % ("None", "None", "None") + "pos = A(rng.uniform(0, 10, (2, 14)))", "_fld.set_pos(pos); _fld.set_pos(A(np.ones((2, 3))))")
P(FB + "set_pos", "structured", _FLD % ("None", "None", "None") + "pos = (A(np.arange(5.0)), A(np.arange(4.0)))", "_fld.set_pos(pos, 'structured')")
P(FB + "pre_pos", "with model, rotation", "_fld = gs.field.Field(gs.Gaussian(dim=2, anis=0.5, angles=0.4))\npos = A(rng.uniform(0, 10, (2, 14)))", "_fld.pre_pos(pos)")
P(FB + "pre_pos", "latlon model", "_fld = gs.field.Field(gs.Gaussian(latlon=True, geo_scale=gs.KM_SCALE))\npos = A(np.stack([rng.uniform(-60, 60, 14), rng.uniform(-120, 120, 14)]))", "_fld.pre_pos(pos)")
P(FB + "__init__", "array mean/trend", "mean = A([1.0, 2.0])\ntrend = A([0.5, 0.1])", "gs.field.Field(dim=2, value_type='vector', mean=mean, trend=trend)")
P(FB + "mean.setter", "array", "mean = A([1.0, 2.0])\n_fld = gs.field.Field(dim=2, value_type='vector')", "_fld.mean = mean; _fld.trend = mean", also=[FB + "trend.setter"])
P(FB + "__getitem__", "by reference, then regenerate", "_srf = gs.SRF(gs.Gaussian(dim=2), seed=1, mode_no=20)\npos = A(rng.uniform(0, 10, (2, 14)))\nreturned_f = _srf(pos)\nstored_f = _srf['field']\nstored_all = _srf[['field']]",
  "_srf(seed=5); _srf(pos, seed=7, store='other'); del _srf['other']")
P(FB + "pos.setter", "array, unstructured + structured", _FLD % ("None", "None", "None") + "pos = A(rng.uniform(0, 10, (2, 14)))\npos_s = (A(np.arange(5.0)), A(np.arange(4.0)))",
  "_fld.pos = pos; _fld.mesh_type = 'structured'; _fld.pos = pos_s", also=[FB + "mesh_type.setter"])
P("field/cond_srf.py:CondSRF.pos.setter", "array", "cond_pos = A(rng.uniform(0, 10, (2, 7)))\ncond_val = A(rng.normal(1, 0.3, 7))\n_k = gs.krige.Krige(gs.Gaussian(dim=2, len_scale=3), cond_pos, cond_val)\n_cs = gs.CondSRF(_k, seed=4, mode_no=20)\npos = A(rng.uniform(0, 10, (2, 9)))",
  "_cs.pos = pos; _cs.mean = 2.0; _cs.trend = 1.0; _cs()", also=["field/cond_srf.py:CondSRF.mean.setter", "field/cond_srf.py:CondSRF.trend.setter"])
P(FB + "mesh", "meshio centroids", "import meshio as _mio\n_pts = A(rng.uniform(0, 5, (8, 2)))\n_cells = [('triangle', np.array([[0, 1, 2], [2, 3, 4], [4, 5, 6]]))]\n_mesh = _mio.Mesh(_pts, _cells)\npoints_of_mesh = _mesh.points\n_srf = gs.SRF(gs.Gaussian(dim=2), mean=1.0, seed=1, mode_no=20)",
  "_srf.mesh(_mesh, points='centroids', name='c'); _srf.mesh(_mesh, points='points', name='p')")

P(FB + "mesh", "base Field with field=arr", "import meshio as _mio\n_pts = A(rng.uniform(0, 5, (8, 2)))\n_cells = [('triangle', np.array([[0, 1, 2], [2, 3, 4], [4, 5, 6]]))]\n_mesh = _mio.Mesh(_pts, _cells)\n_fld = gs.field.Field(dim=2, mean=1.5)\nfield = A(rng.normal(size=8))",
  "_fld.mesh(_mesh, points='points', name='p', field=field)", also=["field/tools.py:generate_on_mesh"])

S = "field/srf.py:SRF."
_MODELS = {
    "gauss2d": "gs.Gaussian(dim=2, var=1.5, len_scale=2.0, nugget=0.1)",
    "exp2d aniso rot": "gs.Exponential(dim=2, var=1.5, len_scale=2.0, anis=0.4, angles=0.6)",
    "latlon": "gs.Gaussian(latlon=True, var=1.0, len_scale=500, geo_scale=gs.KM_SCALE)",
}
for _o, _mdl in _MODELS.items():
    _p = "pos = A(np.stack([rng.uniform(-60, 60, 14), rng.uniform(-120, 120, 14)]))\n" if _o == "latlon" else "pos = A(rng.uniform(0, 10, (2, 14)))\n"
    P(S + "__call__", _o + ",mean+trend+normalizer", "_srf = gs.SRF(%s, mean=0.3, trend=lambda x, y: 0.1 * x, normalizer=gs.normalizer.YeoJohnson, seed=2, mode_no=20)\n" % _mdl + _p, "_srf(pos)")
    P(S + "__call__", _o + ",seq of stores", "_srf = gs.SRF(%s, mean=0.3, seed=2, mode_no=20)\n" % _mdl + _p + "returned_a = _srf(pos, store='a')\nstored_a = _srf['a']", "_srf(pos, seed=9, store='b'); _srf(seed=10); _srf(pos, seed=11, store='a2', post_process=False)")
P(S + "__call__", "structured", "_srf = gs.SRF(gs.Gaussian(dim=2), mean=0.3, seed=2, mode_no=20)\npos = (A(np.arange(5.0)), A(np.arange(4.0)))", "_srf(pos, mesh_type='structured'); _srf.structured(pos)")
P(S + "__call__", "point_volumes array, coarse graining", "_srf = gs.SRF(gs.Gaussian(dim=2), upscaling='coarse_graining', seed=2, mode_no=20)\npos = A(rng.uniform(0, 10, (2, 14)))\npoint_volumes = A(rng.uniform(0.5, 2, 14))", "_srf(pos, point_volumes=point_volumes)")
P(S + "__call__", "IncomprRandMeth", "_srf = gs.SRF(gs.Gaussian(dim=2), generator='VectorField', seed=2, mode_no=20)\npos = A(rng.uniform(0, 10, (2, 14)))\nreturned_a = _srf(pos, store='a')", "_srf(pos, seed=4)")
P(S + "__call__", "Fourier", "period = A([10.0, 12.0])\n_srf = gs.SRF(gs.Gaussian(dim=2), generator='Fourier', period=period, mode_no=[8, 8], seed=2)\npos = A(rng.uniform(0, 10, (2, 14)))\nreturned_a = _srf(pos, store='a')", "_srf(pos, seed=4)")
P(S + "__init__", "array mean (vector)", "mean = A([1.0, 0.5])", "gs.SRF(gs.Gaussian(dim=2), mean=mean, generator='VectorField', mode_no=20)")

G = "field/generator.py:"
_ISO = "pos = A(rng.uniform(0, 10, (2, 14)))\n"
P(G + "RandMeth.__call__", "", "_g = gs.field.generator.RandMeth(gs.Gaussian(dim=2, nugget=0.1), mode_no=20, seed=1)\n" + _ISO, "_g(pos); _g(pos, add_nugget=False)")
P(G + "IncomprRandMeth.__call__", "", "_g = gs.field.generator.IncomprRandMeth(gs.Gaussian(dim=2, nugget=0.1), mode_no=20, seed=1)\n" + _ISO, "_g(pos)")
P(G + "Fourier.__call__", "", "period = A([10.0, 12.0])\nmode_no = np.array([8, 8])\n_g = gs.field.generator.Fourier(gs.Gaussian(dim=2, nugget=0.1), period, mode_no=mode_no, seed=1)\n" + _ISO, "_g(pos)")
P(G + "Fourier.update", "period/mode_no arrays", "period = A([10.0, 12.0])\nmode_no = np.array([8, 8])\n_g = gs.field.generator.Fourier(gs.Gaussian(dim=2), A([5.0, 5.0]), mode_no=[4, 4], seed=1)", "_g.update(period=period, mode_no=mode_no)")
P(G + "Fourier.__init__", "period / mode_no arrays + setters", "period = A([10.0, 12.0])\nmode_no = np.array([8, 8])\nperiod2 = A([9.0, 9.0])\nmode_no2 = np.array([4, 6])",
  "_g = gs.field.generator.Fourier(gs.Gaussian(dim=2), period, mode_no=mode_no, seed=1); _g.period = period2; _g.mode_no = mode_no2; _g.seed = 5; _g.reset_seed(6)",
  also=[G + "Fourier.period.setter", G + "Fourier.mode_no.setter", G + "Fourier.seed.setter", G + "Fourier.reset_seed"])
P(G + "RandMeth.update", "model anis array", "anis = A([0.5])\n_m = gs.Gaussian(dim=2, anis=anis)\nstored_anis = _m.anis\n_g = gs.field.generator.RandMeth(gs.Gaussian(dim=2), mode_no=20, seed=1)", "_g.update(_m, 5)")

K = "krige/base.py:Krige."
_COND = "cond_pos = A(rng.uniform(0, 10, (2, 7)))\ncond_val = A(rng.normal(1, 0.3, 7))\n"
_GRID = "pos = A(rng.uniform(0, 10, (2, 9)))\n"
P(K + "__init__", "ordinary", _COND, "gs.krige.Krige(gs.Gaussian(dim=2, len_scale=3), cond_pos, cond_val)")
P(K + "__init__", "mean+trend+normalizer", _COND + "cond_val = A(np.exp(cond_val))", "gs.krige.Krige(gs.Gaussian(dim=2, len_scale=3), cond_pos, cond_val, mean=0.5, trend=lambda x, y: 0.01 * x, normalizer=gs.normalizer.LogNormal)")
P(K + "__init__", "fit_normalizer+fit_variogram", "cond_pos = A(rng.uniform(0, 10, (2, 30)))\ncond_val = A(np.exp(rng.normal(0, 0.3, 30)))", "gs.krige.Krige(gs.Gaussian(dim=2, len_scale=3), cond_pos, cond_val, normalizer=gs.normalizer.BoxCox, fit_normalizer=True, fit_variogram=True)")
P(K + "__init__", "fit_variogram aniso", "cond_pos = A(rng.uniform(0, 10, (2, 30)))\ncond_val = A(rng.normal(0, 1, 30))", "gs.krige.Krige(gs.Gaussian(dim=2, len_scale=3, anis=0.5), cond_pos, cond_val, fit_variogram=True)")
P(K + "__init__", "ext_drift + cond_err arrays", _COND + "ext_drift = A(rng.normal(size=(1, 7)))\ncond_err = A(rng.uniform(0.01, 0.1, 7))", "gs.krige.Krige(gs.Gaussian(dim=2, len_scale=3), cond_pos, cond_val, ext_drift=ext_drift, cond_err=cond_err)")
P(K + "__init__", "nan in cond_val", _COND + "cond_val[2] = np.nan", "gs.krige.Krige(gs.Gaussian(dim=2, len_scale=3), cond_pos, cond_val)")
P(K + "__init__", "latlon", "cond_pos = A(np.stack([rng.uniform(-60, 60, 7), rng.uniform(-120, 120, 7)]))\ncond_val = A(rng.normal(1, 0.3, 7))", "gs.krige.Krige(gs.Gaussian(latlon=True, len_scale=800, geo_scale=gs.KM_SCALE), cond_pos, cond_val)")
_KR = _COND + "_k = gs.krige.Krige(gs.Gaussian(dim=2, len_scale=3, nugget=0.05), cond_pos, cond_val, mean=0.5, trend=0.2, normalizer=gs.normalizer.YeoJohnson, unbiased=%s)\n"
for _u in ("True", "False"):
    P(K + "__call__", "unbiased=%s" % _u, _KR % _u + _GRID, "_k(pos)")
    P(K + "__call__", "unbiased=%s,only_mean" % _u, _KR % _u + _GRID, "_k(pos, only_mean=True)")
    P(K + "__call__", "unbiased=%s,chunks,structured" % _u, _KR % _u + "pos = (A(np.arange(4.0)), A(np.arange(3.0)))", "_k(pos, mesh_type='structured', chunk_size=5)")
    P(K + "__call__", "unbiased=%s,seq of stores" % _u, _KR % _u + _GRID + "returned_f, returned_v = _k(pos, store=['a', 'av'])\nstored_f = _k['a']", "_k(pos, store=['b', 'bv']); _k(store=False); _k(post_process=False, store='c')")
    P(K + "get_mean", "unbiased=%s" % _u, _KR % _u + "stored_cond_val = _k.cond_val\nstored_cond_pos = _k.cond_pos", "_k.get_mean(); _k.get_mean(post_process=False)")
P(K + "__call__", "ext_drift", _COND + "ext_drift = A(rng.normal(size=(1, 9)))\n_k = gs.krige.ExtDrift(gs.Gaussian(dim=2, len_scale=3), cond_pos, cond_val, A(rng.normal(size=(1, 7))))\n" + _GRID, "_k(pos, ext_drift=ext_drift)")
P(K + "__call__", "universal drift", _COND + "_k = gs.krige.Universal(gs.Gaussian(dim=2, len_scale=3, anis=0.5, angles=0.3), cond_pos, cond_val, 'linear')\n" + _GRID, "_k(pos)")
P(K + "set_condition", "new values", _COND + "_k = gs.krige.Krige(gs.Gaussian(dim=2, len_scale=3), A(rng.uniform(0, 10, (2, 5))), A(rng.normal(size=5)))\ncond_err = A(rng.uniform(0.01, 0.1, 7))", "_k.set_condition(cond_pos, cond_val, cond_err=cond_err)")
P(K + "set_condition", "keeps old, stored arrays", _COND + "_k = gs.krige.Krige(gs.Gaussian(dim=2, len_scale=3), cond_pos, cond_val, mean=1.0, trend=0.5)\nstored_cond_val = _k.cond_val\nstored_cond_pos = _k.cond_pos", "_k.set_condition(fit_normalizer=False); _k.set_condition(cond_val=A(np.ones(7)), cond_pos=cond_pos)")
P(K + "cond_err.setter", "array", _COND + "_k = gs.krige.Krige(gs.Gaussian(dim=2, len_scale=3), cond_pos, cond_val)\ncond_err = A(rng.uniform(0.01, 0.1, 7))\n" + _GRID, "_k.cond_err = cond_err; _k.set_condition(); _k(pos)")
for _c, _extra in (("Simple", "mean=1.0"), ("Ordinary", "trend=0.3"), ("Detrended", "trend=lambda x, y: 0.1 * y")):
    P("krige/methods.py:%s.__init__" % _c, "", _COND + _GRID, "_k = gs.krige.%s(gs.Gaussian(dim=2, len_scale=3), cond_pos, cond_val, %s); _k(pos)" % (_c, _extra))
P("krige/methods.py:Universal.__init__", "callable drift", _COND + _GRID, "_k = gs.krige.Universal(gs.Gaussian(dim=2, len_scale=3), cond_pos, cond_val, [lambda x, y: x]); _k(pos)")
P("krige/methods.py:ExtDrift.__init__", "", _COND + _GRID + "ext_drift = A(rng.normal(size=7))", "_k = gs.krige.ExtDrift(gs.Gaussian(dim=2, len_scale=3), cond_pos, cond_val, ext_drift); _k(pos, ext_drift=A(rng.normal(size=9)))")
KT = "krige/tools.py:"
P(KT + "set_condition", "", _COND, "gs.krige.tools.set_condition(cond_pos, cond_val, 2)")
P(KT + "set_condition", "nan", _COND + "cond_val[0] = np.nan", "gs.krige.tools.set_condition(cond_pos, cond_val, 2)")
P(KT + "get_drift_functions", "quadratic", "pos = A(rng.uniform(0, 10, (2, 9)))", "[f(*pos) for f in gs.krige.tools.get_drift_functions(2, 'quad')]")

C = "field/cond_srf.py:CondSRF."
_CS = _COND + "_k = gs.krige.Krige(gs.Gaussian(dim=2, len_scale=3, nugget=%s), cond_pos, cond_val, mean=0.5, trend=0.2, normalizer=gs.normalizer.YeoJohnson)\n_cs = gs.CondSRF(_k, seed=4, mode_no=20)\n" + _GRID
for _nug in ("0.0", "0.1"):
    P(C + "__call__", "nugget=%s,first call" % _nug, _CS % _nug, "_cs(pos)")
    P(C + "__call__", "nugget=%s,reuse stored kriging fields" % _nug, _CS % _nug + "returned_c = _cs(pos)\nstored_raw_krige = _cs['raw_krige']\nstored_raw_field = _cs['raw_field']\nstored_krige_field = _k['field']\nstored_krige_var = _k['krige_var']",
      "_cs(seed=8); _cs(seed=9, store=['x', 'xr', 'xk']); _cs(seed=10, post_process=False, krige_store=False)")
    P(C + "__call__", "nugget=%s,krige field deleted then reuse" % _nug, _CS % _nug + "returned_c = _cs(pos)\nstored_raw_krige = _cs['raw_krige']\nstored_krige_var = _k['krige_var']\ndel _k['field']", "_cs(seed=8)")
    P(C + "__call__", "nugget=%s,structured" % _nug, (_CS % _nug).replace(_GRID, "pos = (A(np.arange(4.0)), A(np.arange(3.0)))\n"), "_cs(pos, mesh_type='structured'); _cs.structured(pos, seed=3)")
P(C + "set_pos", "", _CS % "0.0" + "returned_c = _cs(pos)\npos2 = A(rng.uniform(0, 10, (2, 5)))", "_cs.set_pos(pos2); _cs()")
P(C + "__init__", "", _COND + "_k = gs.krige.Krige(gs.Gaussian(dim=2, len_scale=3), cond_pos, cond_val)\nstored_cond_val = _k.cond_val", "gs.CondSRF(_k, seed=4, mode_no=20)")

# =============================================================================================
# CovModel
CM = "covmodel/base.py:CovModel."
_M = {
    "gauss3d rot": "gs.Gaussian(dim=3, var=2, len_scale=3, anis=[0.5, 0.2], angles=[0.3, 0.2, 0.1], nugget=0.1)",
    "matern2d": "gs.Matern(dim=2, var=2, len_scale=3, nu=1.5, anis=0.5, angles=0.4)",
    "latlon": "gs.Exponential(latlon=True, len_scale=700, geo_scale=gs.KM_SCALE)",
    "latlon temporal": "gs.Exponential(latlon=True, temporal=True, len_scale=700, anis=0.5, geo_scale=gs.KM_SCALE)",
    "tplstable 1d": "gs.TPLStable(dim=1, len_scale=4, hurst=0.6, alpha=1.3)",
}
_DIM = {"gauss3d rot": 3, "matern2d": 2, "latlon": 2, "latlon temporal": 3, "tplstable 1d": 1}
for _o, _mdl in _M.items():
    _d = _DIM[_o]
    _mk = "_m = %s\n" % _mdl
    _p = "pos = A(rng.uniform(-50, 50, (%d, 9)))\n" % _d
    P(CM + "isometrize", _o, _mk + _p, "_m.isometrize(pos)")
    _pi = "pos = A(rng.uniform(-1, 1, (%d, 9)))\n" % (_d if "latlon" not in _o else _d + 1)
    P(CM + "anisometrize", _o, _mk + _pi, "_m.anisometrize(pos)")
    if "latlon" not in _o:
        P(CM + "cov_spatial", _o, _mk + _p, "_m.cov_spatial(pos); _m.vario_spatial(pos); _m.cor_spatial(pos)", also=[CM + "vario_spatial", CM + "cor_spatial"])
        P(CM + "main_axes", _o, _mk + "stored_angles = _m.angles\nstored_anis = _m.anis", "_m.main_axes()")
        P(CM + "vario_axis", _o, _mk + "r = A(rng.uniform(0, 9, 8))", "[(_m.vario_axis(r, a), _m.cov_axis(r, a), _m.cor_axis(r, a)) for a in range(_m.dim)]", also=[CM + "cov_axis", CM + "cor_axis"])
    else:
        P(CM + "vario_yadrenko", _o, _mk + "zeta = A(rng.uniform(0, 3, 8))", "_m.vario_yadrenko(zeta); _m.cov_yadrenko(zeta); _m.cor_yadrenko(zeta)", also=[CM + "cov_yadrenko", CM + "cor_yadrenko"])
    P(CM + "vario_nugget", _o, _mk + "r = A(rng.uniform(0, 9, 8))\nr[0] = 0.0", "_m.variogram(r); _m.covariance(r); _m.correlation(r); _m.cor(r); _m.vario_nugget(r); _m.cov_nugget(r); _m.pykrige_vario(None, r)", also=[CM + "cov_nugget", CM + "pykrige_vario"])
    P(CM + "spectrum", _o, _mk + "k = A(rng.uniform(0.01, 2, 6))", "_m.spectrum(k); _m.spectral_density(k); _m.spectral_rad_pdf(k); _m.ln_spectral_rad_pdf(k)", tier="thorough" if "tpl" in _o else "quick", also=[CM + "spectral_density", CM + "spectral_rad_pdf", CM + "ln_spectral_rad_pdf", "covmodel/tools.py:spectral_rad_pdf"])
for _cls in ("Gaussian", "Exponential", "Matern", "Integral", "Stable", "Rational", "Cubic", "Linear", "Circular",
             "Spherical", "HyperSpherical", "SuperSpherical", "JBessel", "TPLGaussian", "TPLExponential", "TPLSimple"):
    P("covmodel/models.py:%s.cor" % _cls if not _cls.startswith("TPL") else "covmodel/tpl_models.py:%s.cor" % _cls,
      "cor/variogram", "_m = gs.%s(dim=2, len_scale=2.0)\nh = A(rng.uniform(0, 3, 8))\nh[0] = 0.0" % _cls,
      "_m.cor(h); _m.correlation(h); _m.variogram(h); _m.covariance(h)" + ("; _m.spectral_density(h)" if _cls in ("Gaussian", "Exponential", "Matern", "Integral", "HyperSpherical", "JBessel") else ""),
      tier="quick",
      also=(["covmodel/tpl_models.py:%s.correlation" % _cls, "covmodel/tpl_models.py:TPLCovModel.cor", "covmodel/tpl_models.py:TPLCovModel.correlation"] if _cls.startswith("TPL") else ["covmodel/models.py:%s.spectral_density" % _cls]))
for _cls in ("Gaussian", "Exponential"):
    P("covmodel/models.py:%s.spectral_rad_cdf" % _cls, "cdf/ppf", "_m = gs.%s(dim=2, len_scale=2.0)\nr = A(rng.uniform(0.01, 3, 8))\nu = A(rng.uniform(0.01, 0.99, 8))" % _cls,
      "_m.spectral_rad_cdf(r); _m.spectral_rad_ppf(u); _m.spectral_density(r)", also=["covmodel/models.py:%s.spectral_rad_ppf" % _cls])
P(CM + "__init__", "anis/angles/len_scale arrays", "anis = A([0.5, 0.25])\nangles = A([0.1, 0.2, 0.3])\nlen_scale = A([4.0, 2.0, 1.0])", "gs.Gaussian(dim=3, anis=anis, angles=angles); gs.Gaussian(dim=3, len_scale=len_scale, angles=angles)")
P(CM + "__init__", "latlon, anis array", "anis = A([0.5, 0.25])", "gs.Gaussian(latlon=True, anis=anis)")
P(CM + "__init__", "latlon+temporal, anis array", "anis = A([0.5, 0.25, 0.75])", "gs.Gaussian(latlon=True, temporal=True, anis=anis)")
P(CM + "__init__", "temporal, angles array", "angles = A([0.1, 0.2, 0.3])\nanis = A([0.5, 0.25])", "gs.Gaussian(temporal=True, spatial_dim=2, angles=angles, anis=anis)")
P(CM + "anis.setter", "plain", "anis = A([0.5, 0.25])\n_m = gs.Gaussian(dim=3)", "_m.anis = anis; _m.len_scale = 3.0; _m.dim = 2; _m.dim = 3")
P(CM + "anis.setter", "latlon", "anis = A([0.5, 0.25])\n_m = gs.Gaussian(latlon=True)", "_m.anis = anis")
P(CM + "anis.setter", "stored anis returned earlier", "_m = gs.Gaussian(dim=3, anis=[0.5, 0.25], angles=[0.1, 0.2, 0.3])\nreturned_anis = _m.anis\nreturned_angles = _m.angles", "_m.len_scale = 4.0; _m.integral_scale = 2.0; _m.dim = 3; _m.var = 2.0; _m.nugget = 0.1")
P(CM + "anis.setter", "stored anis, latlon+temporal", "_m = gs.Gaussian(latlon=True, temporal=True, anis=[1, 1, 0.5])\nreturned_anis = _m.anis", "_m.len_scale = 4.0; _m.integral_scale = 2.0")
P(CM + "angles.setter", "", "angles = A([0.1, 0.2, 0.3])\n_m = gs.Gaussian(dim=3)", "_m.angles = angles")
P(CM + "angles.setter", "temporal", "angles = A([0.1, 0.2, 0.3])\n_m = gs.Gaussian(temporal=True, spatial_dim=2)", "_m.angles = angles")
P(CM + "len_scale.setter", "array", "len_scale = A([4.0, 2.0, 1.0])\n_m = gs.Gaussian(dim=3)", "_m.len_scale = len_scale")
P(CM + "set_arg_bounds", "", "_b = A([0.0, 10.0])\nbounds = _b\n_m = gs.Gaussian(dim=2)", "_m.set_arg_bounds(var=list(bounds) + ['oo'])")
P(CM + "percentile_scale", "", "_m = gs.Gaussian(dim=2)\nstored_anis = _m.anis", "_m.percentile_scale(0.8); _m.calc_integral_scale()", also=["covmodel/tools.py:percentile_scale"])
P(CM + "__eq__", "", "_m = gs.Gaussian(dim=3, anis=[0.5, 0.25])\n_n = gs.Gaussian(dim=3, anis=[0.5, 0.25])\nstored_a = _m.anis\nstored_b = _n.anis", "_m == _n")

F = "covmodel/fit.py:"
_XY = "x_data = A(np.linspace(0.5, 9.5, 10))\ny_data = A(1.2 * (1 - np.exp(-(x_data / 3) ** 2)) + 0.05)\n"
P(F + "fit_variogram", "plain", _XY, "gs.Gaussian(dim=2).fit_variogram(x_data, y_data)")
P(F + "fit_variogram", "weights array", _XY + "weights = A(np.linspace(1, 2, 10))", "gs.Gaussian(dim=2).fit_variogram(x_data, y_data, weights=weights, return_r2=True)")
P(F + "fit_variogram", "weights inv, sill", _XY, "gs.Gaussian(dim=2).fit_variogram(x_data, y_data, weights='inv', sill=1.3, nugget=False)")
P(F + "fit_variogram", "directional, anis fitted", _XY + "y_data = A(np.stack([y_data, 0.9 * y_data]))\nweights = A(np.linspace(1, 2, 10))", "gs.Gaussian(dim=2).fit_variogram(x_data, y_data, weights=weights, return_r2=True)")
P(F + "fit_variogram", "anis array given", _XY + "anis = A([0.5])", "gs.Gaussian(dim=2).fit_variogram(x_data, y_data, anis=anis)")
P(F + "fit_variogram", "anis array given, latlon model", "x_data = A(np.linspace(50, 950, 10))\ny_data = A(1.2 * (1 - np.exp(-(x_data / 300) ** 2)) + 0.05)\nanis = A([0.5, 0.25])", "gs.Gaussian(latlon=True, geo_scale=gs.KM_SCALE).fit_variogram(x_data, y_data, anis=anis)")
P(F + "fit_variogram", "latlon model", "x_data = A(np.linspace(50, 950, 10))\ny_data = A(1.2 * (1 - np.exp(-(x_data / 300) ** 2)) + 0.05)", "gs.Gaussian(latlon=True, geo_scale=gs.KM_SCALE).fit_variogram(x_data, y_data)")
P(F + "fit_variogram", "init_guess dict with anis array", _XY + "y_data = A(np.stack([y_data, 0.9 * y_data]))\n_a = A([0.7])\nanis_guess = _a", "gs.Gaussian(dim=2).fit_variogram(x_data, y_data, init_guess={'anis': anis_guess, 'default': 'current'})")
P(F + "fit_variogram", "Matern, opt arg, loss", _XY, "gs.Matern(dim=2).fit_variogram(x_data, y_data, loss='linear', max_eval=200, nu=False)")
P(F + "fit_variogram", "module function", _XY, "from gstools.covmodel.fit import fit_variogram as _fv\n_fv(gs.Exponential(dim=2), x_data, y_data, var=1.0)")
P(CM + "fit_variogram", "returned estimate arrays", "pos = A(rng.uniform(0, 10, (2, 40)))\nfield = A(rng.normal(size=40))\nreturned_bins, returned_gamma = gs.vario_estimate(pos, field)", "gs.Gaussian(dim=2).fit_variogram(returned_bins, returned_gamma, nugget=False)")

CT = "covmodel/tools.py:"
P(CT + "set_len_anis", "plain", "len_scale = A([4.0])\nanis = A([0.5, 0.25])", "gs.covmodel.tools.set_len_anis(3, len_scale, anis)")
P(CT + "set_len_anis", "latlon", "len_scale = A([4.0])\nanis = A([0.5, 0.25])", "gs.covmodel.tools.set_len_anis(3, len_scale, anis, latlon=True)")
P(CT + "set_len_anis", "len_scale vector, latlon", "len_scale = A([4.0, 2.0, 1.0])\nanis = A([0.5, 0.25])", "gs.covmodel.tools.set_len_anis(3, len_scale, anis, latlon=True)")
P(CT + "set_model_angles", "plain/temporal/latlon", "angles = A([0.1, 0.2, 0.3])", "gs.covmodel.tools.set_model_angles(3, angles); gs.covmodel.tools.set_model_angles(3, angles, temporal=True); gs.covmodel.tools.set_model_angles(3, angles, latlon=True)")
P(CT + "rad_fac", "", "r = A(rng.uniform(0, 3, 8))", "[gs.covmodel.tools.rad_fac(d, r) for d in (1, 2, 3, 4)]")
P(CT + "spectral_rad_pdf", "", "r = A(rng.uniform(0, 3, 8))\nr[0] = 0.0\n_m = gs.Gaussian(dim=2)", "gs.covmodel.tools.spectral_rad_pdf(_m, r)")
P(CT + "check_arg_in_bounds", "", "val = A([0.5, 0.7])\n_m = gs.Gaussian(dim=3)", "gs.covmodel.tools.check_arg_in_bounds(_m, 'anis', val)")
P(CT + "compare", "", "_m = gs.Gaussian(dim=3, anis=[0.5, 0.25])\nstored_anis = _m.anis\nstored_angles = _m.angles", "gs.covmodel.tools.compare(_m, gs.Gaussian(dim=3))")

# =============================================================================================
# tools
TG = "tools/geometric.py:"
P(TG + "generate_grid", "", "pos = (A(np.arange(5.0)), A(np.arange(4.0)))", "gs.tools.generate_grid(pos)")
P(TG + "generate_grid", "single axis as 2d array", "pos = A(np.arange(5.0).reshape(1, 5))", "gs.tools.generate_grid(pos)")
P(TG + "generate_st_grid", "unstructured", "pos = A(rng.uniform(0, 9, (2, 5)))\ntime = A(np.arange(3.0))", "gs.tools.generate_st_grid(pos, time)")
P(TG + "generate_st_grid", "structured", "pos = (A(np.arange(5.0)), A(np.arange(4.0)))\ntime = A(np.arange(3.0))", "gs.tools.generate_st_grid(pos, time, mesh_type='structured')")
P(TG + "rotated_main_axes", "", "angles = A([0.1, 0.2, 0.3])", "gs.tools.rotated_main_axes(3, angles)")
P(TG + "matrix_rotate", "all matrix helpers", "angles = A([0.1, 0.2, 0.3])\nanis = A([0.5, 0.25])",
  "from gstools.tools import geometric as _g\n_g.matrix_rotate(3, angles); _g.matrix_derotate(3, angles); _g.matrix_isotropify(3, anis); _g.matrix_anisotropify(3, anis); _g.matrix_isometrize(3, angles, anis); _g.matrix_anisometrize(3, angles, anis); _g.set_angles(3, angles); _g.set_anis(3, anis); _g.givens_rotation(3, (0, 1), angles[0])",
  also=[TG + n for n in ("matrix_derotate", "matrix_isotropify", "matrix_anisotropify", "matrix_isometrize", "matrix_anisometrize", "set_angles", "set_anis", "givens_rotation")])
P(TG + "pos2latlon", "", "pos = A(rng.normal(size=(3, 6)))\npos /= np.linalg.norm(pos, axis=0)", "gs.tools.geometric.pos2latlon(pos); gs.tools.geometric.pos2latlon(pos, radius=2.0)")
P(TG + "pos2latlon", "temporal", "pos = A(rng.normal(size=(4, 6)))", "gs.tools.geometric.pos2latlon(pos, radius=10.0, temporal=True, time_scale=2.0)")
P(TG + "latlon2pos", "", "latlon = A(np.stack([rng.uniform(-60, 60, 6), rng.uniform(-120, 120, 6)]))", "gs.tools.geometric.latlon2pos(latlon); gs.tools.geometric.latlon2pos(latlon, radius=6371.0)")
P(TG + "latlon2pos", "temporal", "latlon = A(np.stack([rng.uniform(-60, 60, 6), rng.uniform(-120, 120, 6), np.arange(6.0)]))", "gs.tools.geometric.latlon2pos(latlon, temporal=True, time_scale=2.0)")
P(TG + "ang2dir", "2d/3d", "angles = A([[0.1], [0.3]])\nangles3 = A([[0.1, 0.2], [0.3, 0.4]])", "gs.tools.ang2dir(angles, dim=2); gs.tools.ang2dir(angles3); gs.tools.ang2dir(A([0.2]), dim=2)")
P(TG + "format_struct_pos_dim", "", "pos = (A(np.arange(5.0)), A(np.arange(4.0)))\npos1 = A(np.arange(5.0))", "gs.tools.geometric.format_struct_pos_dim(pos, 2); gs.tools.geometric.format_struct_pos_dim(pos1, 1)")
P(TG + "format_struct_pos_shape", "", "pos = (A(np.arange(5.0)), A(np.arange(4.0)))\npos_sq = A(np.stack([np.arange(4.0), np.arange(4.0)]))\npos1 = A(np.arange(5.0))",
  "from gstools.tools.geometric import format_struct_pos_shape as _f\n_f(pos, (5, 4)); _f(pos, (3, 5, 4), True); _f(pos_sq, (4, 4)); _f(pos_sq, (2, 4, 4), True); _f(pos1, (5,)); _f(pos1, (2, 5), True)")
P(TG + "format_unstruct_pos_shape", "", "pos = A(rng.uniform(0, 9, (2, 6)))\npos1 = A(np.arange(5.0))",
  "from gstools.tools.geometric import format_unstruct_pos_shape as _f\n_f(pos, (6,)); _f(pos, (3, 6), True); _f(pos1, (5,)); _f(pos1, (2, 5), True)")
P(TG + "chordal_to_great_circle", "", "dist = A(rng.uniform(0, 2, 6))", "gs.tools.geometric.chordal_to_great_circle(dist, 1.0); gs.tools.geometric.great_circle_to_chordal(dist, 2.0)", also=[TG + "great_circle_to_chordal"])
TM = "tools/misc.py:"
P(TM + "eval_func", "array value", "func_val = A([1.0, 2.0])\npos = A(rng.uniform(0, 9, (2, 6)))", "gs.tools.misc.eval_func(func_val, pos, 2, value_type='vector'); gs.tools.misc.eval_func(A([3.0]), pos, 2, broadcast=True)")
P(TM + "eval_func", "callable returning its argument", "pos = A(rng.uniform(0, 9, (2, 6)))", "gs.tools.misc.eval_func(lambda x, y: x, pos, 2)")
P(TM + "eval_func", "structured", "pos = (A(np.arange(5.0)), A(np.arange(4.0)))", "gs.tools.misc.eval_func(lambda x, y: x + y, pos, 2, mesh_type='structured'); gs.tools.misc.eval_func(2.0, pos, 2, mesh_type='structured')")
TS = "tools/special.py:"
P(TS + "inc_gamma", "special functions", "x = A(rng.uniform(0.1, 3, 6))",
  "from gstools.tools import special as _s\n_s.inc_gamma(1.5, x); _s.inc_gamma(-0.5, x); _s.inc_gamma(0.0, x); _s.inc_gamma_low(1.5, x); _s.exp_int(1.5, x); _s.inc_beta(1.5, 2.0, A(rng.uniform(0, 1, 6))); _s.tplstable_cor(x, 3.0, 0.5, 1.5); _s.tpl_exp_spec_dens(x, 2, 3.0, 0.5); _s.tpl_gau_spec_dens(x, 2, 3.0, 0.5); _s.confidence_scaling(0.9)",
  also=[TS + n for n in ("inc_gamma_low", "exp_int", "inc_beta", "tplstable_cor", "tpl_exp_spec_dens", "tpl_gau_spec_dens", "confidence_scaling")])
P("field/upscaling.py:var_coarse_graining", "", "point_volumes = A(rng.uniform(0.5, 2, 6))\n_m = gs.Gaussian(dim=2)", "gs.field.upscaling.var_coarse_graining(_m, point_volumes); gs.field.upscaling.var_no_scaling(_m, point_volumes)", also=["field/upscaling.py:var_no_scaling"])
P("random/rng.py:RNG.sample_sphere", "", "size = np.array([4])", "gs.random.RNG(3).sample_sphere(3, 5); gs.random.RNG(3).sample_ln_pdf(lambda x: -x ** 2, 6)", also=["random/rng.py:RNG.sample_ln_pdf"])

# =============================================================================================
# alias-table probes: the FRESH / VIEW classification of gsvc/frames_tables.py that the gstools
# sources rely on, checked with np.shares_memory on the aliasing layout
#   (expression, claimed) with claimed in {"fresh", "view"}; x, y = float64 C-contiguous arrays,
#   m = masked array, b = boolean mask
TABLE_CHECKS = [
    ("np.asarray(x, dtype=np.double)", "view"), ("np.asanyarray(x)", "view"),
    ("np.atleast_1d(x)", "view"), ("np.atleast_2d(x)", "view"), ("np.reshape(x, x.shape)", "view"),
    ("x.reshape(-1)", "view"), ("x.ravel()", "view"), ("np.squeeze(x)", "view"), ("x.T", "view"),
    ("x.swapaxes(0, 1)", "view"), ("x[1:]", "view"), ("x[0]", "view"), ("x[:, :2]", "view"),
    ("x[..., None]", "view"), ("np.ma.array(x)", "view"), ("np.ma.array(x, ndmin=3, dtype=np.double)", "view"),
    ("np.ma.asarray(x)", "view"), ("np.ma.array(m)", "view"), ("np.ma.array(m).mask", "mask-view"),
    ("np.ma.getmaskarray(m)", "mask-view"), ("np.ma.array(x).filled()", "view"), ("np.array(x, copy=False)", "view"),
    ("np.array(x, dtype=np.double, copy=None)", "view"), ("np.broadcast_to(x, x.shape)", "view"),
    ("x.real", "view"), ("np.diagonal(x)", "view"), ("x.flat", "flat"),
    ("np.array(x)", "fresh"), ("np.array(x, dtype=np.double)", "fresh"), ("np.array(x, ndmin=2, dtype=np.double)", "fresh"),
    ("x.copy()", "fresh"), ("np.ma.array(x, copy=True)", "fresh"), ("np.ma.array(m, ndmin=2, dtype=np.double, copy=True)", "fresh+mask"),
    ("x.astype(np.double)", "fresh"), ("x + 0", "fresh"), ("x * 1.0", "fresh"), ("-x", "fresh"), ("np.abs(x)", "fresh"),
    ("np.add(x, 0)", "fresh"), ("np.divide(x, 1.0)", "fresh"), ("np.multiply(x, 1)", "fresh"), ("np.power(x, 1)", "fresh"),
    ("x[b]", "fresh"), ("x[[0, 1]]", "fresh"), ("x[:, b[0]]", "fresh"), ("x[np.array([0, 1])]", "fresh"),
    ("np.concatenate((x, y))", "fresh"), ("np.concatenate((x,))", "fresh"), ("np.stack([x])", "fresh"),
    ("np.vstack((x,))", "fresh"), ("np.pad(x.ravel(), (0, 0), 'constant', constant_values=0.0)", "fresh"),
    ("np.pad(x.ravel(), (0, 0), 'edge')", "fresh"), ("np.tile(x, 1)", "fresh"), ("np.repeat(x, 1)", "fresh"),
    ("np.dot(np.eye(x.shape[0]), x)", "fresh"), ("np.matmul(np.eye(x.shape[0]), x)", "fresh"),
    ("np.full_like(x, 0.0)", "fresh"), ("np.zeros_like(x)", "fresh"), ("np.empty_like(x)", "fresh"),
    ("np.sort(x)", "fresh"), ("np.maximum(x, -np.inf)", "fresh"), ("np.minimum(x, np.inf)", "fresh"),
    ("np.asarray(np.meshgrid(*x, indexing='ij'), dtype=np.double)", "fresh"), ("np.meshgrid(x[0], x[1], indexing='ij')[0]", "fresh"),
    ("np.asarray([x[0], x[1]], dtype=np.double)", "fresh"), ("np.asarray((x[0],), dtype=np.double)", "fresh"),
    ("np.deg2rad(x)", "fresh"), ("np.rad2deg((x[0], x[1]), dtype=np.double)", "fresh"), ("np.exp(x)", "fresh"),
    ("np.log(np.abs(x) + 1)", "fresh"), ("np.sqrt(np.abs(x))", "fresh"), ("np.sign(x)", "fresh"),
    ("np.logical_not(b)", "fresh"), ("np.logical_or(b, b)", "fresh"), ("np.invert(b)", "fresh"), ("np.isnan(x)", "fresh"),
    ("np.isclose(x, 0)", "fresh"), ("np.linalg.norm(x, axis=0)", "fresh"), ("np.insert(x.ravel(), 0, 1.0)", "fresh"),
    ("np.diag(x.ravel())", "fresh"), ("np.mean(x, axis=1)", "fresh"), ("np.prod(x, axis=1)", "fresh"),
    ("np.cos(x)", "fresh"), ("np.arctan2(x, x)", "fresh"), ("np.arcsin(np.clip(x, -1, 1))", "fresh"),
    ("np.ones_like(x)", "fresh"), ("np.expm1(x)", "fresh"), ("np.log1p(np.abs(x))", "fresh"),
    ("__import__('scipy.special').special.erf(x)", "fresh"), ("__import__('scipy.linalg').linalg.pinv(np.eye(3))", "fresh"),
    ("__import__('scipy.spatial.distance').spatial.distance.cdist(x.T, x.T)", "fresh"),
    ("__import__('copy').copy(x)", "fresh"), ("__import__('copy').deepcopy(x)", "fresh"),
    ("m.filled()", "fresh"), ("m[:, b[0]].filled()", "fresh"), ("np.ma.array(x, mask=b)", "mask-kw"),
]
TABLE_PROBE = {
    "id": "alias-table", "entry": "<alias-table>", "opts": "np.shares_memory on float64 C-contiguous (3,3)",
    "setup": "_checks = %r\n" % (TABLE_CHECKS,),
    "call": (
        "_bad = []\n"
        "for _e, _c in _checks:\n"
        "    x = A(rng.normal(size=(3, 3))); y = A(rng.normal(size=(3, 3)))\n"
        "    b = np.array([[True, False, True]] * 3)\n"
        "    m = np.ma.array(A(rng.normal(size=(3, 3))), mask=b.copy())\n"
        "    try:\n"
        "        _r = eval(_e)\n"
        "    except Exception as _ex:\n"
        "        _bad.append((_e, 'error ' + repr(_ex))); continue\n"
        "    if _c == 'flat':\n"
        "        continue\n"
        "    if _c == 'mask-view':\n"
        "        _sh = np.shares_memory(np.asarray(_r), np.ma.getmaskarray(m)) or np.shares_memory(np.asarray(_r), m.mask)\n"
        "        continue\n"
        "    if _c == 'mask-kw':\n"
        "        continue\n"
        "    _src = [x, y, np.ma.getdata(m), np.ma.getmaskarray(m), b]\n"
        "    _parts = [np.ma.getdata(_r), np.ma.getmaskarray(_r)] if isinstance(_r, np.ma.MaskedArray) else [np.asarray(_r)]\n"
        "    _sh = any(np.shares_memory(p, s) for p in _parts for s in _src)\n"
        "    if _c.startswith('fresh') and _sh:\n"
        "        _bad.append((_e, 'claimed fresh but shares memory'))\n"
        "if _bad:\n"
        "    raise AssertionError('alias table refuted: %r' % (_bad,))\n"),
    "tier": "quick",
}

# =============================================================================================
# numpy MaskedArray mask-sharing semantics assumed by the engine (gsvc/frames_tables.py:
# ARR_UNSHARE_METHODS, NP_NEWOBJ_VIEW, ARR_NEWOBJ_VIEW_METHODS), confirmed natively:
#   (a) `.mask =` on a copy=False masked view writes the mask of the source array
#   (b) after unshare_mask() the mask is private but the DATA is still shared
#   (c) unshare_mask() on one view does not unshare another view of the same array
#   (d) every construction the engine treats as "new array object" makes unshare_mask() effective
#   (e) functions that may return the very same object (asanyarray, atleast_nd ...) do not
MASK_NEWOBJ = [
    "np.ma.array(p)", "np.ma.array(p, ndmin=1, dtype=np.double)", "np.ma.masked_array(p)",
    "np.ma.asarray(p)", "np.reshape(p, p.shape)", "np.ravel(p)", "np.transpose(p)",
    "np.swapaxes(p, 0, 1)", "np.squeeze(p)", "p.reshape(-1)", "p.ravel()", "p.squeeze()",
    "p.transpose()", "p.swapaxes(0, 1)", "p.view()", "p.T", "p[1:]", "p[0]", "p[:, 1:3]",
    "np.ma.array(p)[1:].reshape(-1)",
]
MASK_SAMEOBJ = ["np.ma.asanyarray(p)", "np.asanyarray(p)", "np.atleast_1d(p)", "np.atleast_2d(p)"]
MASK_PROBE = {
    "id": "mask-semantics", "entry": "<alias-table>", "opts": "MaskedArray.unshare_mask / shared mask semantics",
    "setup": "_new = %r\n_same = %r\n" % (MASK_NEWOBJ, MASK_SAMEOBJ),
    "call": (
        "_bad = []\n"
        "def _mk():\n"
        "    return np.ma.array(A(np.arange(12.0).reshape(3, 4)), mask=np.zeros((3, 4), bool))\n"
        "# (a)\n"
        "p = _mk(); a = np.ma.array(p, ndmin=1, dtype=np.double); a.mask = True\n"
        "if not p.mask.all(): _bad.append('(a) .mask= on copy=False view did not write the source mask')\n"
        "# (b)\n"
        "p = _mk(); a = np.ma.array(p); a.unshare_mask(); a.mask = True; a[0, 0] = 99.0; a += 1.0\n"
        "if p.mask.any(): _bad.append('(b) mask written after unshare_mask')\n"
        "if p.data[0, 0] != 100.0: _bad.append('(b) data not shared after unshare_mask')\n"
        "# (c)\n"
        "p = _mk(); a = np.ma.array(p); b = np.ma.array(p); a.unshare_mask(); b.mask = True\n"
        "if not p.mask.all(): _bad.append('(c) unshare on a also unshared b')\n"
        "# (d)\n"
        "for _e in _new:\n"
        "    p = _mk(); r = eval(_e)\n"
        "    if r is p: _bad.append('(d) same object: ' + _e); continue\n"
        "    r.unshare_mask(); r.mask = True\n"
        "    if np.ndim(r) and r.size: r.mask[...] = True\n"
        "    if p.mask.any(): _bad.append('(d) unshare_mask not effective for ' + _e)\n"
        "    p = _mk(); r = eval(_e); r.mask = True\n"
        "    if not p.mask.any(): _bad.append('(d) view does not share the mask: ' + _e)\n"
        "# (e)\n"
        "for _e in _same:\n"
        "    p = _mk(); r = eval(_e)\n"
        "    if r is not p: _bad.append('(e) new object (table could be sharpened): ' + _e)\n"
        "# views taken after unshare share only the private mask\n"
        "p = _mk(); a = np.ma.array(p); a.unshare_mask(); b = a.reshape(-1); b.mask = True; c = a[1:]; c.mask = True\n"
        "if p.mask.any(): _bad.append('view of unshared array writes the source mask')\n"
        "if [x for x in _bad if not x.startswith('(e) new object')]:\n"
        "    raise AssertionError('masked array semantics refuted: %r' % (_bad,))\n"),
    "tier": "quick", "also": [],
}
TABLE_PROBES = [TABLE_PROBE, MASK_PROBE]
