r"""C11 -- seeded field generation is deterministic and local.

Obligations (DESIGN 6-C11):
  * pointwise definition of the generators' output (kernel postcondition + wrapper), hence
    independence of point order, batching, other requested points, mesh type, storage name;
  * state = function of (seed VALUE, model view, settings): after every public mutator the
    generator equals a freshly constructed one (Inv preservation => all call histories);
  * equal seed values give equal results whatever the identity of the seed object, including the
    position in the random stream (nugget noise).
Random draws are ghost terms (contracts/gen_common.py).
"""
import warnings

import numpy as np

import gstools as gs
from gsvc.contract import contract
from gsvc import symrun
from contracts import gen_common as gc
from gstools.field.generator import RandMeth, IncomprRandMeth, Fourier

P = "C11"
gc.install()


def _q(f, *a, **k):
    with warnings.catch_warnings():
        warnings.simplefilter("ignore")
        return f(*a, **k)


def sym_model(ctx, dim, tag="", nugget=True, generic=True, aniso=True):
    # generic: uninterpreted correlation/spectrum (MCMC radius sampling branch);
    # Gaussian: a shipped class with cdf/ppf (inversion sampling branch)
    U = gc.generic_model_class(ctx) if generic else gs.Gaussian
    v, l = ctx.real(tag + "var", pos=True), ctx.real(tag + "len", pos=True)
    ctx.require(ctx.And(ctx.gt(v, 0), ctx.gt(l, 0)))
    kw = {}
    if nugget:
        n = ctx.real(tag + "nug", nonneg=True)
        ctx.require(ctx.ge(n, 0))
        kw["nugget"] = n
    if aniso and dim > 1:
        anis = ctx.reals(tag + "anis", dim - 1, pos=True)
        for r in anis:
            ctx.require(ctx.gt(r, 0))
        kw["anis"] = anis
        kw["angles"] = ctx.reals(tag + "ang", dim * (dim - 1) // 2, angle=True)
    return _q(U, dim=dim, var=v, len_scale=l, **kw)


def model_view(m):
    return {"dim": m.dim, "var": m.var, "nugget": m.nugget, "len_scale": m.len_scale,
            "rescale": m.rescale, "anis": m.anis, "angles": m.angles,
            "opt": [getattr(m, k) for k in m.opt_arg], "cls": type(m).__name__}


def gen_view(g, probe_noise=True):
    """observable state of a generator; the next nugget draw stands for the stream position"""
    v = {"model": model_view(g.model), "mode_no": list(np.atleast_1d(g.mode_no)),
         "z1": g._z_1, "z2": g._z_2}
    if isinstance(g, Fourier):
        v.update(modes=g._modes, sf=g._spectrum_factor, period=g._period, delta_k=g._delta_k)
    else:
        v.update(cov=g._cov_sample, sampling=g.sampling)
    if probe_noise:
        v["next_draw"] = g._rng.random.normal(size=2)
    return v


def views_equal(ctx, a, b):
    cs = []
    for k in sorted(set(a) | set(b)):
        if k not in a or k not in b:
            return False
        x, y = a[k], b[k]
        if k == "model":
            for kk in x:
                if kk in ("cls", "dim"):
                    cs.append(x[kk] == y[kk])
                elif np.size(x[kk]) or np.size(y[kk]):
                    cs.append(np.shape(x[kk]) == np.shape(y[kk]) and ctx.eq(x[kk], y[kk]))
            continue
        if isinstance(x, (str, type(None))) or isinstance(y, (str, type(None))):
            cs.append(x == y)
        elif np.shape(x) != np.shape(y):
            cs.append(False)
        elif np.size(x):
            cs.append(ctx.eq(x, y))
    return ctx.And(*cs)


FN_RM = ["field/generator.py:RandMeth.__init__", "field/generator.py:RandMeth.update",
         "field/generator.py:RandMeth.reset_seed", "field/generator.py:RandMeth.seed",
         "field/generator.py:RandMeth.mode_no", "field/generator.py:RandMeth.model",
         "random/rng.py:RNG.sample_sphere", "covmodel/tools.py:compare"]


# ---------------------------------------------------------------------------------------
# pointwise definition and locality
# ---------------------------------------------------------------------------------------
@contract(P, "RandMeth.__call__/pointwise-definition",
          params=[{"dim": d, "N": n, "X": x} for d in (1, 2, 3) for n in (1, 2) for x in (1, 2)],
          functions=["field/generator.py:RandMeth.__call__", "field/generator.py:RandMeth.get_nugget",
                     "field/generator.py:_summate"],
          bounded="modes N<=2, points X<=2 (wrapper only; the kernel sum is proved for all N, X in C15)")
def randmeth_pointwise(ctx, dim, N, X):
    m = ctx.m
    mod = sym_model(ctx, dim, aniso=False)
    s = ctx.integer("seed", lo=1, hi=1000)
    g = _q(RandMeth, mod, mode_no=N, seed=s)
    pos = np.array([[ctx.real("x%d_%d" % (d, i)) for i in range(X)] for d in range(dim)], dtype=object)
    if ctx.mode == "conc":
        pos = pos.astype(float)
    z1, z2, k = g._z_1, g._z_2, g._cov_sample
    out = g(pos, add_nugget=False)
    ctx.ensure("shape", ctx.shape_eq(out, (X,)))
    for i in range(X):
        acc = 0
        for j in range(N):
            ph = sum(k[d, j] * pos[d, i] for d in range(dim))
            acc = acc + z1[j] * m.cos(ph) + z2[j] * m.sin(ph)
        ctx.ensure("value[%d]" % i, ctx.eq(out[i], m.sqrt(mod.var / N) * acc))
    # locality: the value at a location does not depend on the other requested points,
    # their order or the batch it is evaluated in
    if X == 2:
        rev = g(pos[:, ::-1], add_nugget=False)
        ctx.ensure("order-independent", ctx.eq(rev[::-1], out))
        for i in range(X):
            single = g(pos[:, i:i + 1], add_nugget=False)
            ctx.ensure("subset-independent[%d]" % i, ctx.eq(single[0], out[i]))
    # nugget: sqrt(nugget) * fresh standard normal draws, only when nugget > 0
    noise = g(pos, add_nugget=True) - out
    ctx.ensure("nugget-zero=>no-noise", ctx.Implies(ctx.eq(mod.nugget, 0), ctx.eq(noise, np.zeros(X))))


@contract(P, "SRF.__call__/mesh-type-and-storage-independent", params={"dim": [1, 2]},
          functions=["field/srf.py:SRF.__call__", "field/base.py:Field.pre_pos", "field/base.py:Field.post_field",
                     "tools/geometric.py:generate_grid"],
          bounded="2 x 2 grid, N = 2 modes")
def srf_mesh(ctx, dim):
    mod = sym_model(ctx, dim, nugget=False)
    s = ctx.integer("seed", lo=1, hi=1000)
    srf = _q(gs.SRF, mod, seed=s, mode_no=2)
    axes = [[ctx.real("g%d_%d" % (d, i)) for i in range(2)] for d in range(dim)]
    st = srf.structured(axes if dim > 1 else [axes[0]], store="a")
    st2 = srf.structured(axes if dim > 1 else [axes[0]], store="b")
    ctx.ensure("storage-name-irrelevant", ctx.And(ctx.eq(srf["a"], srf["b"]), ctx.eq(st, st2)))
    grid = np.array(np.meshgrid(*axes, indexing="ij"), dtype=object).reshape(dim, -1)
    if ctx.mode == "conc":
        grid = grid.astype(float)
    un = srf.unstructured(grid if dim > 1 else [list(grid[0])], store="c")
    ctx.ensure("structured=unstructured-on-grid", ctx.eq(np.reshape(st, -1), un))
    again = srf.unstructured(grid if dim > 1 else [list(grid[0])], store=False)
    ctx.ensure("repeatable-without-nugget", ctx.eq(again, un))


@contract(P, "SRF.__call__/store-and-post_process-options-act-independently",
          params={"store": [True, False, "n"], "post": [True, False]},
          functions=["field/srf.py:SRF.__call__", "field/base.py:Field.post_field", "field/base.py:Field.get_store_config"],
          bounded="2 points, 1-D, N = 2 modes")
def srf_store_post(ctx, store, post):
    """the value at a location does not depend on the storage option: `store` decides only whether / under which
    name the result is kept, `post_process` only whether mean (normalizer, trend) are applied"""
    mod = sym_model(ctx, 1, nugget=False)
    s = ctx.integer("seed", lo=1, hi=1000)
    mu = ctx.real("mean", lo=0.5, hi=2.0)
    ctx.require(ctx.ne(mu, 0))
    srf = _q(gs.SRF, mod, mean=mu, seed=s, mode_no=2)
    ref = _q(gs.SRF, mod, mean=0.0, seed=s, mode_no=2)
    x = [[ctx.real("x0", lo=-2, hi=2), ctx.real("x1", lo=-2, hi=2)]]
    raw = ref(x, store=False)
    got = srf(x, store=store, post_process=post)
    want = raw + mu if post else raw
    ctx.ensure("returned=raw(+mean-iff-post_process)", ctx.eq(got, want))
    name = "n" if store == "n" else "field"
    if store is False:
        ctx.ensure("nothing-stored", srf.field_names == [])
    else:
        ctx.ensure("stored-under-the-requested-name", srf.field_names == [name] and ctx.eq(srf[name], want))


@contract(P, "SRF.__call__/independent-of-previously-requested-positions", params={"dim": [1, 2], "mesh": ["unstructured", "structured"]},
          functions=["field/srf.py:SRF.__call__", "field/base.py:Field.pre_pos", "field/base.py:Field.set_pos",
                     "field/base.py:_pos_equal"], bounded="1-2 points per call, N = 2 modes", nsamples=2, search=30)
def srf_pos_history(ctx, dim, mesh):
    """for nugget-free models the value at a location does not depend on what was generated
    before -- in particular not on whether the new positions are numerically close to the old"""
    mod = sym_model(ctx, dim, nugget=False, aniso=False)
    s = ctx.integer("seed", lo=1, hi=1000)
    srf = _q(gs.SRF, mod, seed=s, mode_no=2)
    fresh = _q(gs.SRF, mod, seed=s, mode_no=2)
    p1 = [[ctx.real("p%d" % d, lo=-2, hi=2)] for d in range(dim)]
    # second request: arbitrary other positions (the solver may place them arbitrarily close to p1)
    p2 = [[ctx.real("q%d" % d, lo=-2, hi=2)] for d in range(dim)]
    if ctx.mode == "conc":
        import random
        if random.Random(int(s)).random() < 0.5:        # natively: half of the samples inside allclose
            p2 = [[p1[d][0] * (1 + 3e-6) + 2e-9] for d in range(dim)]
    srf(p1, mesh_type=mesh)
    got = srf(p2, mesh_type=mesh)
    exp = fresh(p2, mesh_type=mesh)
    ctx.ensure("second-call=fresh-object", ctx.eq(got, exp))
    ctx.ensure("positions-stored=requested", ctx.eq(np.array(srf.pos, dtype=object).reshape(-1) if ctx.mode == "sym"
                                                     else np.array(srf.pos, dtype=float).reshape(-1),
                                                     np.array(p2, dtype=object if ctx.mode == "sym" else float).reshape(-1)))


# ---------------------------------------------------------------------------------------
# state = function of (seed value, model, settings): every mutator yields the fresh state
# ---------------------------------------------------------------------------------------
PARAMS = ["var", "len_scale", "nugget", "anis", "angles", "rescale"]


def _isclose(ctx, old, new):
    """numpy.isclose(old, new) as used by covmodel.tools.compare(generator copy, new model)"""
    return ctx.le(ctx.m.abs(old - new), 1e-8 + 1e-5 * ctx.m.abs(new))


def _changed_model(ctx, mod, what, dim, tol="beyond"):
    """a model equal to `mod` except for one parameter; tol='beyond': the change exceeds the
    isclose tolerance of CovModel.__eq__, tol='within': it does not (but is a change)"""
    U = type(mod)
    old = {"anis": lambda: mod.anis[0], "angles": lambda: mod.angles[0]}.get(what, lambda: getattr(mod, what))()
    kw = dict(dim=dim, var=mod.var, len_scale=mod.len_scale, nugget=mod.nugget, anis=list(mod.anis),
              angles=list(mod.angles), rescale=mod.rescale)
    x = ctx.real("new_" + what, pos=(what not in ("angles",)))
    if what in ("var", "len_scale", "rescale"):
        ctx.require(ctx.gt(x, 0))
        kw[what] = x
    elif what == "nugget":
        ctx.require(ctx.ge(x, 0))
        kw[what] = x
    elif what == "anis":
        ctx.require(ctx.gt(x, 0))
        kw["anis"] = [x] + list(mod.anis[1:])
    elif what == "angles":
        kw["angles"] = [x] + list(mod.angles[1:])
    if tol == "beyond":
        ctx.require(ctx.Not(_isclose(ctx, old, x)))
    else:
        ctx.require(ctx.And(_isclose(ctx, old, x), ctx.ne(old, x)))
    return _q(U, **kw), x


CHG = [{"dim": d, "what": w, "tol": t, "kind": k}
       for d in (1, 2) for w in PARAMS if not (d == 1 and w in ("anis", "angles"))
       for t in ("beyond", "within") for k in ("generic", "Gaussian")]


@contract(P, "RandMeth.update[model]/equals-fresh-generator", params=CHG, functions=FN_RM, nsamples=1, search=20)
def randmeth_update_model(ctx, dim, what, tol, kind):
    mod = sym_model(ctx, dim, generic=(kind == "generic"))
    s = ctx.integer("seed", lo=1, hi=1000)
    g = _q(RandMeth, mod, mode_no=2, seed=s)
    mod2, x = _changed_model(ctx, mod, what, dim, tol)
    g.update(mod2)
    fresh = _q(RandMeth, mod2, mode_no=2, seed=s)
    ctx.ensure("state=fresh(seed,new-model)", views_equal(ctx, gen_view(g), gen_view(fresh)))


def _opt_model_class(ctx):
    """generic user model with one optional argument `shape` (as Stable.alpha, Matern.nu, TPL hurst ...)"""
    U = gc.generic_model_class(ctx)

    class UOpt(U):
        def default_opt_arg(self):
            return {"shape": 1.5}

        def default_opt_arg_bounds(self):
            return {"shape": [0.0, 10.0, "oo"]}
    return UOpt


@contract(P, "Generator.update[model]/optional-argument-change-equals-fresh-generator",
          params=[{"gen": g, "dim": d, "how": h} for g in ("RandMeth", "Fourier") for d in (1, 2) for h in ("new-object", "in-place")],
          functions=FN_RM + ["covmodel/tools.py:compare", "covmodel/base.py:CovModel.__eq__"], nsamples=1, search=20)
def update_optional_arg(ctx, gen, dim, how):
    """a model that differs from the generator's copy only in an OPTIONAL argument is a changed model
    (`CovModel.__eq__` compares every parameter, optional ones included)"""
    U = _opt_model_class(ctx)
    v, l = ctx.real("var", pos=True), ctx.real("len", pos=True)
    a, b = ctx.real("shape", lo=0.5, hi=3.0), ctx.real("shape2", lo=3.5, hi=6.0)
    ctx.require(ctx.And(ctx.gt(v, 0), ctx.gt(l, 0), ctx.gt(a, 0), ctx.lt(a, 10), ctx.gt(b, 0), ctx.lt(b, 10)))
    ctx.require(ctx.Not(_isclose(ctx, a, b)))
    mod = _q(U, dim=dim, var=v, len_scale=l, shape=a)
    mod2 = _q(U, dim=dim, var=v, len_scale=l, shape=b)
    ctx.ensure("models-differ", ctx.And(bool(mod != mod2), not bool(mod == mod2)))
    s = ctx.integer("seed", lo=1, hi=1000)
    if gen == "RandMeth":
        mk = lambda m_: _q(RandMeth, m_, mode_no=2, seed=s)          # noqa: E731
    else:
        per = ctx.reals("per", dim, pos=True)
        for p in per:
            ctx.require(ctx.gt(p, 0))
        mk = lambda m_: _q(Fourier, m_, period=per, mode_no=[2] * dim, seed=s)      # noqa: E731
    g = mk(mod)
    if how == "new-object":
        g.update(mod2)
    else:
        mod.shape = b
        g.update(mod)
    ctx.ensure("state=fresh(seed,new-model)", views_equal(ctx, gen_view(g), gen_view(mk(mod2))))


@contract(P, "RandMeth.update[seed]/equals-fresh-generator", params={"dim": [1, 2], "how": ["update", "setter", "reset_seed"]},
          functions=FN_RM, nsamples=1, search=20)
def randmeth_update_seed(ctx, dim, how):
    mod = sym_model(ctx, dim)
    s, s2 = ctx.integer("seed", lo=1, hi=1000), ctx.integer("seed2", lo=1001, hi=2000)
    g = _q(RandMeth, mod, mode_no=2, seed=s)
    if how == "update":
        g.update(seed=s2)
    elif how == "setter":
        g.seed = s2
    else:
        g.reset_seed(s2)
    fresh = _q(RandMeth, mod, mode_no=2, seed=s2)
    ctx.ensure("state=fresh(new-seed,model)", views_equal(ctx, gen_view(g), gen_view(fresh)))


@contract(P, "RandMeth.mode_no.setter/equals-fresh-generator", params={"dim": [1, 2]}, functions=FN_RM, nsamples=1, search=20)
def randmeth_mode_no(ctx, dim):
    mod = sym_model(ctx, dim)
    s = ctx.integer("seed", lo=1, hi=1000)
    g = _q(RandMeth, mod, mode_no=2, seed=s)
    g.mode_no = 3
    fresh = _q(RandMeth, mod, mode_no=3, seed=s)
    ctx.ensure("state=fresh(seed,model,new-mode_no)", views_equal(ctx, gen_view(g), gen_view(fresh)))
    g.mode_no = 2
    ctx.ensure("restored", views_equal(ctx, gen_view(g), gen_view(_q(RandMeth, mod, mode_no=2, seed=s))))


@contract(P, "RandMeth.seed/value-semantics", params={"dim": [1], "via": ["setter", "update", "srf-call"]},
          functions=["field/generator.py:RandMeth.seed", "field/generator.py:RandMeth.update", "field/srf.py:SRF.__call__"],
          nsamples=1, search=20)
def seed_identity(ctx, dim, via):
    """two histories that differ only in the IDENTITY of an equal-valued seed object end in the
    same state, including the position in the random stream (next nugget noise)"""
    mod = sym_model(ctx, dim)
    ctx.require(ctx.gt(mod.nugget, 0))
    s = ctx.integer("seed", lo=1, hi=1000)
    same_obj = s
    if ctx.mode == "sym":
        equal_obj = symrun.SymReal(s.t)          # equal value, distinct object
    else:
        s = same_obj = int(s) + 10 ** 6      # ints > 256 are not interned
        equal_obj = int(str(s))
    x = [[0.0, 1.0]] if dim == 1 else [[0.0, 1.0]] * dim
    res = []
    for seed2 in (same_obj, equal_obj):
        if via == "srf-call":
            srf = _q(gs.SRF, mod, mode_no=2, seed=s)
            srf(x, seed=s)                      # draws nugget noise: stream advances
            res.append(srf(x, seed=seed2))
        else:
            g = _q(RandMeth, mod, mode_no=2, seed=s)
            g(np.array(x, dtype=float))         # draws nugget noise
            if via == "setter":
                g.seed = seed2
            else:
                g.update(seed=seed2)
            res.append(g(np.array(x, dtype=float)))
    ctx.ensure("same-value=>same-result", ctx.eq(res[0], res[1]))


@contract(P, "SRF.__call__/in-place-model-change-equals-fresh",
          params=[dict(c, next="pos") for c in CHG if c["what"] != "nugget"] +
                 [dict(c, next=nx) for c in CHG if c["what"] in ("anis", "angles", "len_scale") and c["tol"] == "beyond"
                  and c["kind"] == "generic" for nx in ("reuse", "reuse-structured")],
          functions=["field/srf.py:SRF.__call__", "field/generator.py:RandMeth.update", "covmodel/tools.py:compare",
                     "field/base.py:Field.pre_pos"],
          nsamples=1, search=20, timeout=120)
def srf_inplace(ctx, dim, what, tol, kind, next):
    """next=reuse: the second call reuses the stored positions (`srf()` without `pos`): they are transformed
    with the model as it is NOW (no stale isometrised positions)"""
    mod = sym_model(ctx, dim, nugget=False, generic=(kind == "generic"))
    s = ctx.integer("seed", lo=1, hi=1000)
    srf = _q(gs.SRF, mod, seed=s, mode_no=2)
    x = [[0.25, 1.5]] * dim
    mesh = "structured" if next == "reuse-structured" else "unstructured"
    srf(x, mesh_type=mesh)
    mod2, v = _changed_model(ctx, mod, what, dim, tol)
    # the documented in-place change of the field's own model
    if what == "anis":
        srf.model.anis = [v] + list(mod.anis[1:])
    elif what == "angles":
        srf.model.angles = [v] + list(mod.angles[1:])
    else:
        setattr(srf.model, what, v)
    got = srf(x) if next == "pos" else srf(mesh_type=mesh)
    fresh = _q(gs.SRF, mod2, seed=s, mode_no=2)(x, mesh_type=mesh)
    ctx.ensure("field=fresh-generator-field", ctx.And(ctx.shape_eq(got, np.shape(fresh)), ctx.eq(got, fresh)))


# ---------------------------------------------------------------------------------------
# Fourier generator
# ---------------------------------------------------------------------------------------
FN_F = ["field/generator.py:Fourier.__init__", "field/generator.py:Fourier.update",
        "field/generator.py:Fourier.reset_seed", "field/generator.py:Fourier._set_modes",
        "field/generator.py:Fourier._fill_to_dim"]


def sym_fourier(ctx, dim, modes=2, tag=""):
    mod = sym_model(ctx, dim, tag=tag)
    s = ctx.integer(tag + "seed", lo=1, hi=1000)
    per = ctx.reals(tag + "per", dim, pos=True)
    for p in per:
        ctx.require(ctx.gt(p, 0))
    g = _q(Fourier, mod, period=per, mode_no=[modes] * dim, seed=s)
    return mod, s, per, g


@contract(P, "Fourier.update[model]/equals-fresh-generator", params=[c for c in CHG if c["kind"] == "generic"],
          functions=FN_F, nsamples=1, search=20)
def fourier_update_model(ctx, dim, what, tol, kind):
    mod, s, per, g = sym_fourier(ctx, dim)
    mod2, x = _changed_model(ctx, mod, what, dim, tol)
    g.update(mod2)
    fresh = _q(Fourier, mod2, period=per, mode_no=[2] * dim, seed=s)
    ctx.ensure("state=fresh(seed,new-model,period,mode_no)", views_equal(ctx, gen_view(g), gen_view(fresh)))


@contract(P, "Fourier.update[combined-arguments]/equals-fresh-generator",
          params=[{"dim": d, "what": w} for d in (1, 2) for w in (
              "same-model+period", "same-model+mode_no", "same-seed+period", "same-seed+mode_no",
              "same-model+same-seed+period+mode_no", "new-seed+period")],
          functions=FN_F, nsamples=1, search=20)
def fourier_update_combined(ctx, dim, what):
    """`update(model, seed, period, mode_no)` takes its arguments together; passing the model / seed the generator
    already has is a legal way to say 'unchanged'.  Whatever is passed, the generator afterwards equals a freshly
    built one with the resulting settings (mode mesh, spectrum factors and random amplitudes belong together)"""
    mod, s, per, g = sym_fourier(ctx, dim)
    per2, mn2, s2 = per, [2] * dim, s
    kw = {}
    if "period" in what:
        per2 = ctx.reals("per2_", dim, pos=True)
        for p in per2:
            ctx.require(ctx.gt(p, 0))
        kw["period"] = per2
    if "mode_no" in what:
        mn2 = [4] * dim
        kw["mode_no"] = mn2
    if "same-model" in what:
        kw["model"] = mod
    if "same-seed" in what:
        kw["seed"] = s
    if "new-seed" in what:
        s2 = ctx.integer("seed2", lo=1001, hi=2000)
        ctx.require(ctx.ne(s2, s))
        kw["seed"] = s2
    g.update(**kw)
    fresh = _q(Fourier, mod, period=per2, mode_no=mn2, seed=s2)
    ctx.ensure("state=fresh(model,seed,period,mode_no)", views_equal(ctx, gen_view(g), gen_view(fresh)))


@contract(P, "Fourier.update[settings]/equals-fresh-generator",
          params=[{"dim": d, "what": w} for d in (1, 2) for w in ("period", "mode_no", "seed", "period-setter", "mode_no-setter")],
          functions=FN_F, nsamples=1, search=20)
def fourier_update_settings(ctx, dim, what):
    mod, s, per, g = sym_fourier(ctx, dim)
    per2, s2, mn2 = per, s, [2] * dim
    if what.startswith("period"):
        per2 = ctx.reals("per2_", dim, pos=True)
        for p in per2:
            ctx.require(ctx.gt(p, 0))
        if what == "period":
            g.update(period=per2)
        else:
            g.period = per2
    elif what.startswith("mode_no"):
        mn2 = [4] * dim
        if what == "mode_no":
            g.update(mode_no=mn2)
        else:
            g.mode_no = mn2
    else:
        s2 = ctx.integer("seed2", lo=1001, hi=2000)
        g.update(seed=s2)
    fresh = _q(Fourier, mod, period=per2, mode_no=mn2, seed=s2)
    ctx.ensure("state=fresh", views_equal(ctx, gen_view(g), gen_view(fresh)))


@contract(P, "Fourier.__call__/pointwise-definition", params={"dim": [1, 2]},
          functions=["field/generator.py:Fourier.__call__", "field/generator.py:_summate_fourier"],
          bounded="2 modes per axis, 1 point (wrapper only; the kernel sum is proved for all sizes in C15)")
def fourier_pointwise(ctx, dim):
    m = ctx.m
    mod, s, per, g = sym_fourier(ctx, dim)
    pos = np.array([[ctx.real("x%d" % d)] for d in range(dim)], dtype=object)
    if ctx.mode == "conc":
        pos = pos.astype(float)
    out = g(pos, add_nugget=False)
    acc = 0
    for j in range(g._modes.shape[1]):
        ph = sum(g._modes[d, j] * pos[d, 0] for d in range(dim))
        acc = acc + g._spectrum_factor[j] * (g._z_1[j] * m.cos(ph) + g._z_2[j] * m.sin(ph))
    ctx.ensure("value", ctx.eq(out[0], acc))


@contract(P, "RandMeth.update[model+seed]/equals-fresh-generator", params={"dim": [1, 2], "gen": ["RandMeth", "Fourier"]},
          functions=FN_RM + FN_F, nsamples=1, search=20)
def update_model_and_seed(ctx, dim, gen):
    """a changed model AND a new seed in one update (what SRF.__call__(pos, seed=...) does after an
    in-place model change)"""
    if gen == "RandMeth":
        mod = sym_model(ctx, dim)
        s = ctx.integer("seed", lo=1, hi=1000)
        g = _q(RandMeth, mod, mode_no=2, seed=s)
    else:
        mod, s, per, g = sym_fourier(ctx, dim)
    s2 = ctx.integer("seed2", lo=1001, hi=2000)
    mod2, x = _changed_model(ctx, mod, "len_scale", dim, "beyond")
    g.update(mod2, s2)
    fresh = _q(RandMeth, mod2, mode_no=2, seed=s2) if gen == "RandMeth" else \
        _q(Fourier, mod2, period=per, mode_no=[2] * dim, seed=s2)
    ctx.ensure("state=fresh(new-seed,new-model)", views_equal(ctx, gen_view(g), gen_view(fresh)))


@contract(P, "SRF.__call__[Fourier]/in-place-model-change-equals-fresh",
          params=[{"dim": d, "what": w, "tol": "beyond"} for d in (1, 2) for w in ("var", "len_scale", "anis", "rescale")
                  if not (d == 1 and w == "anis")],
          functions=["field/srf.py:SRF.__call__", "field/generator.py:Fourier.update", "covmodel/tools.py:compare"],
          nsamples=1, search=20)
def srf_inplace_fourier(ctx, dim, what, tol):
    """in-place change of the field's own model with the Fourier generator (the generator must keep
    a PRIVATE copy of the model, otherwise the change goes unnoticed)"""
    mod = sym_model(ctx, dim, nugget=False)
    s = ctx.integer("seed", lo=1, hi=1000)
    per = ctx.reals("per", dim, pos=True)
    for p in per:
        ctx.require(ctx.gt(p, 0))
    srf = _q(gs.SRF, mod, generator="Fourier", period=per, mode_no=[2] * dim, seed=s)
    x = [[0.25, 1.5]] * dim
    srf(x)
    mod2, v = _changed_model(ctx, mod, what, dim, tol)
    if what == "anis":
        srf.model.anis = [v] + list(mod.anis[1:])
    else:
        setattr(srf.model, what, v)
    got = srf(x)
    fresh = _q(gs.SRF, mod2, generator="Fourier", period=per, mode_no=[2] * dim, seed=s)(x)
    ctx.ensure("field=fresh-generator-field", ctx.eq(got, fresh))
    ctx.ensure("generator-keeps-a-private-model-copy", srf.generator.model is not srf.model)


# --- the random layer behind the ghost RNG (assumption T5): deterministic in the seed VALUE, natively ------------
@contract(P, "random.RNG,MasterRNG/deterministic-in-the-seed-value",
          params={"seed": ["0", "1", "4711", "2**32-1", "np.int64(0)", "np.int64(20220101)"]},
          functions=["random/tools.py:MasterRNG.__init__", "random/rng.py:RNG.seed", "random/rng.py:RNG.__init__"],
          bounded="6 seed values incl. the boundary values 0 and 2**32-1 and numpy integers; first 4 sub-seeds / 5 draws")
def rng_seed_values(ctx, seed):
    """`seed : int or None -- if None a random seed is used`: every integer, 0 included, is a seed.  The ghost RNG
    of the symbolic runs assumes exactly this of the real classes (T5)."""
    import numpy.random as npr
    from gstools.random import RNG, MasterRNG
    s = eval(seed, {"np": np})
    with symrun.native():
        a, b = MasterRNG(s), MasterRNG(s)
        ref = npr.RandomState(int(s))
        want = [int(ref.randint(1, 2 ** 16)) for _ in range(4)]
        sa, sb = [int(a()) for _ in range(4)], [int(b()) for _ in range(4)]
        ctx.ensure("MasterRNG:sub-seed-stream=RandomState(seed).randint(1,2**16)", sa == want and sb == want)
        ctx.ensure("MasterRNG.seed=given", a.seed == s)
        r1, r2 = RNG(s), RNG(s)
        d1, d2 = r1.random.normal(size=5), r2.random.normal(size=5)
        ctx.ensure("RNG:equal-seed-values=>equal-draws", bool(np.array_equal(d1, d2)) and r1.seed == s)
        r1.seed = s          # re-seeding with the same value restarts the same stream
        ctx.ensure("RNG.seed.setter:restarts-the-stream-of-that-value", bool(np.array_equal(r1.random.normal(size=5), d1)))
        r3 = RNG(int(s) + 1 if int(s) < 2 ** 32 - 1 else int(s) - 1)
        ctx.ensure("different-seed=>different-draws", not bool(np.array_equal(r3.random.normal(size=5), d1)))


# --- fields on meshes (Field.mesh / generate_on_mesh, meshio): the value stored for a node / cell is the field value
#     at that node / cell centroid, in the axis order the caller asked for -------------------------------------------
def _mesh_fixture(mesh_dim):
    import meshio
    pts2 = np.array([[0.0, 0.0], [1.0, 0.0], [2.0, 0.3], [0.0, 1.0], [1.0, 1.2], [2.0, 1.0], [0.5, 2.0], [1.5, 2.2]])
    pts = pts2 if mesh_dim == 2 else np.column_stack([pts2, np.array([0.0, 0.4, 0.1, 0.7, 0.2, 0.9, 0.3, 0.5])])
    cells = [("triangle", np.array([[0, 1, 3], [1, 4, 3], [3, 4, 6]])), ("quad", np.array([[1, 2, 5, 4]])),
             ("triangle", np.array([[4, 5, 7], [4, 7, 6]]))]           # blocks of unequal size
    return meshio.Mesh(pts, cells)


MESH_PARAMS = [{"gen": g, "points": p, "mesh_dim": md, "direction": d}
               for g in ("RandMeth", "VectorField") for p in ("points", "centroids")
               for (md, d) in ((2, "all"), (3, "xy"), (3, "zx"), (3, "yx"), (3, [2, 1]))]


@contract(P, "Field.mesh[meshio]/stored-values=field-at-the-nodes-or-cell-centroids-in-the-requested-axis-order",
          params=MESH_PARAMS,
          functions=["field/tools.py:generate_on_mesh", "field/tools.py:_get_select", "field/base.py:Field.mesh"],
          bounded="native run: 8 nodes, 3 cell blocks (3 triangles, 1 quad, 2 triangles), 2-D model on a 2-D or 3-D mesh")
def field_on_mesh(ctx, gen, points, mesh_dim, direction):
    """`mesh(mesh, points, direction, name)`: the field is generated at the mesh points or the cell centroids, the
    coordinates taken in the order given by `direction` ('zx': first model axis = mesh z, second = mesh x); the data
    stored in the mesh are those values node by node (vector fields: one row per node) / cell by cell (one array per
    cell block, in block order).  Determinism makes the expectation computable: a second object with the same seed
    evaluated at the explicit positions."""
    with symrun.native():
        def mk():
            m = gs.Gaussian(dim=2, var=1.3, len_scale=1.1)
            if gen == "VectorField":
                return gs.SRF(m, generator="VectorField", mean_velocity=1.5, seed=7, mode_no=16)
            return gs.SRF(m, seed=7, mode_no=16, mean=0.3)
        mesh = _mesh_fixture(mesh_dim)
        if isinstance(direction, str):
            sel = {"all": [0, 1], "xy": [0, 1], "zx": [2, 0], "yx": [1, 0]}[direction]
        else:
            sel = list(direction)
        srf = mk()
        out = srf.mesh(mesh, points=points, direction=direction, name="fld")
        ref_obj = mk()
        if points == "points":
            pos = mesh.points.T[sel]
            want = np.array(ref_obj(pos), dtype=float)
            got = np.array(mesh.point_data["fld"], dtype=float)
            if gen == "VectorField":
                ok = got.shape == (8, 2) and bool(np.allclose(got, want.T, rtol=1e-12, atol=1e-12))
            else:
                ok = got.shape == (8,) and bool(np.allclose(got, want, rtol=1e-12, atol=1e-12))
        else:
            ok = True
            data = mesh.cell_data["fld"]
            ok = len(data) == 3
            for blk, arr_ in zip(mesh.cells, data):
                cen = np.mean(mesh.points[blk.data], axis=1)            # (cells, mesh_dim)
                want = np.array(mk()(cen.T[sel]), dtype=float)
                a = np.array(arr_, dtype=float)
                if gen == "VectorField":
                    ok = ok and a.shape == (len(blk.data), 2) and bool(np.allclose(a, want.T, rtol=1e-12, atol=1e-12))
                else:
                    ok = ok and a.shape == (len(blk.data),) and bool(np.allclose(a, want, rtol=1e-12, atol=1e-12))
        ret_ok = np.shape(out)[-1] == (8 if points == "points" else 6)
    ctx.ensure("mesh-data=field-values-at-the-mesh-positions", ok)
    ctx.ensure("returned-array-covers-all-positions", ret_ok)
