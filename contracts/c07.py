r"""C07 -- conditioned random fields honour the data; cached kriging results are never stale.

Spec sources: the property statement; examples/06_conditioned_fields/README.rst ("we generate a
random field, with 0 as mean and 1 as variance that will be multiplied with the kriging standard
deviation"); the `Krige` class docstring ("If you have changed any properties in the class, you can
update the kriging setup by calling Krige.set_condition without any arguments"); docstrings of
CondSRF.__call__ / set_pos ("When setting a new position tuple that differs from the present one,
all stored fields will be deleted").

(a) conditioning formula on the REAL CondSRF.__call__ / get_scaling (all values symbolic):

      raw  =  rawkrige + sqrt(krige_var / var) * rawfield                           (nugget = 0)
      raw  =  rawkrige + sqrt(max(krige_var - n, 0) / var) * rawfield
                       + sqrt(min(krige_var, n) / n) * sqrt(n) * xi                 (nugget n > 0)

    where rawfield is the unconditional RandMeth field of the same seed (C11 pointwise sum), xi the
    next standard normal draws of the generator; the variance budget of the two random parts is
    exactly krige_var; lemma: krige_var = 0 /\ rawkrige = c  ==>  raw = c for every seed (with C06:
    at conditioning points with zero measurement error krige_var = 0 and rawkrige = the condition).

(b) cache coherence, formulated like the generator contracts of C11: for every public mutator of
    the kriging setup (new seed, set_pos / new positions, Krige.set_condition with new values or
    positions, model re-assignment on CondSRF and on its Krige, in-place model change followed by
    the documented refresh set_condition(), mean / trend / normalizer re-assignment,
    set_drift_functions + refresh, cond_err + refresh), started from a never-called object and
    from an object with filled caches:

        view(after mutator; call)  ==  view(freshly built CondSRF with the resulting settings; call)

    view = returned field, every stored field of CondSRF and of its Krige, the Krige's derived
    state (_krige_mat, _krige_pos, conditions), positions and the generator state including the
    random-stream position.  Because the whole view is compared, all finite call histories follow
    by induction.

The real Krige runs with symbolic conditioning positions / values.  Stubs (symbolic runs only,
logged): the matrix (pseudo) inverse is an uninterpreted function of the matrix entries (equal
kriging systems give equal inverses: T5 "pinv/inv are deterministic functions of their argument";
no algebraic property of the inverse is used here, that is C05/C06); the compiled krigesum kernels
are replaced by their C15 postconditions; scipy cdist by sqrt(sum (a-b)^2); random draws are the
ghost terms of contracts/gen_common.py.

(c) static frame facts (gsvc.frames assigns/reads): every public mutator whose write set meets
    the read set of the kriging computation must delete or recompute the stored kriging fields.
"""
import warnings

import numpy as np
import z3

import gstools as gs
from gsvc.contract import contract
from gsvc import symrun
from gsvc.symrun import SymReal, uf, wrap, is_sym, symbolic_active
from contracts import gen_common as gc
from contracts.c11 import gen_view, model_view, _isclose

P = "C07"
gc.install()


# ---------------------------------------------------------------------------------------
# local stubs (verifier process only)
# ---------------------------------------------------------------------------------------
def _obj(x):
    return is_sym(x) or (isinstance(x, np.ndarray) and x.dtype == object)


def spec_krige_and_variance(krig_mat, krig_vecs, cond, num_threads=None):
    """postcondition of krigesum.calc_field_krige_and_variance (C15):
    field[k] = sum_i cond[i] sum_j mat[i,j] vec[j,k];  error[k] = sum_i vec[i,k] sum_j mat[i,j] vec[j,k]"""
    mat, vec = np.asarray(krig_mat, dtype=object), np.asarray(krig_vecs, dtype=object)
    n, T = mat.shape[0], vec.shape[1]
    field, err = np.empty(T, dtype=object), np.empty(T, dtype=object)
    for k in range(T):
        f, e = wrap(0), wrap(0)
        for i in range(n):
            fac = wrap(0)
            for j in range(n):
                fac = fac + mat[i, j] * vec[j, k]
            e = e + vec[i, k] * fac
            f = f + cond[i] * fac
        field[k], err[k] = f, e
    return field, err


def spec_krige(krig_mat, krig_vecs, cond, num_threads=None):
    return spec_krige_and_variance(krig_mat, krig_vecs, cond)[0]


def _sym_cdist(prev):
    def cdist(a, b, *args, **kw):
        if symbolic_active() and (_obj(a) or _obj(b)):
            A, B = np.asarray(a, dtype=object), np.asarray(b, dtype=object)
            out = np.empty((A.shape[0], B.shape[0]), dtype=object)
            for i in range(A.shape[0]):
                for j in range(B.shape[0]):
                    s = wrap(0)
                    for d in range(A.shape[1]):
                        s = s + (wrap(A[i, d]) - B[j, d]) * (wrap(A[i, d]) - B[j, d])
                    out[i, j] = SymReal(z3.simplify(s.t)).sqrt()
            return out
        return prev(a, b, *args, **kw)
    cdist._gsvc_c07 = True
    return cdist


LAST_INV_ARG = [None]


def _sym_inv(name, prev):
    """(pseudo) inverse as uninterpreted function of the matrix entries in symbolic runs"""
    def inv(mat, *a, **kw):
        if symbolic_active() and _obj(mat):
            M = np.asarray(mat, dtype=object)
            n = M.shape[0]
            args = [wrap(v) for v in M.ravel().tolist()]
            LAST_INV_ARG[0] = M.copy()
            out = np.empty((n, n), dtype=object)
            for i in range(n):
                for j in range(n):
                    out[i, j] = uf("kinv%d_%d_%d" % (n, i, j), *args)
            return out
        return prev(mat, *a, **kw)
    inv._gsvc_c07 = True
    return inv


class _SplProxy:
    def __init__(self, real):
        self.__dict__["_real"] = real
        self.__dict__["inv"] = _sym_inv("inv", real.inv)

    def __getattr__(self, k):
        return getattr(self._real, k)


def install():
    import gstools.krige.base as kb
    if getattr(kb.cdist, "_gsvc_c07", False):
        return
    kb.cdist = _sym_cdist(kb.cdist)
    kb.P_INV = {k: _sym_inv(k, v) for k, v in kb.P_INV.items()}
    kb.spl = _SplProxy(kb.spl)
    kb.calc_field_krige_and_variance_c = gc._kernel_stub(kb.calc_field_krige_and_variance_c, spec_krige_and_variance)
    kb.calc_field_krige_c = gc._kernel_stub(kb.calc_field_krige_c, spec_krige)
    symrun.SHIM_LOG.extend([
        "gstools.krige.base.cdist -> sqrt(sum (a-b)^2) on symbolic positions (contracts/c07.py)",
        "gstools.krige.base.P_INV / spl.inv -> uninterpreted function of the matrix entries in symbolic "
        "runs (T5: deterministic in its argument; contracts/c07.py)",
        "gstools.krige.base.calc_field_krige(_and_variance)_c -> kernel postconditions (C15) as spec "
        "functions in symbolic runs (contracts/c07.py)",
    ])


install()


def _q(f, *a, **k):
    with warnings.catch_warnings():
        warnings.simplefilter("ignore")
        return f(*a, **k)


def arr(ctx, xs):
    return np.array(list(xs), dtype=object if ctx.mode == "sym" else float)


# ---------------------------------------------------------------------------------------
# symbolic settings -> real objects
# ---------------------------------------------------------------------------------------
VARIANTS = ("simple", "ordinary", "universal", "detrended", "extdrift")
G1 = [0.25, 1.5]          # default target points (dim 1); further dims get fixed offsets


def targets(dim, xs=None):
    xs = G1 if xs is None else xs
    return [list(xs)] + [[0.5 + 0.25 * d + 0.125 * i for i in range(len(xs))] for d in range(1, dim)]


def generic_normalizer(ctx):
    """normalizer with uninterpreted transform pair (range: all reals, so no range forks)"""
    m = ctx.m

    def app(name, x):
        x = np.asarray(x, dtype=object if ctx.mode == "sym" else float)
        if x.ndim == 0:
            return m.fn(name, x.item())
        out = np.empty(x.shape, dtype=object)
        for i, v in enumerate(x.ravel().tolist()):
            out.reshape(-1)[i] = m.fn(name, v)
        return out if ctx.mode == "sym" else out.astype(float)

    class UNorm(gs.normalizer.Normalizer):
        def _normalize(self, data):
            return app("c07_un", data)

        def _denormalize(self, data):
            return app("c07_udn", data)

    return UNorm


symrun.CONC_FUNCS["c07_un"] = lambda x: float(np.arcsinh(x))
symrun.CONC_FUNCS["c07_udn"] = lambda x: float(np.sinh(x))


def settings(ctx, dim, variant, nug="zero", n=2, tag="", aniso=False):
    """symbolic kriging / generator setup; every numeric entry is an unconstrained real except for
    the documented parameter bounds of the model"""
    S = {"U": gc.generic_model_class(ctx), "dim": dim, "variant": variant, "n": n}
    S["var"], S["len"] = ctx.real(tag + "var", lo=0.5, hi=2.0), ctx.real(tag + "len", lo=0.5, hi=2.0)
    S["req"] = [ctx.require(ctx.And(ctx.gt(S["var"], 0), ctx.gt(S["len"], 0)))]
    if nug == "zero":
        S["nug"] = 0.0
    else:
        S["nug"] = ctx.real(tag + "nug", lo=0.05, hi=0.5)
        S["req"].append(ctx.require(ctx.gt(S["nug"], 0) if nug == "pos" else ctx.ge(S["nug"], 0)))
    if aniso and dim > 1:
        S["anis"] = [ctx.real("%sanis%d" % (tag, i), lo=0.5, hi=2.0) for i in range(dim - 1)]
        for r in S["anis"]:
            ctx.require(ctx.gt(r, 0))
        S["angles"] = [ctx.real("%sang%d" % (tag, i), lo=-1.0, hi=1.0) for i in range(dim * (dim - 1) // 2)]
    # conditioning points: natively well separated (sampling hints only; no `require`)
    S["cpos"] = [[ctx.real("%scp%d_%d" % (tag, d, i), lo=i + 0.05 + 0.3 * d, hi=i + 0.6 + 0.3 * d) for i in range(n)]
                 for d in range(dim)]
    S["cval"] = [ctx.real("%scv%d" % (tag, i), lo=-2.0, hi=2.0) for i in range(n)]
    S["seed"] = ctx.integer(tag + "seed", lo=1, hi=1000)
    if variant == "simple":
        S["mean"] = ctx.real(tag + "mean", lo=-1.0, hi=1.0)
    if variant == "detrended":
        a, b = ctx.real(tag + "tr_a", lo=-1.0, hi=1.0), ctx.real(tag + "tr_b", lo=-1.0, hi=1.0)
        S["trend"] = lambda *x, _a=a, _b=b: _a + _b * x[0]
    if variant == "extdrift":
        # native samples: external-drift values of different data points in disjoint ranges (equal values make the
        # drift column collinear with the unbiasedness column: an ill-conditioned system, not a defect); the
        # symbolic values are unconstrained
        S["ext"] = [ctx.real("%sed%d" % (tag, i), lo=-1.0 + 0.9 * i, hi=-0.4 + 0.9 * i) for i in range(n)]
    return S


def mk_model(S):
    kw = {}
    if "anis" in S:
        kw = {"anis": list(S["anis"]), "angles": list(S["angles"])}
    return _q(S["U"], dim=S["dim"], var=S["var"], len_scale=S["len"], nugget=S["nug"], **kw)


def mk_krige(ctx, S, model=None):
    model = mk_model(S) if model is None else model
    cpos, cval = [list(r) for r in S["cpos"]], arr(ctx, S["cval"])
    kw = {k: S[k] for k in ("normalizer", "exact", "cond_err") if k in S}
    v = S["variant"]
    if v == "simple":
        return _q(gs.krige.Simple, model, cpos, cval, mean=S["mean"], trend=S.get("trend"), **kw)
    if v == "ordinary":
        return _q(gs.krige.Ordinary, model, cpos, cval, trend=S.get("trend"), **kw)
    if v == "universal":
        return _q(gs.krige.Universal, model, cpos, cval, S.get("drift", "linear"), trend=S.get("trend"), **kw)
    if v == "detrended":
        if "normalizer" in kw:      # Detrended takes no normalizer: the same system through the base class
            return _q(gs.Krige, model, cpos, cval, trend=S["trend"], unbiased=False, **kw)
        return _q(gs.krige.Detrended, model, cpos, cval, S["trend"], **kw)
    if v == "extdrift":
        return _q(gs.krige.ExtDrift, model, cpos, cval, arr(ctx, S["ext"]), trend=S.get("trend"), **kw)
    if v == "base-mean":      # ordinary system with a user mean (what `cs.mean = x` produces on Ordinary)
        return _q(gs.Krige, model, cpos, cval, mean=S.get("mean"), trend=S.get("trend"), unbiased=True, **kw)
    raise ValueError(v)


def mk(ctx, S, model=None):
    return _q(gs.CondSRF, mk_krige(ctx, S, model), seed=S["seed"], mode_no=2)


def call(ctx, cs, S, pos="default", **kw):
    """CondSRF.__call__ with the keyword arguments the kriging variant needs"""
    if S["variant"] == "extdrift":
        X = len(G1) if pos in ("default", None) else len(pos[0])
        kw.setdefault("ext_drift", arr(ctx, S["ext_target"][:X]))
    if pos is None:
        return _q(cs, **kw)
    return _q(cs, targets(S["dim"]) if pos == "default" else pos, **kw)


# ---------------------------------------------------------------------------------------
# views
# ---------------------------------------------------------------------------------------
def _norm_view(nz):
    return (type(nz).__name__, tuple(sorted((k, getattr(nz, k)) for k in nz.default_parameter)))


def krige_view(k):
    v = {"krige_mat": k._krige_mat, "krige_pos": k._krige_pos, "cond_pos": k._cond_pos, "cond_val": k._cond_val,
         "cond_err": k.cond_err, "ext": k._cond_ext_drift, "drift_no": k.drift_no, "unbiased": k.unbiased,
         "exact": k.exact, "pos": k.pos, "mesh": k.mesh_type, "shape": k.field_shape,
         "mean": None if callable(k.mean) else k.mean, "trend": None if callable(k.trend) else k.trend,
         "normalizer": _norm_view(k.normalizer), "krige_cond": _q(lambda: k._krige_cond),
         "names": sorted(k.field_names)}
    for nm in k.field_names:
        v["stored." + nm] = k[nm]
    return v


def cs_view(cs):
    v = {"names": sorted(cs.field_names)}
    for nm in cs.field_names:
        v["stored." + nm] = cs[nm]
    return v


def _veq_val(ctx, x, y, cs):
    if isinstance(x, dict):
        cs.append(veq(ctx, x, y))
    elif x is None or y is None or isinstance(x, (str, bool)) or isinstance(y, (str, bool)):
        cs.append(x is y if (x is None or y is None) else x == y)
    elif isinstance(x, (tuple, list)) and not is_sym(x) and any(isinstance(e, (str, tuple, list, np.ndarray)) for e in x):
        if not isinstance(y, (tuple, list)) or len(x) != len(y):
            cs.append(False)
        else:
            for u, v in zip(x, y):
                _veq_val(ctx, u, v, cs)
    elif np.shape(x) != np.shape(y):
        cs.append(False)
    elif np.size(x):
        cs.append(ctx.eq(x, y))


def veq(ctx, a, b):
    """conjunction: same keys, same shapes, equal values"""
    cs = []
    for k in sorted(set(a) | set(b)):
        if k not in a or k not in b:
            return False
        _veq_val(ctx, a[k], b[k], cs)
    return ctx.And(*cs)


def compare(ctx, cs, out, fresh, out2, label="fresh"):
    """the four parts of `view(after mutator; call) == view(fresh object; call)`"""
    ctx.ensure("field=%s-field" % label, ctx.And(ctx.shape_eq(out, np.shape(out2)), ctx.eq(out, out2)))
    ctx.ensure("stored-fields=%s" % label, veq(ctx, cs_view(cs), cs_view(fresh)))
    ctx.ensure("krige-state=%s" % label, veq(ctx, krige_view(cs.krige), krige_view(fresh.krige)))
    ctx.ensure("generator-state=%s" % label, ctx.And(veq(ctx, {"m": model_view(cs.model)}, {"m": model_view(fresh.model)}),
                                                     _gen_eq(ctx, cs.generator, fresh.generator)))


def _gen_eq(ctx, g1, g2):
    from contracts.c11 import views_equal
    return views_equal(ctx, gen_view(g1), gen_view(g2))


# ---------------------------------------------------------------------------------------
# (a) the conditioning formula
# ---------------------------------------------------------------------------------------
FN_CALL = ["field/cond_srf.py:CondSRF.__call__", "field/cond_srf.py:CondSRF.get_scaling",
           "field/cond_srf.py:CondSRF.set_pos", "field/base.py:Field.pre_pos", "field/base.py:Field.set_pos",
           "field/base.py:Field.post_field", "krige/base.py:Krige.__call__", "krige/base.py:Krige._get_krige_vecs",
           "krige/base.py:Krige._summate", "field/generator.py:RandMeth.__call__",
           "field/generator.py:RandMeth.get_nugget"]
FN_SET = ["krige/base.py:Krige.__init__", "krige/base.py:Krige.set_condition", "krige/base.py:Krige._get_krige_mat",
          "krige/base.py:Krige._krige_cond", "krige/tools.py:set_condition"]


def peek_normal(ctx, gen, shape):
    """the standard normal draws the generator's NEXT sub-stream would deliver (not consumed)"""
    if ctx.mode == "sym":
        return gc.GhostState(gen._rng.seed_t, gen._rng.count).normal(size=shape)
    master = gen._rng._master_rng._master_rng_fct        # numpy RandomState behind the MasterRNG
    st = master.get_state()
    xi = gen._rng.random.normal(size=shape)
    master.set_state(st)
    return xi


def sym_targets(ctx, dim, X, tag="x"):
    return [[ctx.real("%s%d_%d" % (tag, d, i), lo=-0.5 + i, hi=0.4 + i) for i in range(X)] for d in range(dim)]


FORMULA = [{"variant": v, "nug": g, "dim": 1, "X": x} for v in ("simple", "ordinary") for g in ("zero", "pos")
           for x in (1, 2)] + \
          [{"variant": v, "nug": "zero", "dim": 1, "X": 1} for v in ("universal", "detrended", "extdrift")] + \
          [{"variant": "simple", "nug": "any", "dim": 1, "X": 1}]
FORMULA_T = [{"variant": v, "nug": g, "dim": 2, "X": 1} for v in ("simple", "ordinary") for g in ("zero", "pos")]


def _formula(ctx, variant, nug, dim, X):
    m = ctx.m
    S = settings(ctx, dim, variant, nug=nug, aniso=True)
    cs = mk(ctx, S)
    pos = sym_targets(ctx, dim, X)
    if variant == "extdrift":
        S["ext_target"] = [ctx.real("edt%d" % i, lo=-1.0, hi=1.0) for i in range(X)]
    mod = cs.model
    xi = peek_normal(ctx, cs.generator, (X,))
    out = call(ctx, cs, S, pos, post_process=False)
    rk, kv, rf = cs["raw_krige"], cs.krige["krige_var"], cs["raw_field"]
    ctx.ensure("shapes", ctx.And(ctx.shape_eq(out, (X,)), ctx.shape_eq(rk, (X,)), ctx.shape_eq(kv, (X,)),
                                 ctx.shape_eq(rf, (X,))))
    ctx.ensure("stored-field=returned", ctx.eq(cs["field"], out))
    # the kriging part is what the Krige object alone returns for the same setup and positions
    kr = mk_krige(ctx, S)
    kcall = {"ext_drift": arr(ctx, S["ext_target"])} if variant == "extdrift" else {}
    kf, kvar = _q(kr, pos, post_process=False, **kcall)
    ctx.ensure("raw_krige=kriging-estimate,krige_var=kriging-variance", ctx.And(ctx.eq(rk, kf), ctx.eq(kv, kvar)))
    ctx.ensure("krige_var>=0", ctx.ge(kv, np.zeros(X)))
    # the random part is the unconditional field of the same seed
    srf = _q(gs.SRF, mk_model(S), seed=S["seed"], mode_no=2)
    un = _q(srf, pos, post_process=False)
    n, var = mod.nugget, mod.var
    if nug == "zero":
        noise = np.zeros(X)
    else:   # SRF adds its nugget noise sqrt(n) * xi itself; CondSRF keeps the two parts apart
        noise = [m.ite(ctx.gt(n, 0), m.sqrt(n) * xi[i], 0) if ctx.mode == "sym" else
                 (np.sqrt(n) * xi[i] if n > 0 else 0.0) for i in range(X)]
    ctx.ensure("raw_field+nugget-noise=unconditional-field-of-same-seed", ctx.eq(un, [rf[i] + noise[i] for i in range(X)]))
    for i in range(X):
        if nug == "zero":
            want = rk[i] + m.sqrt(kv[i] / var) * rf[i]
            ctx.ensure("raw=krige+sqrt(krige_var/var)*rawfield[%d]" % i, ctx.eq(out[i], want))
            ctx.ensure("random-part-variance=krige_var[%d]" % i,
                       ctx.eq(m.sqrt(kv[i] / var) * m.sqrt(kv[i] / var) * var, kv[i]))
        else:
            a = m.sqrt(m.max(kv[i] - n, 0) / var)
            b = m.sqrt(m.min(kv[i], n) / n)
            want = rk[i] + a * rf[i] + b * (m.sqrt(n) * xi[i])
            cond = ctx.gt(n, 0)
            plain = rk[i] + m.sqrt(kv[i] / var) * rf[i]
            ctx.ensure("raw=krige+nugget-split-formula[%d]" % i,
                       ctx.And(ctx.Implies(cond, ctx.eq(out[i], want)),
                               ctx.Implies(ctx.Not(cond), ctx.eq(out[i], plain))))
            ctx.ensure("random-part-variance=krige_var[%d]" % i,
                       ctx.Implies(cond, ctx.eq(a * a * var + b * b * n, kv[i])))
        ctx.ensure("krige_var=0=>field=kriging-estimate-for-every-seed[%d]" % i,
                   ctx.Implies(ctx.eq(kv[i], 0), ctx.eq(out[i], rk[i])))
    # post-processing: the returned field of the default call and the stored kriging field
    cs2 = mk(ctx, S)
    out_pp = call(ctx, cs2, S, pos)
    ctx.ensure("field=post_field(raw)", ctx.eq(out_pp, _q(kr.post_field, np.array(out), "tmp", True, False)))
    ctx.ensure("krige.field=post_field(raw_krige)",
               ctx.eq(cs2.krige["field"], _q(kr.post_field, np.array(kf), "tmp", True, False)))


@contract(P, "CondSRF.__call__/conditioning-formula", params=FORMULA, functions=FN_CALL, timeout=20, nsamples=3,
          search=40, bounded="2 conditioning points, X<=2 targets (pointwise code: numpy elementwise semantics)")
def formula(ctx, variant, nug, dim, X):
    _formula(ctx, variant, nug, dim, X)


@contract(P, "CondSRF.__call__/conditioning-formula[dim2]", params=FORMULA_T, functions=FN_CALL, timeout=30,
          nsamples=2, search=40, tiers=("thorough",), bounded="2 conditioning points, 1 target, dim 2")
def formula_dim2(ctx, variant, nug, dim, X):
    _formula(ctx, variant, nug, dim, X)




# ---------------------------------------------------------------------------------------
# data honoured at the conditioning locations (zero measurement error), every seed
# ---------------------------------------------------------------------------------------
def assume_inverse(ctx, k):
    """T5 (assumed dependency contract): the matrix handed to the (pseudo) inverse is non-singular
    and inv(A) . A = I.  Instantiated for the kriging matrix the Krige object assembled."""
    if ctx.mode == "conc":
        return None
    A = np.asarray(k._c07_mat, dtype=object)
    Ai = np.asarray(k._krige_mat, dtype=object)
    n = A.shape[0]
    cs = []
    for i in range(n):
        for j in range(n):
            s = wrap(0)
            for l in range(n):
                s = s + Ai[i, l] * A[l, j]
            cs.append(ctx.eq(s, 1 if i == j else 0))
    return ctx.hint(ctx.And(*cs), "T5: inv(A).A = I for the (non-singular) kriging matrix")


HONOUR = [{"variant": v, "n": n, "err": e} for v in ("simple", "ordinary") for n in (1, 2)
          for e in ("nugget=0", "exact+nugget>0")] + \
         [{"variant": v, "n": 2, "err": "nugget=0"} for v in ("universal", "detrended", "extdrift")]


@contract(P, "CondSRF.__call__/honours-conditioning-values", params=HONOUR, functions=FN_CALL + FN_SET, timeout=30,
          nsamples=3, search=40,
          bounded="n<=2 conditioning points, dim 1, under the assumed inverse contract inv(A).A = I (T5)")
def honours(ctx, variant, n, err):
    S = settings(ctx, 1, variant, nug="zero" if err == "nugget=0" else "pos", n=n)
    if err != "nugget=0":
        S["exact"] = True
    # natively: keep the two conditioning points apart (conditioning of the 2 x 2 system)
    cs = mk(ctx, S)
    k = cs.krige
    # targets: every conditioning position (same terms) plus one free point
    xf = ctx.real("xfree", lo=2.0, hi=3.0)
    pos = [list(S["cpos"][0]) + [xf]]
    if err != "nugget=0":
        # exact=True switches to cov_nugget(r) = sill where np.isclose(r, 0): distinct data locations are
        # required to be distinct beyond that window (otherwise two data values share "one" location)
        pos = [list(S["cpos"][0])]
        if n == 2:
            S["req"].append(ctx.require(ctx.gt(ctx.m.abs(S["cpos"][0][0] - S["cpos"][0][1]), 1e-8)))
    if variant == "extdrift":
        S["ext_target"] = list(S["ext"]) + [ctx.real("edt", lo=-1.0, hi=1.0)]
    if ctx.mode == "sym":
        # the matrix the real _get_krige_mat hands to the inverse (recorded by the inverse stub)
        k._c07_mat = LAST_INV_ARG[0]
    H = assume_inverse(ctx, k)
    if ctx.mode == "sym":
        # contract of CovModel.cor (docstring: "normalized correlation function"): cor(0) = 1
        S["req"].append(ctx.hint(ctx.eq(uf("ucor", wrap(0)), 1), "generic model: normalised correlation cor(0) = 1"))
    out = call(ctx, cs, S, pos)       # the seed is symbolic: "for every seed"
    tag = ""
    if True:
        for i in range(n):
            kv0 = cs.krige["krige_var"][i]
            by = None if ctx.mode == "conc" else [H] + S["req"]
            ctx.ensure("krige_var=0-at-data[%d%s]" % (i, tag), ctx.eq(kv0, 0) if ctx.mode == "sym" else abs(kv0) <= 1e-12,
                       using=by)
            # natively sqrt(krige_var) amplifies the rounding error of krige_var = O(1e-16) to O(1e-8)
            ok = ctx.eq(out[i], S["cval"][i]) if ctx.mode == "sym" else abs(out[i] - S["cval"][i]) <= 1e-6
            ctx.ensure("field=conditioning-value[%d%s]" % (i, tag), ok, using=by)


# ---------------------------------------------------------------------------------------
# (b) cache coherence: view(after mutator; call) == view(freshly built object; call)
# ---------------------------------------------------------------------------------------
FN_COH = FN_CALL + FN_SET + ["field/base.py:Field.delete_fields", "field/base.py:Field.model",
                             "field/base.py:Field.mean", "field/base.py:Field.trend", "field/base.py:Field.normalizer",
                             "field/cond_srf.py:CondSRF.model", "field/cond_srf.py:CondSRF.mean",
                             "field/generator.py:RandMeth.update"]
# pre-state x form of the next call: never called / caches filled; positions passed again / reused
PRE = [("new", "pos"), ("called", "pos"), ("called", "reuse")]
PRE_T = PRE + [("called-unstored", "pos"), ("called-twice", "reuse")]
VQ = ("simple", "ordinary")
VT = ("universal", "detrended", "extdrift")


def _params(variants, extra, pre=PRE, dims=(1,)):
    out = []
    for d in dims:
        for v in variants:
            for e in extra:
                for (p, c) in pre:
                    q = {"variant": v, "dim": d}
                    q.update(e)
                    q.update({"pre": p, "next": c})
                    out.append(q)
    return out


def start(ctx, variant, dim, pre, nug="zero", **kw):
    """an object in one of the enumerated pre-states (all reached through public calls)"""
    S = settings(ctx, dim, variant, nug=nug, aniso=(dim > 1))
    if variant == "extdrift":
        S["ext_target"] = [ctx.real("edt%d" % i, lo=-1.0, hi=1.0) for i in range(2)]
    S.update(kw)
    cs = mk(ctx, S)
    if pre == "called":
        call(ctx, cs, S)
    elif pre == "called-unstored":
        call(ctx, cs, S, store=False, krige_store=False)
    elif pre == "called-twice":
        call(ctx, cs, S)
        call(ctx, cs, S, None)
    return S, cs


def finish(ctx, cs, S2, nxt, pos="default", label="fresh", **kw):
    out = call(ctx, cs, S2, None if nxt == "reuse" else pos, **kw)
    fresh = mk(ctx, S2)
    out2 = call(ctx, fresh, S2, pos)
    compare(ctx, cs, out, fresh, out2, label)


# --- new seed ---------------------------------------------------------------------------
@contract(P, "CondSRF.__call__[seed]/equals-fresh-object",
          params=_params(VQ, [{"nug": "zero"}, {"nug": "pos"}]), functions=FN_COH, nsamples=2, search=20)
def coh_seed(ctx, variant, dim, nug, pre, next):
    S, cs = start(ctx, variant, dim, pre, nug=nug)
    s2 = ctx.integer("seed2", lo=1001, hi=2000)
    if nug != "zero":
        # an equal seed value keeps the random stream where it is (documented: "If model and seed are
        # not different, nothing will be done"): the nugget noise of a second call is the NEXT draw
        ctx.require(ctx.ne(s2, S["seed"]))
    S2 = dict(S, seed=s2)
    finish(ctx, cs, S2, next, seed=s2)


# --- positions --------------------------------------------------------------------------
def _new_targets(ctx, dim, tol):
    old = targets(dim)
    if tol == "same":
        return [[float(x) for x in row] for row in old]       # equal values, distinct objects
    if tol == "beyond":
        new = [[ctx.real("t%d_%d" % (d, i), lo=old[d][i] + 0.1, hi=old[d][i] + 0.4) for i in range(len(old[d]))]
               for d in range(dim)]
    else:       # WLOG new = old + dt; natively dt is sampled inside the np.allclose window
        new = [[old[d][i] + ctx.real("dt%d_%d" % (d, i), lo=2e-7, hi=2e-6) for i in range(len(old[d]))]
               for d in range(dim)]
    close = [_isclose(ctx, old[d][i], new[d][i]) for d in range(dim) for i in range(len(old[d]))]
    diff = [ctx.ne(new[d][i], old[d][i]) for d in range(dim) for i in range(len(old[d]))]
    if tol == "beyond":     # differs by more than the np.allclose window Field._pos_equal used before fix 10bf78d
        ctx.require(ctx.Not(ctx.And(*close)))
    else:
        ctx.require(ctx.And(ctx.And(*close), ctx.Or(*diff)))
    return new


@contract(P, "CondSRF.set_pos/equals-fresh-object",
          params=[dict(q, via=v) for q in _params(VQ, [{"tol": "beyond"}, {"tol": "same"}], pre=PRE[:2])
                  for v in ("call", "set_pos")] +
                 [dict(q, via="call") for q in _params(VQ[:1], [{"tol": "within"}], pre=PRE[1:2])],
          functions=FN_COH, nsamples=2, search=20)
def coh_pos(ctx, variant, dim, tol, pre, next, via):
    S, cs = start(ctx, variant, dim, pre)
    pos2 = _new_targets(ctx, dim, tol)
    if via == "set_pos":
        _q(cs.set_pos, pos2)
        finish(ctx, cs, S, "reuse", pos=pos2)
    else:
        finish(ctx, cs, S, "pos", pos=pos2)


@contract(P, "CondSRF.set_pos[mesh_type]/equals-fresh-object",
          params=_params(VQ, [{}], pre=PRE[1:2]) + _params(VQ[:1], [{}], pre=PRE[1:2], dims=(2,)),
          functions=FN_COH, nsamples=2, search=20)
def coh_mesh(ctx, variant, dim, pre, next):
    """same axes, other mesh type: stored fields are dropped and recomputed"""
    S, cs = start(ctx, variant, dim, pre)
    out = call(ctx, cs, S, mesh_type="structured")
    fresh = mk(ctx, S)
    out2 = call(ctx, fresh, S, mesh_type="structured")
    compare(ctx, cs, out, fresh, out2)


# --- conditions -------------------------------------------------------------------------
def _new_conditions(ctx, S, what):
    S2 = dict(S)
    n, dim = S["n"], S["dim"]
    if what in ("values", "both", "values-kw"):
        S2["cval"] = [ctx.real("ncv%d" % i, lo=-2.0, hi=2.0) for i in range(n)]
    if what in ("positions", "both"):
        S2["cpos"] = [[ctx.real("ncp%d_%d" % (d, i), lo=i + 0.1 + 0.3 * d, hi=i + 0.7 + 0.3 * d) for i in range(n)]
                      for d in range(dim)]
    if what == "fewer":
        S2["n"] = 1
        S2["cpos"] = [[ctx.real("ncp%d_0" % d, lo=0.1, hi=0.9)] for d in range(dim)]
        S2["cval"] = [ctx.real("ncv0", lo=-2.0, hi=2.0)]
        if "ext" in S:
            S2["ext"] = S["ext"][:1]
    return S2


@contract(P, "Krige.set_condition/equals-fresh-object",
          params=_params(VQ, [{"what": w} for w in ("values", "positions", "both", "values-kw", "fewer")]),
          functions=FN_COH, nsamples=2, search=20)
def coh_condition(ctx, variant, dim, what, pre, next):
    S, cs = start(ctx, variant, dim, pre)
    S2 = _new_conditions(ctx, S, what)
    kw = {"ext_drift": arr(ctx, S2["ext"])} if variant == "extdrift" else {}
    if what == "values-kw":
        _q(cs.krige.set_condition, cond_val=arr(ctx, S2["cval"]))
    else:
        _q(cs.krige.set_condition, [list(r) for r in S2["cpos"]], arr(ctx, S2["cval"]), **kw)
    finish(ctx, cs, S2, next)


# --- model ------------------------------------------------------------------------------
def _new_model_settings(ctx, S, what=("var", "len")):
    """new model parameters; the model differs from the old one beyond the np.isclose window of
    CovModel.__eq__ (the generator's notion of "changed"; inside the window: finding F15 of C11, one
    representative below with tol=within)"""
    S2 = dict(S)
    for k in what:
        S2[k] = ctx.real("new_" + k, lo=0.5, hi=2.0)
        ctx.require(ctx.gt(S2[k], 0))
    ctx.require(ctx.Not(ctx.And(*[_isclose(ctx, S[k], S2[k]) for k in what])))
    return S2


@contract(P, "CondSRF.model.setter/equals-fresh-object",
          params=_params(VQ, [{"on": o, "refresh": r} for o in ("CondSRF", "Krige") for r in (False, True)]),
          functions=FN_COH, nsamples=2, search=20)
def coh_model_assign(ctx, variant, dim, on, refresh, pre, next):
    S, cs = start(ctx, variant, dim, pre)
    S2 = _new_model_settings(ctx, S)
    m2 = mk_model(S2)
    if on == "CondSRF":
        cs.model = m2
    else:
        cs.krige.model = m2
    if refresh:
        _q(cs.krige.set_condition)
    finish(ctx, cs, S2, next)


INPLACE = [{"what": "var", "tol": "beyond"}, {"what": "len", "tol": "beyond"}, {"what": "len", "tol": "within"}]


@contract(P, "CovModel-in-place-change+set_condition()/equals-fresh-object", params=_params(VQ, INPLACE),
          functions=FN_COH, nsamples=2, search=20)
def coh_model_inplace(ctx, variant, dim, what, tol, pre, next):
    """in-place change of the field's own model followed by the documented refresh"""
    S, cs = start(ctx, variant, dim, pre)
    if tol == "beyond":
        S2 = _new_model_settings(ctx, S, (what,))
    else:       # WLOG new = old * (1 + delta) (old > 0); natively delta is sampled inside the tolerance window
        S2 = dict(S)
        S2[what] = S[what] * (1 + ctx.real("delta", lo=2e-6, hi=8e-6))
        ctx.require(ctx.gt(S2[what], 0))
    if tol == "within":
        ctx.require(ctx.And(_isclose(ctx, S[what], S2[what]), ctx.ne(S[what], S2[what])))
    setattr(cs.model, {"var": "var", "len": "len_scale"}[what], S2[what])
    _q(cs.krige.set_condition)
    finish(ctx, cs, S2, next)


# --- mean / trend / normalizer ----------------------------------------------------------
def _reassign(ctx, S, attr):
    """new value of mean / trend / normalizer and the settings a fresh object is built with"""
    S2 = dict(S)
    if attr == "mean":
        S2["mean"] = ctx.real("new_mean", lo=-1.0, hi=1.0)
        if S["variant"] == "ordinary":
            S2["variant"] = "base-mean"
        return S2["mean"], S2
    if attr == "trend":
        S2["trend"] = ctx.real("new_trend", lo=-1.0, hi=1.0)
        return S2["trend"], S2
    if attr == "trend-callable":
        a, b = ctx.real("ntr_a", lo=-1.0, hi=1.0), ctx.real("ntr_b", lo=-1.0, hi=1.0)
        S2["trend"] = lambda *x, _a=a, _b=b: _a + _b * x[0]
        return S2["trend"], S2
    S2["normalizer"] = generic_normalizer(ctx)()
    return S2["normalizer"], S2


@contract(P, "CondSRF.mean/trend/normalizer.setter/equals-fresh-object",
          params=_params(VQ, [{"attr": a, "on": o, "refresh": r} for a in ("mean", "trend", "normalizer")
                              for o in ("CondSRF", "Krige") for r in (False, True)
                              if not (o == "Krige" and r)]),
          functions=FN_COH, nsamples=2, search=20)
def coh_reassign(ctx, variant, dim, attr, on, refresh, pre, next):
    S, cs = start(ctx, variant, dim, pre)
    val, S2 = _reassign(ctx, S, attr)
    setattr(cs if on == "CondSRF" else cs.krige, attr.split("-")[0], val)
    if refresh:
        _q(cs.krige.set_condition)
    finish(ctx, cs, S2, next)


# --- drift functions / measurement error (followed by the documented refresh) ------------
@contract(P, "Krige.set_drift_functions+set_condition()/equals-fresh-object",
          params=_params(("universal",), [{"to": "quadratic"}, {"to": "none"}]), functions=FN_COH +
          ["krige/base.py:Krige.set_drift_functions"], nsamples=2, search=20)
def coh_drift(ctx, variant, dim, to, pre, next):
    S, cs = start(ctx, variant, dim, pre)
    S2 = dict(S, drift=(2 if to == "quadratic" else None))
    _q(cs.krige.set_drift_functions, S2["drift"])
    _q(cs.krige.set_condition)
    finish(ctx, cs, S2, next)


@contract(P, "Krige.set_condition[cond_err]/equals-fresh-object", params=_params(VQ, [{"nug": "pos"}]),
          functions=FN_COH, nsamples=2, search=20)
def coh_cond_err(ctx, variant, dim, nug, pre, next):
    S, cs = start(ctx, variant, dim, pre, nug=nug)
    e = ctx.real("err", lo=0.01, hi=0.04)
    ctx.require(ctx.ge(e, 0))
    S2 = dict(S, cond_err=e)
    _q(cs.krige.set_condition, cond_err=e)
    s2 = ctx.integer("seed2", lo=1001, hi=2000)     # nugget > 0: a new seed restarts the noise stream
    ctx.require(ctx.ne(s2, S["seed"]))
    finish(ctx, cs, dict(S2, seed=s2), next, seed=s2)


# --- the Krige object used directly between two generations ------------------------------
@contract(P, "Krige.__call__-between-generations/equals-fresh-object", params=_params(VQ, [{}], pre=PRE[1:2]),
          functions=FN_COH, nsamples=2, search=20)
def coh_krige_direct(ctx, variant, dim, pre, next):
    """cs(g); cs.krige(g2); cs(g2): the kriging object is public and shares the positions"""
    S, cs = start(ctx, variant, dim, pre)
    pos2 = _new_targets(ctx, dim, "beyond")
    _q(cs.krige, pos2)
    finish(ctx, cs, S, "pos", pos=pos2)


# --- thorough tier: further kriging variants, dim 2, further pre-states -------------------
def _tier2(fn, cid, params, **kw):
    contract(P, cid, params=params, functions=FN_COH, nsamples=2, search=20, tiers=("thorough",), **kw)(fn)


_tier2(coh_seed, "CondSRF.__call__[seed]/equals-fresh-object[more]",
       _params(VT, [{"nug": "zero"}]) + _params(VQ, [{"nug": "zero"}], dims=(2,)) +
       _params(VQ, [{"nug": "zero"}, {"nug": "pos"}], pre=PRE_T[3:]))
_tier2(coh_condition, "Krige.set_condition/equals-fresh-object[more]",
       _params(VT, [{"what": w} for w in ("values", "both", "fewer")]) +
       _params(VQ, [{"what": "both"}], dims=(2,)) + _params(VQ, [{"what": "both"}], pre=PRE_T[3:]))
_tier2(coh_model_assign, "CondSRF.model.setter/equals-fresh-object[more]",
       _params(VT, [{"on": "CondSRF", "refresh": r} for r in (False, True)]) +
       _params(VQ, [{"on": "CondSRF", "refresh": False}], dims=(2,)))
_tier2(coh_model_inplace, "CovModel-in-place-change+set_condition()/equals-fresh-object[more]",
       _params(VT, INPLACE[:2]) + _params(VQ, INPLACE[:2], dims=(2,)))
_tier2(coh_reassign, "CondSRF.mean/trend/normalizer.setter/equals-fresh-object[more]",
       _params(VT, [{"attr": a, "on": "CondSRF", "refresh": False} for a in ("trend", "normalizer")]) +
       _params(VQ, [{"attr": "trend-callable", "on": "CondSRF", "refresh": False}]) +
       _params(VQ, [{"attr": "mean", "on": "CondSRF", "refresh": False}], dims=(2,)))


# ---------------------------------------------------------------------------------------
# (c) static frame facts: write sets of the mutators against the read set of the kriging call
# ---------------------------------------------------------------------------------------
SETUP_DERIVED = {"_krige_mat", "_krige_pos"}
BOOKKEEPING = {"_field_names", "_field_shape", "_value_type", "_dim"}
# (class the method runs on, file, qualname or property name, role, kind)
#   kind "complete": the statement lists the operation as one after which the next field equals a fresh
#                    object's => it must itself delete / recompute what depends on what it writes
#   kind "refresh":  documented protocol "call set_condition() afterwards" (Krige class docstring)
#   kind "forward":  CondSRF property that only forwards to the Krige property of the same name
MUTATORS = [
    ("Krige", "krige/base.py", "Krige.set_condition", None, "complete"),
    ("Krige", "field/base.py", "Field.set_pos", None, "complete"),
    ("CondSRF", "field/cond_srf.py", "CondSRF.set_pos", None, "complete"),
    ("Krige", None, "model", "setter", "complete"),
    ("Krige", None, "mean", "setter", "complete"),
    ("Krige", None, "trend", "setter", "complete"),
    ("Krige", None, "normalizer", "setter", "complete"),
    ("CondSRF", None, "model", "setter", "forward"),
    ("CondSRF", None, "mean", "setter", "forward"),
    ("CondSRF", None, "trend", "setter", "forward"),
    ("CondSRF", None, "normalizer", "setter", "forward"),
    ("Krige", "krige/base.py", "Krige.set_drift_functions", None, "refresh"),
    ("Krige", None, "cond_err", "setter", "refresh"),
]


def _native_scenarios():
    """concrete call histories for the native confirmation of a failed dataflow fact"""
    import gstools as gs

    def model(**kw):
        return gs.Exponential(dim=1, var=kw.get("var", 1.3), len_scale=kw.get("len_scale", 0.8))

    def mk(vals=(1.0, 2.0), cpos=(0.25, 1.5), mean=0.0, trend=None, normalizer=None, **mkw):
        k = gs.krige.Simple(model(**mkw), [list(cpos)], list(vals), mean=mean, trend=trend, normalizer=normalizer)
        return gs.CondSRF(k, seed=7, mode_no=4)

    g = [[0.25, 0.7, 1.5]]
    nz = gs.normalizer.LogNormal
    g2 = [[0.3, 0.9, 1.4]]
    sc = {
        "Krige.set_pos": ("cs(g); cs([[0.3, 0.9, 1.4]])", None, None),
        "CondSRF.set_pos": ("cs(g); cs([[0.3, 0.9, 1.4]])", None, None),
        "Krige.set_condition": ("cs(g); cs.krige.set_condition([[0.25, 1.5]], [5.0, -3.0]); cs(g)",
                                lambda cs: cs.krige.set_condition([[0.25, 1.5]], [5.0, -3.0]),
                                lambda: mk(vals=(5.0, -3.0))),
        "Krige.model.setter": ("cs(g); cs.krige.model = Exponential(dim=1, var=2.0, len_scale=0.3); cs(g)",
                               lambda cs: setattr(cs.krige, "model", model(var=2.0, len_scale=0.3)),
                               lambda: mk(var=2.0, len_scale=0.3)),
        "Krige.mean.setter": ("cs(g); cs.krige.mean = 4.0; cs(g)", lambda cs: setattr(cs.krige, "mean", 4.0),
                              lambda: mk(mean=4.0)),
        "Krige.trend.setter": ("cs(g); cs.krige.trend = 4.0; cs(g)", lambda cs: setattr(cs.krige, "trend", 4.0),
                               lambda: mk(trend=4.0)),
        "Krige.normalizer.setter": ("cs(g); cs.krige.normalizer = LogNormal(); cs(g)",
                                    lambda cs: setattr(cs.krige, "normalizer", nz()), lambda: mk(normalizer=nz())),
    }
    return sc, mk, g


# the symbolic coherence contract that covers a mutator (exact; the dataflow pattern is only sufficient)
COVERED_BY = {
    "Krige.set_condition": "Krige.set_condition/equals-fresh-object/",
    "Krige.set_pos": "CondSRF.set_pos/equals-fresh-object/",
    "CondSRF.set_pos": "CondSRF.set_pos/equals-fresh-object/",
    "Krige.model.setter": "CondSRF.model.setter/equals-fresh-object/",
    "Krige.mean.setter": "CondSRF.mean/trend/normalizer.setter/equals-fresh-object/",
    "Krige.trend.setter": "CondSRF.mean/trend/normalizer.setter/equals-fresh-object/",
    "Krige.normalizer.setter": "CondSRF.mean/trend/normalizer.setter/equals-fresh-object/",
    "CondSRF.model.setter": "CondSRF.model.setter/equals-fresh-object/",
    "CondSRF.mean.setter": "CondSRF.mean/trend/normalizer.setter/equals-fresh-object/",
    "CondSRF.trend.setter": "CondSRF.mean/trend/normalizer.setter/equals-fresh-object/",
    "CondSRF.normalizer.setter": "CondSRF.mean/trend/normalizer.setter/equals-fresh-object/",
    "Krige.set_drift_functions": "Krige.set_drift_functions+set_condition()/equals-fresh-object/",
    "Krige.cond_err.setter": "Krige.set_condition[cond_err]/equals-fresh-object/",
}


def native_probe(name):
    """None if the history ends in the field of a fresh object, else a witness dict"""
    sc, mk, g = _native_scenarios()
    if name not in sc:
        return None
    text, mutate, fresh = sc[name]
    with warnings.catch_warnings():
        warnings.simplefilter("ignore")
        cs = mk()
        cs(g)
        if mutate is None:      # new target positions
            got = cs([[0.3, 0.9, 1.4]])
            want = mk()([[0.3, 0.9, 1.4]])
        else:
            mutate(cs)
            got = cs(g)
            want = fresh()(g)
    if np.allclose(got, want, rtol=1e-9, atol=1e-12):
        return None
    return {"history": "cs = CondSRF(Simple(Exponential(dim=1, var=1.3, len_scale=0.8), [[0.25, 1.5]], [1.0, 2.0], "
                       "mean=0.0), seed=7, mode_no=4); g = [[0.25, 0.7, 1.5]]; " + text,
            "got": [float(x) for x in got], "fresh_object": [float(x) for x in want]}


def frame_obligations(rep, only=None):
    import time
    from gsvc import frames
    from gsvc.core import Obligation, DISCHARGED, FAILED, UNDECIDED
    if only and "frames" not in only:
        return
    t0 = time.time()
    pkg = frames.get_package(None)

    def rw(cls, rel, qual, role, want):
        if rel is not None:
            fi = frames._find(pkg, rel, qual)
            return fi, frames._rw(pkg, fi, cls, set(), want)
        found, fs = pkg.lookup_prop(cls, qual, role, virtual=False)
        if not found or not fs:
            raise KeyError("frames: no %s of property %s on class %s" % (role, qual, cls))
        out = set()
        for f in fs:
            out |= frames._rw(pkg, f, cls, set(), want)
        return fs[0], out

    # what the stored kriging fields depend on: everything Krige.__call__ reads from the object
    _, R = rw("Krige", "krige/base.py", "Krige.__call__", None, "r")
    setup = {a[5:] for a in R if a.startswith("self._") and not a.startswith("self.__") and "." not in a[5:]
             and "(" not in a} - BOOKKEEPING
    _, Wsc = rw("Krige", "krige/base.py", "Krige.set_condition", None, "w")
    _, Rsc = rw("Krige", "krige/base.py", "Krige.set_condition", None, "r")
    obls = []

    def add(oid, ok, detail, fns, probe=None, mutator=None):
        status, witness, backend = DISCHARGED, None, "dataflow"
        if not ok:
            w = native_probe(probe) if probe else None
            status, witness = (FAILED, w) if w else (UNDECIDED, None)
            if w:
                detail += "; native history reproduces: " + w["history"]
            else:
                # the syntactic pattern is sufficient, not necessary: the exact statement is the symbolic
                # coherence contract of this mutator; if all its obligations were discharged in this run the
                # fact is covered by them
                pre = "C07/" + COVERED_BY.get(mutator or "", "\0")
                cov = [o for o in rep.obls if o.id.startswith(pre)]
                if cov and all(o.status == DISCHARGED for o in cov):
                    status, backend = DISCHARGED, "symrun"
                    detail += "; dataflow pattern not matched, covered by the %d discharged obligations %s*" % (len(cov), pre)
        obls.append(Obligation("C07/frames/" + oid, status, backend=backend, detail=detail, witness=witness,
                               functions=fns, replay={"native_probe": probe, "witness": witness}))

    add("Krige.__call__/setup-read-set-nonempty", {"_cond_val", "_krige_mat", "_model", "_mean"} <= setup,
        "attributes the kriging result depends on: %s" % sorted(setup), ["krige/base.py:Krige.__call__"])
    add("Krige.set_condition/recomputes-derived-state",
        {"self." + a for a in SETUP_DERIVED} <= Wsc and
        {"self._drift_functions", "self._cond_err", "self._model", "self._cond_ext_drift"} <= Rsc,
        "set_condition() (the documented refresh) rewrites %s from the current setup attributes" % sorted(SETUP_DERIVED),
        ["krige/base.py:Krige.set_condition"])
    for cls, rel, qual, role, kind in MUTATORS:
        name = "%s.%s%s" % (cls, qual.split(".")[-1], "." + role if role else "")
        try:
            fi, W = rw(cls, rel, qual, role, "w")
        except KeyError as e:
            add(name + "/resolved", False, str(e), [])
            continue
        fkey = [fi.key]
        written = {a[5:] for a in W if a.startswith("self._")}
        hits = sorted(written & setup)
        if kind == "forward":
            attr = qual
            ok = W == {"self.krige." + attr} or W == {"self.krige." + attr, "self.krige"}
            add(name + "/forwards-to-Krige.%s.setter-only" % attr, ok,
                "write set %s: coherence reduces to the obligation on Krige.%s.setter" % (sorted(W), attr), fkey,
                mutator=name)
            continue
        deletes = "self._field_names" in W and "self.*" in W        # Field.delete_fields / __delitem__
        if cls == "CondSRF":
            deletes = deletes and "self.krige.delete_fields()" in W
            hits = hits or sorted(a for a in W if a.startswith("self.krige."))
        if kind == "complete":
            add(name + "/writes-setup=>deletes-stored-fields", (not hits) or deletes,
                "writes %s of the kriging setup; deletes stored fields: %s (write set %s)"
                % (hits, deletes, sorted(W)), fkey, probe=name, mutator=name)
            if deletes is False and hits:
                continue
        else:
            hits = sorted(written & (setup | {a[5:] for a in Rsc if a.startswith("self._")}))
            ok = bool(hits) and not (written - set(hits) - BOOKKEEPING) and set(hits) <= {a[5:] for a in Rsc}
            add(name + "/writes-only-setup-attributes-reread-by-set_condition()", ok,
                "writes %s, all of them read again by set_condition() (documented refresh)" % hits, fkey, mutator=name)
    dt = time.time() - t0
    for o in obls:
        o.time_s = dt / max(1, len(obls))
        rep.add(o)
    rep.extra["frames"] = {"functions_analysed": len(pkg.funcs), "setup_read_set": sorted(setup), "dataflow_s": round(dt, 2)}
