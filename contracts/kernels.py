"""Sidecar contracts of the three Cython kernels (kernvc engine).

Written from the mathematical definitions (DESIGN.md Appendix A, property statements C08 / C15,
the documented Matheron / Cressie / haversine formulas), NOT from what the code happens to do.
Preconditions of helpers and the array-shape preconditions are taken from the call sites.

Language (see gsvc/kern_spec.py): Python expressions over the parameters, ``result``, the locals
(in loop invariants), plus
    forall(x, lo, hi, P)   lo <= x < hi  =>  P        implies(a, b)   iff(a, b)   ite(c, a, b)
    b2i(c) = 1 if c else 0        int32(x) : x fits a C int        is_none(x)
    entry(A) value of A on entry of the loop the invariant belongs to;  old(A) value at call
    col(A, j) column view   row(A, d) row view   fptr('name') address of a module function
SPEC: recursive sums   f(.., n) = sum_{v = lo}^{n-1} term   (``sum=(v, lo, n)``) or definitions
(``body``).  Sorts: I int, R real, B bool, S string, A1/A2 real arrays, A1i/A2i int arrays,
A2n real rank-2 array with NaN flags, A2u uint8 rank-2 array.
"""
import numpy as np

_PHI = "phi(cov, pos, i, jj, D)"

SPEC = {
    # ------------------------------------------------------------------ summator / krigesum
    "phi": dict(doc="phase  k_j . x_i  over the first d coordinates",
                params=[("cov", "A2"), ("pos", "A2"), ("i", "I"), ("j", "I"), ("d", "I")], ret="R",
                sum=("dd", "0", "d"), term="cov[dd, j] * pos[dd, i]"),
    "S": dict(doc="randomization sum  sum_j z1_j cos(k_j.x_i) + z2_j sin(k_j.x_i)",
              params=[("cov", "A2"), ("z1", "A1"), ("z2", "A1"), ("pos", "A2"), ("i", "I"), ("D", "I"),
                      ("J", "I")], ret="R",
              sum=("jj", "0", "J"), term="z1[jj] * cos(%s) + z2[jj] * sin(%s)" % (_PHI, _PHI)),
    "Sf": dict(doc="Fourier sum  sum_j sf_j (z1_j cos + z2_j sin)",
               params=[("sf", "A1"), ("cov", "A2"), ("z1", "A1"), ("z2", "A1"), ("pos", "A2"),
                       ("i", "I"), ("D", "I"), ("J", "I")], ret="R",
               sum=("jj", "0", "J"),
               term="sf[jj] * (z1[jj] * cos(%s) + z2[jj] * sin(%s))" % (_PHI, _PHI)),
    "sumsq": dict(doc="squared euclidean norm of the first n entries",
                  params=[("v", "A1"), ("n", "I")], ret="R", sum=("x", "0", "n"), term="v[x] * v[x]"),
    "SI": dict(doc="incompressible sum, component dd:  sum_j (delta_{dd,0} - k_dd k_0 / |k|^2)(...)",
               params=[("cov", "A2"), ("z1", "A1"), ("z2", "A1"), ("pos", "A2"), ("dd", "I"), ("i", "I"),
                       ("D", "I"), ("Dc", "I"), ("J", "I")], ret="R",
               sum=("jj", "0", "J"),
               term="(b2i(dd == 0) - cov[dd, jj] * cov[0, jj] / sumsq(col(cov, jj), Dc)) * "
                    "(z1[jj] * cos(%s) + z2[jj] * sin(%s))" % (_PHI, _PHI)),
    "q": dict(doc="(M V)[i, k] over the first J columns",
              params=[("M", "A2"), ("Vv", "A2"), ("i", "I"), ("k", "I"), ("J", "I")], ret="R",
              sum=("jj", "0", "J"), term="M[i, jj] * Vv[jj, k]"),
    "Fk": dict(doc="kriging field  sum_i c_i (M V)[i,k]",
               params=[("M", "A2"), ("Vv", "A2"), ("c", "A1"), ("k", "I"), ("m", "I"), ("Ii", "I")],
               ret="R", sum=("ii", "0", "Ii"), term="c[ii] * q(M, Vv, ii, k, m)"),
    "Ek": dict(doc="kriging variance term  sum_i V[i,k] (M V)[i,k]",
               params=[("M", "A2"), ("Vv", "A2"), ("k", "I"), ("m", "I"), ("Ii", "I")],
               ret="R", sum=("ii", "0", "Ii"), term="Vv[ii, k] * q(M, Vv, ii, k, m)"),
}

_NT_REQ = "implies(not is_none(num_threads), int32(num_threads))"

_SET_NUM_THREADS = dict(
    doc="returns the given count, or 1 (no OpenMP build) / the processor count (OpenMP build)",
    ret="int",
    requires=[_NT_REQ],
    ensures={"given": "implies(not is_none(num_threads), result == num_threads)",
             "default": "implies(is_none(num_threads) and not OPENMP, result == 1)",
             "positive_default": "implies(is_none(num_threads), result >= 1)",
             "fits_int": "int32(result)"},
)


def _shapes32(*names):
    return ["int32(%s)" % n for n in names]


CONTRACTS = {}

# ------------------------------------------------------------------------------------- summator
CONTRACTS["field/summator.pyx:set_num_threads"] = _SET_NUM_THREADS
CONTRACTS["krige/krigesum.pyx:set_num_threads"] = _SET_NUM_THREADS
CONTRACTS["variogram/estimator.pyx:set_num_threads"] = _SET_NUM_THREADS

CONTRACTS["field/summator.pyx:summate"] = dict(
    abbrev={"Sx(x, J)": "S(cov_samples, z_1, z_2, pos, x, pos.shape[0], J)",
            "N()": "cov_samples.shape[1]"},
    requires=_shapes32("pos.shape[0]", "pos.shape[1]", "cov_samples.shape[1]") + [
        "cov_samples.shape[0] >= pos.shape[0]", "z_1.shape[0] >= cov_samples.shape[1]",
        "z_2.shape[0] >= cov_samples.shape[1]", _NT_REQ],
    ensures={"shape": "result.shape[0] == pos.shape[1]",
             "sum": "forall(x, 0, pos.shape[1], result[x] == Sx(x, N()))"},
    invariants={
        "i": ["forall(x, 0, i, summed_modes[x] == Sx(x, N()))",
              "forall(x, i, pos.shape[1], summed_modes[x] == 0)"],
        "j": ["summed_modes[i] == Sx(i, j)"],
        "d": ["phase == phi(cov_samples, pos, i, j, d)"]},
    post={"d": ["phase == phi(cov_samples, pos, i, j, pos.shape[0])"],
          "j": ["summed_modes[i] == Sx(i, N())"]},
)

CONTRACTS["field/summator.pyx:summate_fourier"] = dict(
    abbrev={"Sx(x, J)": "Sf(spectrum_factor, modes, z_1, z_2, pos, x, pos.shape[0], J)",
            "N()": "modes.shape[1]"},
    requires=_shapes32("pos.shape[0]", "pos.shape[1]", "modes.shape[1]") + [
        "modes.shape[0] >= pos.shape[0]", "z_1.shape[0] >= modes.shape[1]",
        "z_2.shape[0] >= modes.shape[1]", "spectrum_factor.shape[0] >= modes.shape[1]", _NT_REQ],
    ensures={"shape": "result.shape[0] == pos.shape[1]",
             "sum": "forall(x, 0, pos.shape[1], result[x] == Sx(x, N()))"},
    invariants={
        "i": ["forall(x, 0, i, summed_modes[x] == Sx(x, N()))",
              "forall(x, i, pos.shape[1], summed_modes[x] == 0)"],
        "j": ["summed_modes[i] == Sx(i, j)"],
        "d": ["phase == phi(modes, pos, i, j, d)"]},
    post={"d": ["phase == phi(modes, pos, i, j, pos.shape[0])"],
          "j": ["summed_modes[i] == Sx(i, N())"]},
)

CONTRACTS["field/summator.pyx:abs_square"] = dict(
    requires=["int32(vec.shape[0])"],
    ensures={"sumsq": "result == sumsq(vec, vec.shape[0])"},
    invariants={"i": ["r == sumsq(vec, i)"]},
)

CONTRACTS["field/summator.pyx:summate_incompr"] = dict(
    abbrev={"SIx(dd, x, J)": "SI(cov_samples, z_1, z_2, pos, dd, x, pos.shape[0], "
                             "cov_samples.shape[0], J)",
            "N()": "cov_samples.shape[1]", "D()": "pos.shape[0]", "X()": "pos.shape[1]"},
    requires=_shapes32("pos.shape[0]", "pos.shape[1]", "cov_samples.shape[1]",
                       "cov_samples.shape[0]") + [
        "pos.shape[0] >= 1", "cov_samples.shape[0] >= pos.shape[0]",
        "z_1.shape[0] >= cov_samples.shape[1]", "z_2.shape[0] >= cov_samples.shape[1]",
        # cdivision=True: a zero wave vector silently gives inf/NaN -> precondition
        "forall(jj, 0, cov_samples.shape[1], "
        "sumsq(col(cov_samples, jj), cov_samples.shape[0]) != 0)"],
    ensures={"shape": "result.shape[0] == pos.shape[0] and result.shape[1] == pos.shape[1]",
             "sum": "forall(dd, 0, D(), forall(x, 0, X(), result[dd, x] == SIx(dd, x, N())))"},
    invariants={
        "i": ["forall(dd, 0, D(), forall(x, 0, i, summed_modes[dd, x] == SIx(dd, x, N())))",
              "forall(dd, 0, D(), forall(x, i, X(), summed_modes[dd, x] == 0))"],
        "j": ["forall(dd, 0, D(), summed_modes[dd, i] == SIx(dd, i, j))"],
        "d#1": ["phase == phi(cov_samples, pos, i, j, d)"],
        "d#2": ["forall(dd, 0, d, summed_modes[dd, i] == SIx(dd, i, j + 1))",
                "forall(dd, d, D(), summed_modes[dd, i] == SIx(dd, i, j))"]},
    post={"d#1": ["phase == phi(cov_samples, pos, i, j, pos.shape[0])"],
          "d#2": ["forall(dd, 0, D(), summed_modes[dd, i] == SIx(dd, i, j + 1))"],
          "j": ["forall(dd, 0, D(), summed_modes[dd, i] == SIx(dd, i, N()))"]},
)

# -------------------------------------------------------------------------------------- krigesum
_KR_REQ = _shapes32("krig_mat.shape[0]", "krig_vecs.shape[1]") + [
    "krig_mat.shape[1] >= krig_mat.shape[0]", "krig_vecs.shape[0] >= krig_mat.shape[0]",
    "cond.shape[0] >= krig_mat.shape[0]", _NT_REQ]
_KR_ABB = {"F(x, I)": "Fk(krig_mat, krig_vecs, cond, x, krig_mat.shape[0], I)",
           "E(x, I)": "Ek(krig_mat, krig_vecs, x, krig_mat.shape[0], I)",
           "m()": "krig_mat.shape[0]", "T()": "krig_vecs.shape[1]"}

CONTRACTS["krige/krigesum.pyx:calc_field_krige_and_variance"] = dict(
    abbrev=_KR_ABB, requires=_KR_REQ,
    ensures={"shape": "result[0].shape[0] == T() and result[1].shape[0] == T()",
             "field": "forall(x, 0, T(), result[0][x] == F(x, m()))",
             "error": "forall(x, 0, T(), result[1][x] == E(x, m()))"},
    invariants={
        "k": ["forall(x, 0, k, field[x] == F(x, m()))", "forall(x, 0, k, error[x] == E(x, m()))",
              "forall(x, k, T(), field[x] == 0)", "forall(x, k, T(), error[x] == 0)"],
        "i": ["field[k] == F(k, i)", "error[k] == E(k, i)"],
        "j": ["krig_fac == q(krig_mat, krig_vecs, i, k, j)"]},
    post={"j": ["krig_fac == q(krig_mat, krig_vecs, i, k, m())"],
          "i": ["field[k] == F(k, m())", "error[k] == E(k, m())"]},
)

CONTRACTS["krige/krigesum.pyx:calc_field_krige"] = dict(
    abbrev=_KR_ABB, requires=_KR_REQ,
    ensures={"shape": "result.shape[0] == T()",
             "field": "forall(x, 0, T(), result[x] == F(x, m()))"},
    invariants={
        "k": ["forall(x, 0, k, field[x] == F(x, m()))", "forall(x, k, T(), field[x] == 0)"],
        "i": ["field[k] == F(k, i)"],
        "j": ["krig_fac == q(krig_mat, krig_vecs, i, k, j)"]},
    post={"j": ["krig_fac == q(krig_mat, krig_vecs, i, k, m())"],
          "i": ["field[k] == F(k, m())"]},
)


# ------------------------------------------------------------------------- input generators (native)
def _gen_summate(rng, size, fourier=False, incompr=False):
    D = int(rng.integers(1, 4)) if (incompr or size > 0) else int(rng.integers(0, 4))
    N = int(rng.integers(0, size + 1))
    X = int(rng.integers(0, size + 1))
    Dc = D + int(rng.integers(0, 2))
    cov = rng.normal(size=(Dc, N))
    inp = {}
    if fourier:
        inp["spectrum_factor"] = rng.normal(size=N + int(rng.integers(0, 2)))
        inp["modes"] = cov
    else:
        inp["cov_samples"] = cov
    inp["z_1"] = rng.normal(size=N + int(rng.integers(0, 2)))
    inp["z_2"] = rng.normal(size=N)
    inp["pos"] = rng.normal(size=(D, X))
    inp["num_threads"] = [None, 1, 2][int(rng.integers(0, 3))]
    return inp


def _gen_krige(rng, size):
    m = int(rng.integers(0, size + 1))
    T = int(rng.integers(0, size + 1))
    return {"krig_mat": rng.normal(size=(m, m + int(rng.integers(0, 2)))),
            "krig_vecs": rng.normal(size=(m + int(rng.integers(0, 2)), T)),
            "cond": rng.normal(size=m), "num_threads": [None, 1, 3][int(rng.integers(0, 3))]}


CONTRACTS["field/summator.pyx:summate"]["gen"] = lambda rng, size: _gen_summate(rng, size)
CONTRACTS["field/summator.pyx:summate_fourier"]["gen"] = lambda rng, size: _gen_summate(rng, size, fourier=True)
CONTRACTS["field/summator.pyx:summate_incompr"]["gen"] = lambda rng, size: _gen_summate(rng, size, incompr=True)
CONTRACTS["field/summator.pyx:abs_square"]["gen"] = lambda rng, size: {"vec": rng.normal(size=int(rng.integers(0, size + 1)))}
CONTRACTS["krige/krigesum.pyx:calc_field_krige_and_variance"]["gen"] = _gen_krige
CONTRACTS["krige/krigesum.pyx:calc_field_krige"]["gen"] = _gen_krige
_SET_NUM_THREADS["gen"] = lambda rng, size: {"num_threads": [None, 1, 2, 7][int(rng.integers(0, 4))]}


# =====================================================================================================
# variogram/estimator.pyx
# =====================================================================================================
_DEG = "(M_PI / 180.0)"
_HAV = ("(sin((pos[0, b] - pos[0, a]) * %s / 2.0) ** 2 + cos(pos[0, a] * %s) * cos(pos[0, b] * %s) * "
        "sin((pos[1, b] - pos[1, a]) * %s / 2.0) ** 2)" % (_DEG, _DEG, _DEG, _DEG))
_SP = "sprod(pos, dirs, a, b, d, D)"
# pair (a, b) with a < b; direction test is evaluated on v = x_b - x_a
_DT = "dirtest(pos, dirs, D, dist_e(pos, a, kk, D), tol, bw, kk, a, d)"
_VALID = "(not isnan(f[mm, a]) and not isnan(f[mm, b]))"
_CRESSIE_DEN = "(0.457 + 0.494 / max(c, 1) + 0.045 / (max(c, 1) * max(c, 1)))"

_U = [("f", "A2n"), ("edges", "A1"), ("pos", "A2"), ("dt", "S"), ("D", "I"), ("F", "I")]
_UARGS = "f, edges, pos, dt, D, F"
_DP = [("f", "A2n"), ("edges", "A1"), ("pos", "A2"), ("dirs", "A2"), ("tol", "R"), ("bw", "R"),
       ("fm", "B"), ("D", "I"), ("F", "I")]
_DARGS = "f, edges, pos, dirs, tol, bw, fm, D, F"
_MEMBER = ("(inbin(edges, i, dist_e(pos, a, kk, D)) and %s and "
           "(not fm or forall(dp, 0, d, not dirtest(pos, dirs, D, dist_e(pos, a, kk, D), tol, bw, kk, a, dp))))"
           % _DT)

SPEC.update({
    # -------------------------------------------------------------- distances
    "sqd": dict(doc="squared euclidean distance of points a, b over the first D coordinates",
                params=[("pos", "A2"), ("a", "I"), ("b", "I"), ("D", "I")], ret="R",
                sum=("dd", "0", "D"), term="(pos[dd, a] - pos[dd, b]) * (pos[dd, a] - pos[dd, b])"),
    "dist_e": dict(params=[("pos", "A2"), ("a", "I"), ("b", "I"), ("D", "I")], ret="R",
                   body="sqrt(sqd(pos, a, b, D))"),
    "hav_a": dict(doc="haversine argument, lat/lon in degrees",
                  params=[("pos", "A2"), ("a", "I"), ("b", "I")], ret="R", body=_HAV),
    "dist_h": dict(doc="great-circle distance on the unit sphere  2 atan2(sqrt a, sqrt(1-a))",
                   params=[("pos", "A2"), ("a", "I"), ("b", "I")], ret="R",
                   body="2.0 * atan2(sqrt(hav_a(pos, a, b)), sqrt(1.0 - hav_a(pos, a, b)))"),
    "dist": dict(params=[("pos", "A2"), ("dt", "S"), ("a", "I"), ("b", "I"), ("D", "I")], ret="R",
                 body="ite(dt == 'e', dist_e(pos, a, b, D), dist_h(pos, a, b))"),
    # -------------------------------------------------------------- direction test
    "sprod": dict(doc="(x_a - x_b) . u_d", ret="R",
                  params=[("pos", "A2"), ("dirs", "A2"), ("a", "I"), ("b", "I"), ("d", "I"), ("K", "I")],
                  sum=("kk", "0", "K"), term="(pos[kk, a] - pos[kk, b]) * dirs[d, kk]"),
    "bd2": dict(doc="squared distance of x_a - x_b from the line spanned by u_d", ret="R",
                params=[("pos", "A2"), ("dirs", "A2"), ("a", "I"), ("b", "I"), ("d", "I"), ("s", "R"),
                        ("K", "I")],
                sum=("kk", "0", "K"),
                term="((pos[kk, a] - pos[kk, b]) - s * dirs[d, kk]) * ((pos[kk, a] - pos[kk, b]) - s * dirs[d, kk])"),
    "dirtest": dict(
        doc="pair vector v = x_a - x_b is in direction d: inside the band (if bandwidth > 0) and "
            "angle(v, u_d) < tol; conventions: |v| = 0 counts as in-angle, |v.u|/|v| >= 1 as aligned",
        params=[("pos", "A2"), ("dirs", "A2"), ("D", "I"), ("dst", "R"), ("tol", "R"), ("bw", "R"),
                ("a", "I"), ("b", "I"), ("d", "I")], ret="B",
        body="implies(bw > 0.0, sqrt(bd2(pos, dirs, a, b, d, %s, D)) < bw) and "
             "implies(dst > 0.0 and fabs(%s) / dst < 1.0, acos(fabs(%s) / dst) < tol)" % (_SP, _SP, _SP)),
    # -------------------------------------------------------------- estimators
    "est": dict(doc="Matheron (df)^2 / Cressie |df|^(1/2)", params=[("t", "S"), ("x", "R")], ret="R",
                body="ite(t == 'm', x * x, sqrt(fabs(x)))"),
    "norm": dict(doc="Matheron S/(2N); Cressie-Hawkins 1/2 (S/N)^4 / (0.457 + 0.494/N + 0.045/N^2); N := max(N, 1)",
                 params=[("t", "S"), ("s", "R"), ("c", "I")], ret="R",
                 body="ite(t == 'm', s / (2.0 * max(c, 1)), "
                      "0.5 * (s / max(c, 1)) ** 4 / %s)" % _CRESSIE_DEN),
    "inbin": dict(doc="half-open bin", params=[("edges", "A1"), ("i", "I"), ("dst", "R")], ret="B",
                  body="edges[i] <= dst and dst < edges[i + 1]"),
    "Cm": dict(doc="number of fields with both values present", ret="I",
               params=[("f", "A2n"), ("a", "I"), ("b", "I"), ("M", "I")],
               sum=("mm", "0", "M"), term=_VALID),
    "Sm": dict(doc="sum over fields of est(f_b - f_a), missing values skipped", ret="R",
               params=[("f", "A2n"), ("t", "S"), ("a", "I"), ("b", "I"), ("M", "I")],
               sum=("mm", "0", "M"), term="ite(%s, est(t, f[mm, b] - f[mm, a]), 0.0)" % _VALID),
    # -------------------------------------------------------------- unstructured: pairs a < kk
    "CkU": dict(ret="I", params=_U + [("n", "I"), ("i", "I"), ("a", "I"), ("K", "I")],
                sum=("kk", "a + 1", "K"),
                term="ite(inbin(edges, i, dist(pos, dt, a, kk, D)), Cm(f, a, kk, F), 0)"),
    "CjU": dict(ret="I", params=_U + [("n", "I"), ("i", "I"), ("J", "I")],
                sum=("jj", "0", "J"), term="CkU(%s, n, i, jj, n)" % _UARGS),
    "SkU": dict(ret="R", params=_U + [("t", "S"), ("n", "I"), ("i", "I"), ("a", "I"), ("K", "I")],
                sum=("kk", "a + 1", "K"),
                term="ite(inbin(edges, i, dist(pos, dt, a, kk, D)), Sm(f, t, a, kk, F), 0.0)"),
    "SjU": dict(ret="R", params=_U + [("t", "S"), ("n", "I"), ("i", "I"), ("J", "I")],
                sum=("jj", "0", "J"), term="SkU(%s, t, n, i, jj, n)" % _UARGS),
    # -------------------------------------------------------------- directional
    # fm = False: the definition (a pair belongs to direction d iff it passes the direction test)
    # fm = True : first-match semantics of separated directions (kernel level, Appendix A)
    "CkD": dict(ret="I", params=_DP + [("n", "I"), ("d", "I"), ("i", "I"), ("a", "I"), ("K", "I")],
                sum=("kk", "a + 1", "K"), term="ite(%s, Cm(f, a, kk, F), 0)" % _MEMBER),
    "CjD": dict(ret="I", params=_DP + [("n", "I"), ("d", "I"), ("i", "I"), ("J", "I")],
                sum=("jj", "0", "J"), term="CkD(%s, n, d, i, jj, n)" % _DARGS),
    "SkD": dict(ret="R", params=_DP + [("t", "S"), ("n", "I"), ("d", "I"), ("i", "I"), ("a", "I"), ("K", "I")],
                sum=("kk", "a + 1", "K"), term="ite(%s, Sm(f, t, a, kk, F), 0.0)" % _MEMBER),
    "SjD": dict(ret="R", params=_DP + [("t", "S"), ("n", "I"), ("d", "I"), ("i", "I"), ("J", "I")],
                sum=("jj", "0", "J"), term="SkD(%s, t, n, d, i, jj, n)" % _DARGS),
    # -------------------------------------------------------------- along-axis estimator
    "St": dict(doc="row i against row i+kk over the first J columns", ret="R",
               params=[("f", "A2"), ("t", "S"), ("kk", "I"), ("i", "I"), ("J", "I")],
               sum=("jj", "0", "J"), term="est(t, f[i, jj] - f[i + kk, jj])"),
    "Ss": dict(ret="R", params=[("f", "A2"), ("t", "S"), ("kk", "I"), ("J", "I"), ("I", "I")],
               sum=("ii", "0", "I"), term="St(f, t, kk, ii, J)"),
    "Ct": dict(doc="number of pairs in one row", ret="I", params=[("J", "I")], sum=("jj", "0", "J"), term="1"),
    "Cs": dict(ret="I", params=[("J", "I"), ("I", "I")], sum=("ii", "0", "I"), term="Ct(J)"),
    "Mt": dict(doc="masked: pair counted iff both cells unmasked", ret="R",
               params=[("f", "A2"), ("mask", "A2u"), ("t", "S"), ("kk", "I"), ("i", "I"), ("J", "I")],
               sum=("jj", "0", "J"),
               term="ite(mask[i, jj] == 0 and mask[i + kk, jj] == 0, est(t, f[i, jj] - f[i + kk, jj]), 0.0)"),
    "Ms": dict(ret="R", params=[("f", "A2"), ("mask", "A2u"), ("t", "S"), ("kk", "I"), ("J", "I"), ("I", "I")],
               sum=("ii", "0", "I"), term="Mt(f, mask, t, kk, ii, J)"),
    "MCt": dict(ret="I", params=[("mask", "A2u"), ("kk", "I"), ("i", "I"), ("J", "I")],
                sum=("jj", "0", "J"), term="mask[i, jj] == 0 and mask[i + kk, jj] == 0"),
    "MCs": dict(ret="I", params=[("mask", "A2u"), ("kk", "I"), ("J", "I"), ("I", "I")],
                sum=("ii", "0", "I"), term="MCt(mask, kk, ii, J)"),
})

_E = "variogram/estimator.pyx:"
_IDX = ["0 <= i", "i < pos.shape[1]", "0 <= j", "j < pos.shape[1]"]

CONTRACTS[_E + "dist_euclid"] = dict(
    requires=["0 <= dim", "dim <= pos.shape[0]", "int32(dim)"] + _IDX,
    ensures={"dist": "result == dist_e(pos, i, j, dim)"},
    invariants={"d": ["dist_squared == sqd(pos, i, j, d)"]},
)
CONTRACTS[_E + "dist_haversine"] = dict(
    requires=["pos.shape[0] >= 2"] + _IDX,
    ensures={"dist": "result == dist_h(pos, i, j)"},
)
CONTRACTS[_E + "dir_test"] = dict(
    requires=["0 <= dim", "dim <= pos.shape[0]", "dim <= direction.shape[1]", "int32(dim)",
              "0 <= d", "d < direction.shape[0]"] + _IDX,
    ensures={"in_direction": "result == dirtest(pos, direction, dim, dist, angles_tol, bandwidth, i, j, d)"},
    invariants={"k#1": ["s_prod == sprod(pos, direction, i, j, d, k)"],
                "k#2": ["b_dist == bd2(pos, direction, i, j, d, s_prod, k)"]},
)
CONTRACTS[_E + "estimator_matheron"] = dict(ensures={"square": "result == f_diff * f_diff"})
CONTRACTS[_E + "estimator_cressie"] = dict(ensures={"sqrt_abs": "result == sqrt(fabs(f_diff))"})

_NREQ = ["int32(variogram.shape[0])", "counts.shape[0] >= variogram.shape[0]"]
for _t, _n in (("m", "matheron"), ("c", "cressie")):
    CONTRACTS[_E + "normalization_" + _n] = dict(
        modifies=["variogram"], requires=_NREQ,
        ensures={"normalized": "forall(x, 0, variogram.shape[0], "
                               "variogram[x] == norm('%s', old(variogram)[x], counts[x]))" % _t},
        invariants={"i": ["forall(x, 0, i, variogram[x] == norm('%s', entry(variogram)[x], counts[x]))" % _t,
                          "forall(x, i, variogram.shape[0], variogram[x] == entry(variogram)[x])"]},
    )
    CONTRACTS[_E + "normalization_%s_vec" % _n] = dict(
        modifies=["variogram"],
        requires=["int32(variogram.shape[0])", "int32(variogram.shape[1])",
                  "counts.shape[0] >= variogram.shape[0]", "counts.shape[1] >= variogram.shape[1]"],
        ensures={"normalized": "forall(dd, 0, variogram.shape[0], forall(x, 0, variogram.shape[1], "
                               "variogram[dd, x] == norm('%s', old(variogram)[dd, x], counts[dd, x])))" % _t},
        invariants={"d": ["forall(dd, 0, d, forall(x, 0, variogram.shape[1], variogram[dd, x] == "
                          "norm('%s', entry(variogram)[dd, x], counts[dd, x])))" % _t,
                          "forall(dd, d, variogram.shape[0], forall(x, 0, variogram.shape[1], "
                          "variogram[dd, x] == entry(variogram)[dd, x]))"]},
    )
# explicit hints for the Cressie normalisation (pure arithmetic lemmas, each proved on its own as
# obligation lemma.<name>, then instantiated at the loop body): keeps the loop VC free of non-linear search
CONTRACTS[_E + "normalization_cressie"]["lemmas"] = {
    "reciprocal": dict(vars={"v": "R", "c": "R"}, hyp=["c >= 1.0"], claim="1.0 / c * v == v / c"),
    "denominator": dict(vars={"c": "I"}, hyp=["c >= 1"],
                        claim="c * c != 0 and 0.457 + 0.494 / c + 0.045 / (c * c) > 0.0"),
}
CONTRACTS[_E + "normalization_cressie"]["use"] = {"i": [
    ("reciprocal", {"v": "variogram[i]", "c": "max(counts[i], 1)"}),
    ("denominator", {"c": "max(counts[i], 1)"})]}
CONTRACTS[_E + "choose_estimator_func"] = dict(
    ensures={"select": "result == ite(estimator_type == 'm', fptr('estimator_matheron'), fptr('estimator_cressie'))"})
CONTRACTS[_E + "choose_estimator_normalization"] = dict(
    ensures={"select": "result == ite(estimator_type == 'm', fptr('normalization_matheron'), "
                       "fptr('normalization_cressie'))"})
CONTRACTS[_E + "choose_estimator_normalization_vec"] = dict(
    ensures={"select": "result == ite(estimator_type == 'm', fptr('normalization_matheron_vec'), "
                       "fptr('normalization_cressie_vec'))"})

_EST_REQ = ["estimator_type == 'm' or estimator_type == 'c'", _NT_REQ]

# ---------------------------------------------------------------------------------- unstructured
_UA = "f, bin_edges, pos, distance_type, pos.shape[0], f.shape[0]"
CONTRACTS[_E + "unstructured"] = dict(
    nan_arrays=["f"],
    abbrev={"C(b, J)": "CjU(%s, pos.shape[1], b, J)" % _UA,
            "Sv(b, J)": "SjU(%s, estimator_type, pos.shape[1], b, J)" % _UA,
            "Ck(b, a, K)": "CkU(%s, pos.shape[1], b, a, K)" % _UA,
            "Sk(b, a, K)": "SkU(%s, estimator_type, pos.shape[1], b, a, K)" % _UA,
            "n()": "pos.shape[1]", "B()": "bin_edges.shape[0] - 1"},
    requires=_shapes32("pos.shape[0]", "pos.shape[1]", "f.shape[0]", "bin_edges.shape[0]") + _EST_REQ + [
        "distance_type == 'e' or distance_type == 'h'"],
    raises={"ValueError": "(distance_type != 'e' and pos.shape[0] != 2) or pos.shape[1] != f.shape[1] "
                          "or bin_edges.shape[0] < 2"},
    ensures={"shape": "result[0].shape[0] == B() and result[1].shape[0] == B()",
             "counts": "forall(b, 0, B(), result[1][b] == C(b, n()))",
             "variogram": "forall(b, 0, B(), result[0][b] == norm(estimator_type, Sv(b, n()), C(b, n())))"},
    invariants={
        "i": ["forall(b, 0, i, counts[b] == C(b, n()))", "forall(b, 0, i, variogram[b] == Sv(b, n()))",
              "forall(b, i, B(), counts[b] == 0)", "forall(b, i, B(), variogram[b] == 0)"],
        "j": ["counts[i] == C(i, j)", "variogram[i] == Sv(i, j)"],
        "k": ["counts[i] == C(i, j) + Ck(i, j, k)", "variogram[i] == Sv(i, j) + Sk(i, j, k)"],
        "m": ["counts[i] == C(i, j) + Ck(i, j, k) + Cm(f, j, k, m)",
              "variogram[i] == Sv(i, j) + Sk(i, j, k) + Sm(f, estimator_type, j, k, m)"]},
    post={"m": ["counts[i] == C(i, j) + Ck(i, j, k) + Cm(f, j, k, f.shape[0])",
                "variogram[i] == Sv(i, j) + Sk(i, j, k) + Sm(f, estimator_type, j, k, f.shape[0])"],
          "k": ["counts[i] == C(i, j + 1)", "variogram[i] == Sv(i, j + 1)"],
          "j": ["counts[i] == C(i, n())", "variogram[i] == Sv(i, n())"]},
)

# ---------------------------------------------------------------------------------- directional
def _directional(fm):
    da = "f, bin_edges, pos, direction, angles_tol, bandwidth, %s, pos.shape[0], f.shape[0]" % fm
    dtj = "dirtest(pos, direction, pos.shape[0], dist_e(pos, j, k, pos.shape[0]), angles_tol, bandwidth, k, j, %s)"
    member = "(%s and (not %s or forall(dp, 0, dd, not %s)))" % (dtj % "dd", fm, dtj % "dp")
    return dict(
        nan_arrays=["f"],
        abbrev={"C(dd, b, J)": "CjD(%s, pos.shape[1], dd, b, J)" % da,
                "Sv(dd, b, J)": "SjD(%s, estimator_type, pos.shape[1], dd, b, J)" % da,
                "Ck(dd, b, a, K)": "CkD(%s, pos.shape[1], dd, b, a, K)" % da,
                "Sk(dd, b, a, K)": "SkD(%s, estimator_type, pos.shape[1], dd, b, a, K)" % da,
                "member(dd)": member, "DT(dd)": dtj % "dd",
                "n()": "pos.shape[1]", "B()": "bin_edges.shape[0] - 1", "Dn()": "direction.shape[0]"},
        requires=_shapes32("pos.shape[0]", "pos.shape[1]", "f.shape[0]", "bin_edges.shape[0]",
                           "direction.shape[0]") + _EST_REQ + ["direction.shape[1] >= pos.shape[0]"],
        raises={"ValueError": "pos.shape[1] != f.shape[1] or bin_edges.shape[0] < 2 or angles_tol <= 0"},
        ensures={"shape": "result[0].shape[0] == Dn() and result[0].shape[1] == B() and "
                          "result[1].shape[0] == Dn() and result[1].shape[1] == B()",
                 "counts": "forall(dd, 0, Dn(), forall(b, 0, B(), result[1][dd, b] == C(dd, b, n())))",
                 "variogram": "forall(dd, 0, Dn(), forall(b, 0, B(), result[0][dd, b] == "
                              "norm(estimator_type, Sv(dd, b, n()), C(dd, b, n()))))"},
        invariants={
            "i": ["forall(dd, 0, Dn(), forall(b, 0, i, counts[dd, b] == C(dd, b, n())))",
                  "forall(dd, 0, Dn(), forall(b, 0, i, variogram[dd, b] == Sv(dd, b, n())))",
                  "forall(dd, 0, Dn(), forall(b, i, B(), counts[dd, b] == 0))",
                  "forall(dd, 0, Dn(), forall(b, i, B(), variogram[dd, b] == 0))"],
            "j": ["forall(dd, 0, Dn(), counts[dd, i] == C(dd, i, j))",
                  "forall(dd, 0, Dn(), variogram[dd, i] == Sv(dd, i, j))"],
            "k": ["forall(dd, 0, Dn(), counts[dd, i] == C(dd, i, j) + Ck(dd, i, j, k))",
                  "forall(dd, 0, Dn(), variogram[dd, i] == Sv(dd, i, j) + Sk(dd, i, j, k))"],
            "d": ["forall(dd, 0, d, counts[dd, i] == entry(counts)[dd, i] + "
                  "ite(member(dd), Cm(f, j, k, f.shape[0]), 0))",
                  "forall(dd, 0, d, variogram[dd, i] == entry(variogram)[dd, i] + "
                  "ite(member(dd), Sm(f, estimator_type, j, k, f.shape[0]), 0.0))",
                  "forall(dd, d, Dn(), counts[dd, i] == entry(counts)[dd, i])",
                  "forall(dd, d, Dn(), variogram[dd, i] == entry(variogram)[dd, i])",
                  "implies(separate_dirs, forall(dp, 0, d, not DT(dp)))"],
            "m": ["counts[d, i] == entry(counts)[d, i] + Cm(f, j, k, m)",
                  "variogram[d, i] == entry(variogram)[d, i] + Sm(f, estimator_type, j, k, m)"]},
        post={"m": ["counts[d, i] == entry(counts)[d, i] + Cm(f, j, k, f.shape[0])",
                    "variogram[d, i] == entry(variogram)[d, i] + Sm(f, estimator_type, j, k, f.shape[0])"],
              "k": ["forall(dd, 0, Dn(), counts[dd, i] == C(dd, i, j + 1))",
                    "forall(dd, 0, Dn(), variogram[dd, i] == Sv(dd, i, j + 1))"],
              "j": ["forall(dd, 0, Dn(), counts[dd, i] == C(dd, i, n()))",
                    "forall(dd, 0, Dn(), variogram[dd, i] == Sv(dd, i, n()))"]},
    )


# kernel level (C15, Appendix A): first-match semantics when separate_dirs is set
CONTRACTS[_E + "directional"] = _directional("separate_dirs")

# definition level (C08): a pair belongs to direction d iff it passes the direction test for d.
# Lemma assumed as precondition (consequence of _separate_dirs_test in the wrapper, not proved here):
# separated directions => at most one direction passes for a NON-ZERO pair vector.
_SEPARATED = ("implies(separate_dirs, forall(a, 0, pos.shape[1], forall(b, a + 1, pos.shape[1], "
              "forall(d1, 0, direction.shape[0], forall(d2, d1 + 1, direction.shape[0], "
              "implies(dist_e(pos, a, b, pos.shape[0]) > 0.0, not ("
              "dirtest(pos, direction, pos.shape[0], dist_e(pos, a, b, pos.shape[0]), angles_tol, bandwidth, b, a, d1) and "
              "dirtest(pos, direction, pos.shape[0], dist_e(pos, a, b, pos.shape[0]), angles_tol, bandwidth, b, a, d2))))))))")
_dd = _directional("False")
_dd["requires"] = _dd["requires"] + [_SEPARATED]
_dd["splits"] = {"k": [("nonzero_pair_vector", "dist > 0.0", "no_coincident"),
                       ("zero_pair_vector", "not (dist > 0.0)", "coincident")]}
CONTRACTS[_E + "directional@definition"] = _dd

# ---------------------------------------------------------------------------------- along axis
def _structured(masked):
    if masked:
        sv = "Ms(f, mask, estimator_type, kk, f.shape[1], %s)"
        cv = "MCs(mask, kk, f.shape[1], %s)"
        st = "Mt(f, mask, estimator_type, kk, i, %s)"
        ct = "MCt(mask, kk, i, %s)"
    else:
        sv = "Ss(f, estimator_type, kk, f.shape[1], %s)"
        cv = "Cs(f.shape[1], %s)"
        st = "St(f, estimator_type, kk, i, %s)"
        ct = "Ct(%s)"
    done = "min(i, n() - kk)"
    zero = "implies(n() >= 1, variogram[0] == 0 and counts[0] == 0)"
    c = dict(
        abbrev={"n()": "f.shape[0]"},
        requires=_shapes32("f.shape[0]", "f.shape[1]") + _EST_REQ,
        ensures={"shape": "result.shape[0] == max(n(), 0)",
                 "lag0": "implies(n() >= 1, result[0] == 0)",
                 "variogram": "forall(kk, 1, n(), result[kk] == norm(estimator_type, %s, %s))"
                              % (sv % "n() - kk", cv % "n() - kk")},
        invariants={
            "i": ["forall(kk, 1, n(), variogram[kk] == %s)" % (sv % done),
                  "forall(kk, 1, n(), counts[kk] == %s)" % (cv % done), zero],
            "j": ["forall(kk, 1, n(), variogram[kk] == %s + ite(kk < n() - i, %s, 0.0))" % (sv % done, st % "j"),
                  "forall(kk, 1, n(), counts[kk] == %s + ite(kk < n() - i, %s, 0))" % (cv % done, ct % "j"),
                  zero],
            "k": ["forall(kk, 1, k, variogram[kk] == %s + %s)" % (sv % done, st % "j + 1"),
                  "forall(kk, 1, k, counts[kk] == %s + %s)" % (cv % done, ct % "j + 1"),
                  "forall(kk, k, n(), variogram[kk] == %s + ite(kk < n() - i, %s, 0.0))" % (sv % done, st % "j"),
                  "forall(kk, k, n(), counts[kk] == %s + ite(kk < n() - i, %s, 0))" % (cv % done, ct % "j"),
                  zero]},
        post={"k": ["forall(kk, 1, n(), variogram[kk] == %s + ite(kk < n() - i, %s, 0.0))" % (sv % done, st % "j + 1"),
                    "forall(kk, 1, n(), counts[kk] == %s + ite(kk < n() - i, %s, 0))" % (cv % done, ct % "j + 1")],
              "j": ["forall(kk, 1, n(), variogram[kk] == %s)" % (sv % "min(i + 1, n() - kk)"),
                    "forall(kk, 1, n(), counts[kk] == %s)" % (cv % "min(i + 1, n() - kk)")],
              "i": ["forall(kk, 1, n(), variogram[kk] == %s)" % (sv % "n() - kk"),
                    "forall(kk, 1, n(), counts[kk] == %s)" % (cv % "n() - kk")]},
    )
    if masked:
        c["requires"] = c["requires"] + ["mask.shape[0] >= f.shape[0]", "mask.shape[1] >= f.shape[1]"]
    return c


CONTRACTS[_E + "structured"] = _structured(False)
CONTRACTS[_E + "ma_structured"] = _structured(True)


# ------------------------------------------------------------------------- estimator generators
def _g_pos(rng, D, n, dup, latlon=False):
    if latlon:
        pos = np.vstack([rng.uniform(-80, 80, size=n), rng.uniform(-170, 170, size=n)])
    elif rng.random() < 0.6:
        # lattice: exact ties of distances with (integer) bin edges; pairwise distinct unless dup
        hi = 4 if 4 ** D >= 3 * max(n, 1) else 3 * n
        while True:
            pos = rng.integers(0, hi, size=(D, n)).astype(float)
            if dup or len({tuple(c) for c in pos.T}) == n:
                break
    else:
        pos = rng.normal(size=(D, n))
    if n >= 2 and dup:
        pos[:, int(rng.integers(1, n))] = pos[:, 0]
    return pos


def _g_field(rng, F, n):
    f = rng.normal(size=(F, n))
    if rng.random() < 0.6:
        f[rng.random((F, n)) < 0.25] = np.nan
    return f


def _g_edges(rng, latlon=False):
    nb = int(rng.integers(1, 4))
    if rng.random() < 0.6 and not latlon:
        steps = rng.integers(1, 3, size=nb).astype(float)
    else:
        steps = rng.uniform(0.2, 1.5, size=nb) * (0.5 if latlon else 1.0)
    first = 0.0 if rng.random() < 0.75 else float(rng.uniform(0.1, 1.0))
    return np.concatenate([[first], first + np.cumsum(steps)])


def _g_unstructured(rng, size):
    latlon = rng.random() < 0.3
    D = 2 if latlon else int(rng.integers(1, 4))
    n = int(rng.integers(0, size + 1))
    F = int(rng.integers(0, 3))
    return {"f": _g_field(rng, F, n), "bin_edges": _g_edges(rng, latlon),
            "pos": _g_pos(rng, D, n, rng.random() < 0.3, latlon),
            "estimator_type": "mc"[int(rng.integers(0, 2))], "distance_type": "h" if latlon else "e",
            "num_threads": [None, 1, 2][int(rng.integers(0, 3))]}


def separated(direction, tol):
    """the wrapper's _separate_dirs_test (documented meaning of separate_dirs)"""
    ok = True
    for a in range(direction.shape[0] - 1):
        for b in range(a + 1, direction.shape[0]):
            s = min(abs(float(np.dot(direction[a], direction[b]))), 1.0)
            ok = ok and (np.arccos(s) >= 2 * tol)
    return bool(ok)


def _g_directional(rng, size):
    D = int(rng.integers(1, 4))
    n = int(rng.integers(0, size + 1))
    F = int(rng.integers(1, 3))
    Dn = int(rng.integers(0, 4))
    if rng.random() < 0.6:
        direction = np.eye(D)[rng.integers(0, D, size=Dn)] if Dn else np.zeros((0, D))
        if Dn >= 2 and D >= 2 and rng.random() < 0.7:
            direction = np.eye(D)[np.arange(Dn) % D]
    else:
        direction = rng.normal(size=(Dn, D))
        direction /= np.maximum(np.linalg.norm(direction, axis=1, keepdims=True), 1e-12)
    tol = [np.pi / 8, 0.3, 1.0][int(rng.integers(0, 3))]
    sep = separated(direction, tol) if rng.random() < 0.8 else bool(rng.integers(0, 2))
    return {"f": _g_field(rng, F, n), "bin_edges": _g_edges(rng), "pos": _g_pos(rng, D, n, rng.random() < 0.45),
            "direction": np.ascontiguousarray(direction, dtype=float), "angles_tol": float(tol),
            "bandwidth": [-1.0, 0.6, 2.5][int(rng.integers(0, 3))], "separate_dirs": sep,
            "estimator_type": "mc"[int(rng.integers(0, 2))], "num_threads": [None, 1, 2][int(rng.integers(0, 3))]}


def _coincident(inp):
    p = inp["pos"]
    n = p.shape[1]
    return any(np.array_equal(p[:, a], p[:, b]) for a in range(n) for b in range(a + 1, n))


def _g_structured(rng, size, masked=False):
    n = int(rng.integers(0, size + 1))
    J = int(rng.integers(0, 4))
    inp = {"f": rng.normal(size=(n, J))}
    if masked:
        inp["mask"] = (rng.random((n, J)) < 0.35).astype(np.uint8)
    inp["estimator_type"] = "mc"[int(rng.integers(0, 2))]
    inp["num_threads"] = [None, 1, 2][int(rng.integers(0, 3))]
    return inp


def _g_dist(rng, size, hav=False):
    D = 2 if hav else int(rng.integers(1, 4))
    n = int(rng.integers(1, size + 2))
    return {"dim": int(rng.integers(0, D + 1)) if not hav else 2, "pos": _g_pos(rng, D, n, rng.random() < 0.3, hav),
            "i": int(rng.integers(0, n)), "j": int(rng.integers(0, n))}


def _g_dir_test(rng, size):
    D = int(rng.integers(1, 4))
    n = int(rng.integers(1, size + 2))
    Dn = int(rng.integers(1, 3))
    pos = _g_pos(rng, D, n, rng.random() < 0.3)
    direction = rng.normal(size=(Dn, D)) if rng.random() < 0.5 else np.eye(D)[rng.integers(0, D, size=Dn)].astype(float)
    if rng.random() < 0.5:
        direction = direction / np.maximum(np.linalg.norm(direction, axis=1, keepdims=True), 1e-12)
    i, j, d = int(rng.integers(0, n)), int(rng.integers(0, n)), int(rng.integers(0, Dn))
    true = float(np.sqrt(((pos[:, i] - pos[:, j]) ** 2).sum()))
    s = abs(float(np.dot(pos[:, i] - pos[:, j], direction[d])))
    dist = [true, 0.0, s, 0.5 * s, float(rng.uniform(0, 3))][int(rng.integers(0, 5))]
    return {"dim": D, "pos": pos, "dist": dist, "direction": np.ascontiguousarray(direction),
            "angles_tol": [np.pi / 8, 0.3, 1.0][int(rng.integers(0, 3))],
            "bandwidth": [-1.0, 0.0, 0.6, 2.5][int(rng.integers(0, 4))], "i": i, "j": j, "d": d}


def _g_norm(rng, size, vec=False):
    n = int(rng.integers(0, size + 1))
    if vec:
        d = int(rng.integers(0, 3))
        return {"variogram": rng.uniform(0, 5, size=(d, n)), "counts": rng.integers(0, 4, size=(d, n)).astype(np.int64)}
    return {"variogram": rng.uniform(0, 5, size=n), "counts": rng.integers(0, 4, size=n + int(rng.integers(0, 2))).astype(np.int64)}


_gt = lambda rng, size: {"estimator_type": "mc"[int(rng.integers(0, 2))]}
CONTRACTS[_E + "unstructured"]["gen"] = _g_unstructured
for _k in ("directional", "directional@definition"):
    CONTRACTS[_E + _k]["gen"] = _g_directional
CONTRACTS[_E + "directional@definition"]["classes"] = {"coincident": _coincident,
                                                       "no_coincident": lambda inp: not _coincident(inp)}
CONTRACTS[_E + "structured"]["gen"] = lambda rng, size: _g_structured(rng, size)
CONTRACTS[_E + "ma_structured"]["gen"] = lambda rng, size: _g_structured(rng, size, True)
CONTRACTS[_E + "dist_euclid"]["gen"] = lambda rng, size: _g_dist(rng, size)
CONTRACTS[_E + "dist_haversine"]["gen"] = lambda rng, size: _g_dist(rng, size, True)
CONTRACTS[_E + "dir_test"]["gen"] = _g_dir_test
CONTRACTS[_E + "estimator_matheron"]["gen"] = lambda rng, size: {"f_diff": float(rng.normal())}
CONTRACTS[_E + "estimator_cressie"]["gen"] = lambda rng, size: {"f_diff": float(rng.normal())}
for _n in ("matheron", "cressie"):
    CONTRACTS[_E + "normalization_" + _n]["gen"] = lambda rng, size: _g_norm(rng, size)
    CONTRACTS[_E + "normalization_%s_vec" % _n]["gen"] = lambda rng, size: _g_norm(rng, size, True)
for _n in ("choose_estimator_func", "choose_estimator_normalization", "choose_estimator_normalization_vec"):
    CONTRACTS[_E + _n]["gen"] = _gt
