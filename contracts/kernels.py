"""Sidecar contracts of the three Cython kernels (kernvc engine).

Written from the mathematical definitions (DESIGN.md Appendix A, property statements C08 / C15,
the documented Matheron / Cressie / haversine formulas), NOT from what the code happens to do.
Preconditions of helpers and the array-shape preconditions are taken from the call sites.

Language (see gsvc/kern_spec.py): Python expressions over the parameters, ``result``, the locals
(in loop invariants), plus
    forall(x, lo, hi, P)   lo <= x < hi  =>  P        implies(a, b)   iff(a, b)   ite(c, a, b)
    b2i(c) = 1 if c else 0        int32(x) : x fits a C int        is_none(x)
    entry(A) value of A on entry of the loop the invariant belongs to;  old(A) value at call
    col(A, j) column view   row(A, d) row view   fptr('name') address of a module function
SPEC: recursive sums   f(.., n) = sum_{v = lo}^{n-1} term   (``sum=(v, lo, n)``) or definitions
(``body``).  Sorts: I int, R real, B bool, S string, A1/A2 real arrays, A1i/A2i int arrays,
A2n real rank-2 array with NaN flags, A2u uint8 rank-2 array.
"""
import numpy as np

_PHI = "phi(cov, pos, i, jj, D)"

SPEC = {
    # ------------------------------------------------------------------ summator / krigesum
    "phi": dict(doc="phase  k_j . x_i  over the first d coordinates",
                params=[("cov", "A2"), ("pos", "A2"), ("i", "I"), ("j", "I"), ("d", "I")], ret="R",
                sum=("dd", "0", "d"), term="cov[dd, j] * pos[dd, i]"),
    "S": dict(doc="randomization sum  sum_j z1_j cos(k_j.x_i) + z2_j sin(k_j.x_i)",
              params=[("cov", "A2"), ("z1", "A1"), ("z2", "A1"), ("pos", "A2"), ("i", "I"), ("D", "I"),
                      ("J", "I")], ret="R",
              sum=("jj", "0", "J"), term="z1[jj] * cos(%s) + z2[jj] * sin(%s)" % (_PHI, _PHI)),
    "Sf": dict(doc="Fourier sum  sum_j sf_j (z1_j cos + z2_j sin)",
               params=[("sf", "A1"), ("cov", "A2"), ("z1", "A1"), ("z2", "A1"), ("pos", "A2"),
                       ("i", "I"), ("D", "I"), ("J", "I")], ret="R",
               sum=("jj", "0", "J"),
               term="sf[jj] * (z1[jj] * cos(%s) + z2[jj] * sin(%s))" % (_PHI, _PHI)),
    "sumsq": dict(doc="squared euclidean norm of the first n entries",
                  params=[("v", "A1"), ("n", "I")], ret="R", sum=("x", "0", "n"), term="v[x] * v[x]"),
    "SI": dict(doc="incompressible sum, component dd:  sum_j (delta_{dd,0} - k_dd k_0 / |k|^2)(...)",
               params=[("cov", "A2"), ("z1", "A1"), ("z2", "A1"), ("pos", "A2"), ("dd", "I"), ("i", "I"),
                       ("D", "I"), ("Dc", "I"), ("J", "I")], ret="R",
               sum=("jj", "0", "J"),
               term="(b2i(dd == 0) - cov[dd, jj] * cov[0, jj] / sumsq(col(cov, jj), Dc)) * "
                    "(z1[jj] * cos(%s) + z2[jj] * sin(%s))" % (_PHI, _PHI)),
    "q": dict(doc="(M V)[i, k] over the first J columns",
              params=[("M", "A2"), ("Vv", "A2"), ("i", "I"), ("k", "I"), ("J", "I")], ret="R",
              sum=("jj", "0", "J"), term="M[i, jj] * Vv[jj, k]"),
    "Fk": dict(doc="kriging field  sum_i c_i (M V)[i,k]",
               params=[("M", "A2"), ("Vv", "A2"), ("c", "A1"), ("k", "I"), ("m", "I"), ("Ii", "I")],
               ret="R", sum=("ii", "0", "Ii"), term="c[ii] * q(M, Vv, ii, k, m)"),
    "Ek": dict(doc="kriging variance term  sum_i V[i,k] (M V)[i,k]",
               params=[("M", "A2"), ("Vv", "A2"), ("k", "I"), ("m", "I"), ("Ii", "I")],
               ret="R", sum=("ii", "0", "Ii"), term="Vv[ii, k] * q(M, Vv, ii, k, m)"),
}

_NT_REQ = "implies(not is_none(num_threads), int32(num_threads))"

_SET_NUM_THREADS = dict(
    doc="returns the given count, or 1 (no OpenMP build) / the processor count (OpenMP build)",
    ret="int",
    requires=[_NT_REQ],
    ensures={"given": "implies(not is_none(num_threads), result == num_threads)",
             "default": "implies(is_none(num_threads) and not OPENMP, result == 1)",
             "positive_default": "implies(is_none(num_threads), result >= 1)",
             "fits_int": "int32(result)"},
)


def _shapes32(*names):
    return ["int32(%s)" % n for n in names]


CONTRACTS = {}

# ------------------------------------------------------------------------------------- summator
CONTRACTS["field/summator.pyx:set_num_threads"] = _SET_NUM_THREADS
CONTRACTS["krige/krigesum.pyx:set_num_threads"] = _SET_NUM_THREADS
CONTRACTS["variogram/estimator.pyx:set_num_threads"] = _SET_NUM_THREADS

CONTRACTS["field/summator.pyx:summate"] = dict(
    abbrev={"Sx(x, J)": "S(cov_samples, z_1, z_2, pos, x, pos.shape[0], J)",
            "N()": "cov_samples.shape[1]"},
    requires=_shapes32("pos.shape[0]", "pos.shape[1]", "cov_samples.shape[1]") + [
        "cov_samples.shape[0] >= pos.shape[0]", "z_1.shape[0] >= cov_samples.shape[1]",
        "z_2.shape[0] >= cov_samples.shape[1]", _NT_REQ],
    ensures={"shape": "result.shape[0] == pos.shape[1]",
             "sum": "forall(x, 0, pos.shape[1], result[x] == Sx(x, N()))"},
    invariants={
        "i": ["forall(x, 0, i, summed_modes[x] == Sx(x, N()))",
              "forall(x, i, pos.shape[1], summed_modes[x] == 0)"],
        "j": ["summed_modes[i] == Sx(i, j)"],
        "d": ["phase == phi(cov_samples, pos, i, j, d)"]},
    post={"d": ["phase == phi(cov_samples, pos, i, j, pos.shape[0])"],
          "j": ["summed_modes[i] == Sx(i, N())"]},
)

CONTRACTS["field/summator.pyx:summate_fourier"] = dict(
    abbrev={"Sx(x, J)": "Sf(spectrum_factor, modes, z_1, z_2, pos, x, pos.shape[0], J)",
            "N()": "modes.shape[1]"},
    requires=_shapes32("pos.shape[0]", "pos.shape[1]", "modes.shape[1]") + [
        "modes.shape[0] >= pos.shape[0]", "z_1.shape[0] >= modes.shape[1]",
        "z_2.shape[0] >= modes.shape[1]", "spectrum_factor.shape[0] >= modes.shape[1]", _NT_REQ],
    ensures={"shape": "result.shape[0] == pos.shape[1]",
             "sum": "forall(x, 0, pos.shape[1], result[x] == Sx(x, N()))"},
    invariants={
        "i": ["forall(x, 0, i, summed_modes[x] == Sx(x, N()))",
              "forall(x, i, pos.shape[1], summed_modes[x] == 0)"],
        "j": ["summed_modes[i] == Sx(i, j)"],
        "d": ["phase == phi(modes, pos, i, j, d)"]},
    post={"d": ["phase == phi(modes, pos, i, j, pos.shape[0])"],
          "j": ["summed_modes[i] == Sx(i, N())"]},
)

CONTRACTS["field/summator.pyx:abs_square"] = dict(
    requires=["int32(vec.shape[0])"],
    ensures={"sumsq": "result == sumsq(vec, vec.shape[0])"},
    invariants={"i": ["r == sumsq(vec, i)"]},
)

CONTRACTS["field/summator.pyx:summate_incompr"] = dict(
    abbrev={"SIx(dd, x, J)": "SI(cov_samples, z_1, z_2, pos, dd, x, pos.shape[0], "
                             "cov_samples.shape[0], J)",
            "N()": "cov_samples.shape[1]", "D()": "pos.shape[0]", "X()": "pos.shape[1]"},
    requires=_shapes32("pos.shape[0]", "pos.shape[1]", "cov_samples.shape[1]",
                       "cov_samples.shape[0]") + [
        "pos.shape[0] >= 1", "cov_samples.shape[0] >= pos.shape[0]",
        "z_1.shape[0] >= cov_samples.shape[1]", "z_2.shape[0] >= cov_samples.shape[1]",
        # cdivision=True: a zero wave vector silently gives inf/NaN -> precondition
        "forall(jj, 0, cov_samples.shape[1], "
        "sumsq(col(cov_samples, jj), cov_samples.shape[0]) != 0)"],
    ensures={"shape": "result.shape[0] == pos.shape[0] and result.shape[1] == pos.shape[1]",
             "sum": "forall(dd, 0, D(), forall(x, 0, X(), result[dd, x] == SIx(dd, x, N())))"},
    invariants={
        "i": ["forall(dd, 0, D(), forall(x, 0, i, summed_modes[dd, x] == SIx(dd, x, N())))",
              "forall(dd, 0, D(), forall(x, i, X(), summed_modes[dd, x] == 0))"],
        "j": ["forall(dd, 0, D(), summed_modes[dd, i] == SIx(dd, i, j))"],
        "d#1": ["phase == phi(cov_samples, pos, i, j, d)"],
        "d#2": ["forall(dd, 0, d, summed_modes[dd, i] == SIx(dd, i, j + 1))",
                "forall(dd, d, D(), summed_modes[dd, i] == SIx(dd, i, j))"]},
    post={"d#1": ["phase == phi(cov_samples, pos, i, j, pos.shape[0])"],
          "d#2": ["forall(dd, 0, D(), summed_modes[dd, i] == SIx(dd, i, j + 1))"],
          "j": ["forall(dd, 0, D(), summed_modes[dd, i] == SIx(dd, i, N()))"]},
)

# -------------------------------------------------------------------------------------- krigesum
_KR_REQ = _shapes32("krig_mat.shape[0]", "krig_vecs.shape[1]") + [
    "krig_mat.shape[1] >= krig_mat.shape[0]", "krig_vecs.shape[0] >= krig_mat.shape[0]",
    "cond.shape[0] >= krig_mat.shape[0]", _NT_REQ]
_KR_ABB = {"F(x, I)": "Fk(krig_mat, krig_vecs, cond, x, krig_mat.shape[0], I)",
           "E(x, I)": "Ek(krig_mat, krig_vecs, x, krig_mat.shape[0], I)",
           "m()": "krig_mat.shape[0]", "T()": "krig_vecs.shape[1]"}

CONTRACTS["krige/krigesum.pyx:calc_field_krige_and_variance"] = dict(
    abbrev=_KR_ABB, requires=_KR_REQ,
    ensures={"shape": "result[0].shape[0] == T() and result[1].shape[0] == T()",
             "field": "forall(x, 0, T(), result[0][x] == F(x, m()))",
             "error": "forall(x, 0, T(), result[1][x] == E(x, m()))"},
    invariants={
        "k": ["forall(x, 0, k, field[x] == F(x, m()))", "forall(x, 0, k, error[x] == E(x, m()))",
              "forall(x, k, T(), field[x] == 0)", "forall(x, k, T(), error[x] == 0)"],
        "i": ["field[k] == F(k, i)", "error[k] == E(k, i)"],
        "j": ["krig_fac == q(krig_mat, krig_vecs, i, k, j)"]},
    post={"j": ["krig_fac == q(krig_mat, krig_vecs, i, k, m())"],
          "i": ["field[k] == F(k, m())", "error[k] == E(k, m())"]},
)

CONTRACTS["krige/krigesum.pyx:calc_field_krige"] = dict(
    abbrev=_KR_ABB, requires=_KR_REQ,
    ensures={"shape": "result.shape[0] == T()",
             "field": "forall(x, 0, T(), result[x] == F(x, m()))"},
    invariants={
        "k": ["forall(x, 0, k, field[x] == F(x, m()))", "forall(x, k, T(), field[x] == 0)"],
        "i": ["field[k] == F(k, i)"],
        "j": ["krig_fac == q(krig_mat, krig_vecs, i, k, j)"]},
    post={"j": ["krig_fac == q(krig_mat, krig_vecs, i, k, m())"],
          "i": ["field[k] == F(k, m())"]},
)


# ------------------------------------------------------------------------- input generators (native)
def _gen_summate(rng, size, fourier=False, incompr=False):
    D = int(rng.integers(1, 4)) if (incompr or size > 0) else int(rng.integers(0, 4))
    N = int(rng.integers(0, size + 1))
    X = int(rng.integers(0, size + 1))
    Dc = D + int(rng.integers(0, 2))
    cov = rng.normal(size=(Dc, N))
    inp = {}
    if fourier:
        inp["spectrum_factor"] = rng.normal(size=N + int(rng.integers(0, 2)))
        inp["modes"] = cov
    else:
        inp["cov_samples"] = cov
    inp["z_1"] = rng.normal(size=N + int(rng.integers(0, 2)))
    inp["z_2"] = rng.normal(size=N)
    inp["pos"] = rng.normal(size=(D, X))
    inp["num_threads"] = [None, 1, 2][int(rng.integers(0, 3))]
    return inp


def _gen_krige(rng, size):
    m = int(rng.integers(0, size + 1))
    T = int(rng.integers(0, size + 1))
    return {"krig_mat": rng.normal(size=(m, m + int(rng.integers(0, 2)))),
            "krig_vecs": rng.normal(size=(m + int(rng.integers(0, 2)), T)),
            "cond": rng.normal(size=m), "num_threads": [None, 1, 3][int(rng.integers(0, 3))]}


CONTRACTS["field/summator.pyx:summate"]["gen"] = lambda rng, size: _gen_summate(rng, size)
CONTRACTS["field/summator.pyx:summate_fourier"]["gen"] = lambda rng, size: _gen_summate(rng, size, fourier=True)
CONTRACTS["field/summator.pyx:summate_incompr"]["gen"] = lambda rng, size: _gen_summate(rng, size, incompr=True)
CONTRACTS["field/summator.pyx:abs_square"]["gen"] = lambda rng, size: {"vec": rng.normal(size=int(rng.integers(0, size + 1)))}
CONTRACTS["krige/krigesum.pyx:calc_field_krige_and_variance"]["gen"] = _gen_krige
CONTRACTS["krige/krigesum.pyx:calc_field_krige"]["gen"] = _gen_krige
_SET_NUM_THREADS["gen"] = lambda rng, size: {"num_threads": [None, 1, 2, 7][int(rng.integers(0, 4))]}
